package main

import (
	"fmt"
	"net/netip"
	"regexp"
	"strconv"
	"strings"

	"verif.local/lab/vc"
)

// ---------------------------------------------------------------- ipv4

func genOctets(r *vc.Rand) ([4]int, string) {
	var o [4]int
	switch r.Intn(6) {
	case 0:
		return [4]int{0, 0, 0, 0}, "all-zero"
	case 1:
		return [4]int{255, 255, 255, 255}, "all-255"
	case 2:
		for i := range o {
			o[i] = []int{0, 1, 9, 10, 99, 100, 199, 200, 249, 250, 255}[r.Intn(11)]
		}
		return o, "boundary-octets"
	}
	for i := range o {
		o[i] = r.Range(0, 255)
	}
	return o, "random"
}

func quad(o [4]int) string { return fmt.Sprintf("%d.%d.%d.%d", o[0], o[1], o[2], o[3]) }

var reV4 = regexp.MustCompile(`^(\d{1,3})\.(\d{1,3})\.(\d{1,3})\.(\d{1,3})$`)

// refV4: 1 valid, 0 malformed, -1 leading zeros (historically octal: not judged).
func refV4(s string) int {
	m := reV4.FindStringSubmatch(s)
	if m == nil {
		return 0
	}
	lz := false
	for _, x := range m[1:] {
		if atoi(x) > 255 {
			return 0
		}
		if len(x) > 1 && x[0] == '0' {
			lz = true
		}
	}
	if lz {
		return -1
	}
	return 1
}

var v4Classes = []string{"octet-256", "octet-999", "three-octets", "five-octets", "empty-octet", "trailing-dot", "leading-dot",
	"non-digit", "dash-separator", "leading-space", "trailing-space", "negative-octet", "octet-four-digits", "with-port", "with-prefix-length", "empty"}

func corruptV4(r *vc.Rand, class string) (string, string) {
	o, _ := genOctets(r)
	parts := []string{strconv.Itoa(o[0]), strconv.Itoa(o[1]), strconv.Itoa(o[2]), strconv.Itoa(o[3])}
	k := r.Intn(4)
	switch class {
	case "octet-256":
		parts[k] = strconv.Itoa(r.Range(256, 299))
		return strings.Join(parts, "."), "octet " + parts[k] + " > 255"
	case "octet-999":
		parts[k] = strconv.Itoa(r.Range(300, 999))
		return strings.Join(parts, "."), "octet " + parts[k] + " > 255"
	case "three-octets":
		return strings.Join(parts[:3], "."), "only three octets"
	case "five-octets":
		return strings.Join(append(parts, strconv.Itoa(r.Range(0, 255))), "."), "five octets"
	case "empty-octet":
		parts[k] = ""
		return strings.Join(parts, "."), "an octet is empty"
	case "trailing-dot":
		return strings.Join(parts, ".") + ".", "trailing '.'"
	case "leading-dot":
		return "." + strings.Join(parts, "."), "leading '.'"
	case "non-digit":
		s := strings.Join(parts, ".")
		ps := positions(s, digits)
		return replaceAt(s, ps[r.Intn(len(ps))], string(pickc(r, "abcdefxyzOIl"))), "a digit replaced by a letter"
	case "dash-separator":
		s := strings.Join(parts, ".")
		ps := positions(s, ".")
		return replaceAt(s, ps[r.Intn(len(ps))], r.Pick("-", ",", ":", " ")), "a '.' replaced"
	case "leading-space":
		return " " + strings.Join(parts, "."), "leading space"
	case "trailing-space":
		return strings.Join(parts, ".") + r.Pick(" ", "\n", "\t"), "trailing white space"
	case "negative-octet":
		parts[k] = "-" + parts[k]
		return strings.Join(parts, "."), "signed octet"
	case "octet-four-digits":
		parts[k] = strconv.Itoa(r.Range(1000, 9999))
		return strings.Join(parts, "."), "octet with four digits"
	case "with-port":
		return strings.Join(parts, ".") + ":" + strconv.Itoa(r.Range(1, 65535)), "address followed by a port"
	case "with-prefix-length":
		return strings.Join(parts, ".") + "/" + strconv.Itoa(r.Range(0, 32)), "address followed by a prefix length"
	case "empty":
		return "", "empty string"
	}
	panic("ipv4 class " + class)
}

// ---------------------------------------------------------------- ipv6

// refV6 is a recogniser written from RFC 4291 §2.2.
func refV6(s string) int {
	if s == "" || strings.ContainsAny(s, "%[]/ \t\n") {
		return 0
	}
	halves := strings.Split(s, "::")
	if len(halves) > 2 {
		return 0
	}
	count := func(part string, last bool) (int, bool) {
		if part == "" {
			return 0, true
		}
		gs := strings.Split(part, ":")
		n := 0
		for i, g := range gs {
			if last && i == len(gs)-1 && strings.Contains(g, ".") {
				switch refV4(g) {
				case 1:
					n += 2
					continue
				default:
					return 0, false
				}
			}
			if len(g) < 1 || len(g) > 4 {
				return 0, false
			}
			for j := 0; j < len(g); j++ {
				if !strings.ContainsRune("0123456789abcdefABCDEF", rune(g[j])) {
					return 0, false
				}
			}
			n++
		}
		return n, true
	}
	if len(halves) == 1 {
		n, ok := count(halves[0], true)
		if !ok || n != 8 {
			return 0
		}
		return 1
	}
	a, ok1 := count(halves[0], false)
	b, ok2 := count(halves[1], true)
	if !ok1 || !ok2 || a+b > 7 {
		return 0
	}
	return 1
}

type v6 struct {
	g     [8]uint16
	style int // 0 full, 1 compressed
	from  int // compressed run [from,to)
	to    int
	v4    bool // last two groups rendered as dotted quad
	padz  bool // groups zero padded to 4 digits
	cas   int
}

func (a v6) group(r *vc.Rand, i int) string {
	s := strconv.FormatUint(uint64(a.g[i]), 16)
	if a.padz {
		s = fmt.Sprintf("%04x", a.g[i])
	}
	if a.cas == 1 || (a.cas == 2 && r.Bool()) {
		s = strings.ToUpper(s)
	}
	return s
}

func (a v6) render(r *vc.Rand) string {
	n := 8
	var tail string
	if a.v4 {
		n = 6
		tail = fmt.Sprintf("%d.%d.%d.%d", a.g[6]>>8, a.g[6]&0xff, a.g[7]>>8, a.g[7]&0xff)
	}
	var left, right []string
	for i := 0; i < n; i++ {
		if a.style == 1 && i >= a.from && i < a.to {
			continue
		}
		if a.style == 1 && i >= a.to {
			right = append(right, a.group(r, i))
		} else {
			left = append(left, a.group(r, i))
		}
	}
	if a.style == 0 {
		if tail != "" {
			left = append(left, tail)
		}
		return strings.Join(left, ":")
	}
	if tail != "" {
		right = append(right, tail)
	}
	return strings.Join(left, ":") + "::" + strings.Join(right, ":")
}

func genV6(r *vc.Rand) (v6, string) {
	var a v6
	for i := range a.g {
		switch r.Intn(4) {
		case 0:
			a.g[i] = uint16(r.Intn(16))
		case 1:
			a.g[i] = uint16(r.Intn(256))
		default:
			a.g[i] = uint16(r.Intn(65536))
		}
	}
	a.cas = r.Intn(3)
	class := ""
	if r.Chance(1, 4) {
		a.v4 = true
		class = "embedded-ipv4,"
		if r.Bool() {
			a.g = [8]uint16{0, 0, 0, 0, 0, 0xffff, a.g[6], a.g[7]}
			a.style, a.from, a.to = 1, 0, 5
			return a, class + "v4-mapped"
		}
	}
	n := 8
	if a.v4 {
		n = 6
	}
	switch r.Intn(6) {
	case 0:
		a.padz = true
		return a, class + "full-padded"
	case 1:
		return a, class + "full"
	case 2:
		a.style, a.from = 1, 0
		a.to = r.Range(1, n-1)
		class += "compressed-start"
	case 3:
		a.style, a.to = 1, n
		a.from = r.Range(1, n-1)
		class += "compressed-end"
	case 4:
		if !a.v4 {
			a.style, a.from, a.to = 1, 0, 8
			a.g = [8]uint16{}
			return a, "unspecified"
		}
		fallthrough
	default:
		a.style = 1
		a.from = r.Range(1, n-2)
		a.to = r.Range(a.from+1, n-1)
		class += "compressed-middle"
	}
	for i := a.from; i < a.to; i++ {
		a.g[i] = 0
	}
	return a, class
}

var v6Classes = []string{"triple-colon", "double-compression", "nine-groups", "seven-groups", "group-five-hex", "non-hex",
	"trailing-colon", "leading-colon", "compression-with-eight-groups", "embedded-ipv4-octet-256", "embedded-ipv4-not-last",
	"embedded-ipv4-three-octets", "bracketed", "leading-space", "trailing-space", "with-prefix-length", "dot-separator", "empty"}

func fullV6(r *vc.Rand) []string {
	gs := make([]string, 8)
	for i := range gs {
		gs[i] = strconv.FormatUint(uint64(r.Range(1, 65535)), 16)
	}
	return gs
}

func corruptV6(r *vc.Rand, class string) (string, string) {
	gs := fullV6(r)
	switch class {
	case "triple-colon":
		k := r.Range(1, 6)
		return strings.Join(gs[:k], ":") + ":::" + strings.Join(gs[k+1:], ":"), "':::'"
	case "double-compression":
		return gs[0] + "::" + gs[1] + "::" + gs[2], "two '::'"
	case "nine-groups":
		return strings.Join(append(gs, "1"), ":"), "nine groups"
	case "seven-groups":
		return strings.Join(gs[:7], ":"), "seven groups and no '::'"
	case "group-five-hex":
		k := r.Intn(8)
		gs[k] = r.Pick("1", "0", "f") + fmt.Sprintf("%04x", r.Intn(65536))
		return strings.Join(gs, ":"), "a group with five hex digits"
	case "non-hex":
		k := r.Intn(8)
		gs[k] = replaceAt(gs[k], r.Intn(len(gs[k])), string(pickc(r, "ghxzGO_")))
		return strings.Join(gs, ":"), "a non-hex character in a group"
	case "trailing-colon":
		return strings.Join(gs, ":") + ":", "trailing single ':'"
	case "leading-colon":
		return ":" + strings.Join(gs, ":"), "leading single ':'"
	case "compression-with-eight-groups":
		k := r.Range(1, 7)
		return strings.Join(gs[:k], ":") + "::" + strings.Join(gs[k:], ":"), "'::' although eight groups are present"
	case "embedded-ipv4-octet-256":
		return strings.Join(gs[:6], ":") + fmt.Sprintf(":%d.%d.%d.%d", r.Range(0, 255), r.Range(256, 400), r.Range(0, 255), r.Range(0, 255)), "embedded IPv4 octet > 255"
	case "embedded-ipv4-not-last":
		return fmt.Sprintf("%d.%d.%d.%d:", r.Range(1, 255), r.Range(0, 255), r.Range(0, 255), r.Range(0, 255)) + strings.Join(gs[:6], ":"), "dotted quad not in last position"
	case "embedded-ipv4-three-octets":
		return strings.Join(gs[:6], ":") + fmt.Sprintf(":%d.%d.%d", r.Range(0, 255), r.Range(0, 255), r.Range(0, 255)), "embedded IPv4 with three octets"
	case "bracketed":
		return "[" + strings.Join(gs, ":") + "]", "URI-style brackets"
	case "leading-space":
		return " " + strings.Join(gs, ":"), "leading space"
	case "trailing-space":
		return strings.Join(gs, ":") + r.Pick(" ", "\n"), "trailing white space"
	case "with-prefix-length":
		return strings.Join(gs, ":") + "/" + strconv.Itoa(r.Range(0, 128)), "address followed by a prefix length"
	case "dot-separator":
		return strings.Join(gs, "."), "'.' instead of ':'"
	case "empty":
		return "", "empty string"
	}
	panic("ipv6 class " + class)
}

func netipIs(s string, want6 bool) int {
	a, err := netip.ParseAddr(s)
	if err != nil || a.Zone() != "" {
		return 0
	}
	if a.Is4() != want6 {
		return 1
	}
	return 0
}

func init() {
	gens["ipv4"] = &gen{
		valid: func(r *vc.Rand) (string, string) {
			o, class := genOctets(r)
			return class, quad(o)
		},
		classes: append(append([]string{}, v4Classes...), "is-ipv6"),
		invalid: func(r *vc.Rand, class string) (string, string) {
			if class == "is-ipv6" {
				a, c := genV6(r)
				return a.render(r), "a well-formed IPv6 address (" + c + ") is not an IPv4 address"
			}
			return corruptV4(r, class)
		},
		ref: refV4,
	}
	gens["ipv6"] = &gen{
		valid: func(r *vc.Rand) (string, string) {
			a, class := genV6(r)
			return class, a.render(r)
		},
		classes: append(append([]string{}, v6Classes...), "is-ipv4"),
		invalid: func(r *vc.Rand, class string) (string, string) {
			if class == "is-ipv4" {
				o, c := genOctets(r)
				return quad(o), "a well-formed IPv4 address (" + c + ") is not an IPv6 address"
			}
			return corruptV6(r, class)
		},
		ref: refV6,
	}
	var ipClasses []string
	for _, c := range v4Classes {
		ipClasses = append(ipClasses, "v4/"+c)
	}
	for _, c := range v6Classes {
		if c != "empty" {
			ipClasses = append(ipClasses, "v6/"+c)
		}
	}
	gens["ip"] = &gen{
		valid: func(r *vc.Rand) (string, string) {
			if r.Bool() {
				o, class := genOctets(r)
				return "v4/" + class, quad(o)
			}
			a, class := genV6(r)
			return "v6/" + class, a.render(r)
		},
		classes: ipClasses,
		invalid: func(r *vc.Rand, class string) (string, string) {
			if strings.HasPrefix(class, "v4/") {
				return corruptV4(r, class[3:])
			}
			return corruptV6(r, class[3:])
		},
		ref: func(s string) int {
			a, b := refV4(s), refV6(s)
			if a == 1 || b == 1 {
				return 1
			}
			if a == -1 {
				return -1
			}
			return 0
		},
	}
}

// ---------------------------------------------------------------- cidr

func refCIDR(s string) int {
	i := strings.IndexByte(s, '/')
	if i < 0 {
		return 0
	}
	addr, pl := s[:i], s[i+1:]
	if pl == "" || len(pl) > 3 {
		return 0
	}
	for j := 0; j < len(pl); j++ {
		if pl[j] < '0' || pl[j] > '9' {
			return 0
		}
	}
	n := atoi(pl)
	a4, a6 := refV4(addr), refV6(addr)
	switch {
	case a4 == 1:
		if n > 32 {
			return 0
		}
	case a6 == 1:
		if n > 128 {
			return 0
		}
	case a4 == -1:
		return -1
	default:
		return 0
	}
	if len(pl) > 1 && pl[0] == '0' {
		return -1 // leading zeros in the length: not judged
	}
	return 1
}

func maskOctets(o [4]int, n int) [4]int {
	v := uint32(o[0])<<24 | uint32(o[1])<<16 | uint32(o[2])<<8 | uint32(o[3])
	if n == 0 {
		v = 0
	} else {
		v &= ^uint32(0) << (32 - n)
	}
	return [4]int{int(v >> 24), int(v >> 16 & 0xff), int(v >> 8 & 0xff), int(v & 0xff)}
}

func genCIDR(r *vc.Rand) (string, string) {
	if r.Bool() {
		o, _ := genOctets(r)
		n := r.Range(0, 32)
		switch r.Intn(5) {
		case 0:
			n = 0
		case 1:
			n = 32
		}
		if r.Chance(2, 3) {
			return fmt.Sprintf("v4,network,len=%s", lenClass(n, 32)), quad(maskOctets(o, n)) + "/" + strconv.Itoa(n)
		}
		return fmt.Sprintf("v4,host-bits,len=%s", lenClass(n, 32)), quad(o) + "/" + strconv.Itoa(n)
	}
	a, _ := genV6(r)
	n := r.Range(0, 128)
	switch r.Intn(5) {
	case 0:
		n = 0
	case 1:
		n = 128
	}
	if a.style == 0 && !a.v4 && r.Chance(2, 3) {
		// network form: zero the host bits and compress the tail when it is whole groups
		for i := 0; i < 8; i++ {
			lo := i * 16
			switch {
			case lo >= n:
				a.g[i] = 0
			case lo+16 > n:
				a.g[i] &= ^uint16(0) << (16 - (n - lo))
			}
		}
		first := (n + 15) / 16
		if first <= 7 {
			a.style, a.from, a.to = 1, first, 8
		}
		return fmt.Sprintf("v6,network,len=%s", lenClass(n, 128)), a.render(r) + "/" + strconv.Itoa(n)
	}
	return fmt.Sprintf("v6,address,len=%s", lenClass(n, 128)), a.render(r) + "/" + strconv.Itoa(n)
}

func lenClass(n, max int) string {
	switch n {
	case 0:
		return "0"
	case max:
		return "max"
	}
	return "mid"
}

func init() {
	gens["cidr"] = &gen{
		valid: func(r *vc.Rand) (string, string) { return genCIDR(r) },
		classes: []string{"v4-length-33", "v6-length-129", "length-999", "missing-slash", "empty-length", "negative-length",
			"non-digit-length", "double-slash", "v4-octet-256", "v6-triple-colon", "netmask-form", "plus-sign-length",
			"space-before-length", "space-after-address", "length-only", "hex-length", "empty"},
		invalid: func(r *vc.Rand, class string) (string, string) {
			o, _ := genOctets(r)
			v4 := quad(o)
			a, _ := genV6(r)
			v6s := a.render(r)
			addr, max := v4, 32
			if r.Bool() {
				addr, max = v6s, 128
			}
			n := strconv.Itoa(r.Range(0, max))
			switch class {
			case "v4-length-33":
				return v4 + "/" + strconv.Itoa(r.Range(33, 128)), "IPv4 prefix length > 32"
			case "v6-length-129":
				return v6s + "/" + strconv.Itoa(r.Range(129, 255)), "IPv6 prefix length > 128"
			case "length-999":
				return addr + "/" + strconv.Itoa(r.Range(256, 99999)), "prefix length far out of range"
			case "missing-slash":
				return addr, "no '/length'"
			case "empty-length":
				return addr + "/", "'/' without length"
			case "negative-length":
				return addr + "/-" + strconv.Itoa(r.Range(1, 32)), "negative length"
			case "non-digit-length":
				return addr + "/" + r.Pick("x", "2x", "x2", "1 ", "٣"), "length is not a decimal number"
			case "double-slash":
				return addr + "/" + n + "/" + strconv.Itoa(r.Range(0, 32)), "two '/'"
			case "v4-octet-256":
				v, _ := corruptV4(r, "octet-256")
				return v + "/" + strconv.Itoa(r.Range(0, 32)), "address octet > 255"
			case "v6-triple-colon":
				v, _ := corruptV6(r, "triple-colon")
				return v + "/" + strconv.Itoa(r.Range(0, 128)), "address has ':::'"
			case "netmask-form":
				return v4 + "/" + r.Pick("255.0.0.0", "255.255.255.0", "255.255.0.0"), "dotted netmask instead of a length"
			case "plus-sign-length":
				return addr + "/+" + n, "signed length"
			case "space-before-length":
				return addr + "/ " + n, "space after '/'"
			case "space-after-address":
				return addr + " /" + n, "space before '/'"
			case "length-only":
				return "/" + n, "no address"
			case "hex-length":
				return addr + "/0x" + strconv.FormatInt(int64(r.Range(1, 32)), 16), "hexadecimal length"
			case "empty":
				return "", "empty string"
			}
			panic("cidr class " + class)
		},
		ref: refCIDR,
	}
}

// ---------------------------------------------------------------- mac

var reMAC = regexp.MustCompile(`^(?:[0-9A-Fa-f]{2}(?::[0-9A-Fa-f]{2}){5}|[0-9A-Fa-f]{2}(?::[0-9A-Fa-f]{2}){7}|[0-9A-Fa-f]{2}(?:-[0-9A-Fa-f]{2}){5}|[0-9A-Fa-f]{2}(?:-[0-9A-Fa-f]{2}){7}|[0-9A-Fa-f]{4}(?:\.[0-9A-Fa-f]{4}){2}|[0-9A-Fa-f]{4}(?:\.[0-9A-Fa-f]{4}){3})$`)

func macGroups(r *vc.Rand, n, w int) []string {
	style := r.Intn(3)
	gs := make([]string, n)
	for i := range gs {
		gs[i] = hexs(r, w, style)
	}
	return gs
}

func init() {
	gens["mac"] = &gen{
		valid: func(r *vc.Rand) (string, string) {
			switch r.Intn(6) {
			case 0:
				return "mac48-colon", strings.Join(macGroups(r, 6, 2), ":")
			case 1:
				return "mac48-hyphen", strings.Join(macGroups(r, 6, 2), "-")
			case 2:
				return "mac48-dot", strings.Join(macGroups(r, 3, 4), ".")
			case 3:
				return "eui64-colon", strings.Join(macGroups(r, 8, 2), ":")
			case 4:
				return "eui64-hyphen", strings.Join(macGroups(r, 8, 2), "-")
			}
			return "eui64-dot", strings.Join(macGroups(r, 4, 4), ".")
		},
		classes: []string{"five-octets", "seven-octets", "nine-octets", "non-hex", "mixed-separators", "one-digit-group",
			"three-digit-group", "trailing-separator", "leading-separator", "double-separator", "dot-form-two-groups",
			"dot-form-five-groups", "dot-form-group-three-hex", "leading-space", "trailing-space", "underscore-separator", "empty"},
		invalid: func(r *vc.Rand, class string) (string, string) {
			sep := r.Pick(":", "-")
			n := []int{6, 8}[r.Intn(2)]
			gs := macGroups(r, n, 2)
			k := r.Intn(n)
			switch class {
			case "five-octets":
				return strings.Join(macGroups(r, 5, 2), sep), "five octets"
			case "seven-octets":
				return strings.Join(macGroups(r, 7, 2), sep), "seven octets"
			case "nine-octets":
				return strings.Join(macGroups(r, 9, 2), sep), "nine octets"
			case "non-hex":
				gs[k] = replaceAt(gs[k], r.Intn(2), string(pickc(r, "ghxzGZ")))
				return strings.Join(gs, sep), "non-hex character"
			case "mixed-separators":
				s := strings.Join(gs, ":")
				ps := positions(s, ":")
				return replaceAt(s, ps[r.Intn(len(ps))], "-"), "':' and '-' mixed"
			case "one-digit-group":
				gs[k] = gs[k][:1]
				return strings.Join(gs, sep), "a group with one hex digit"
			case "three-digit-group":
				gs[k] += string(pickc(r, hexLo))
				return strings.Join(gs, sep), "a group with three hex digits"
			case "trailing-separator":
				return strings.Join(gs, sep) + sep, "trailing separator"
			case "leading-separator":
				return sep + strings.Join(gs, sep), "leading separator"
			case "double-separator":
				s := strings.Join(gs, sep)
				ps := positions(s, sep)
				return insertAt(s, ps[r.Intn(len(ps))], sep), "doubled separator"
			case "dot-form-two-groups":
				return strings.Join(macGroups(r, 2, 4), "."), "two 16-bit groups (4 octets)"
			case "dot-form-five-groups":
				return strings.Join(macGroups(r, 5, 4), "."), "five 16-bit groups (10 octets)"
			case "dot-form-group-three-hex":
				g := macGroups(r, 3, 4)
				g[r.Intn(3)] = hexs(r, 3, 0)
				return strings.Join(g, "."), "a dotted group with three hex digits"
			case "leading-space":
				return " " + strings.Join(gs, sep), "leading space"
			case "trailing-space":
				return strings.Join(gs, sep) + r.Pick(" ", "\n"), "trailing white space"
			case "underscore-separator":
				return strings.Join(gs, "_"), "'_' as separator"
			case "empty":
				return "", "empty string"
			}
			panic("mac class " + class)
		},
		ref: func(s string) int {
			if reMAC.MatchString(s) {
				return 1
			}
			return 0
		},
	}
}

// ---------------------------------------------------------------- hostname (RFC 1035 §2.3.1)

const ldh = lower + upper + digits + "-"
const alnum = lower + upper + digits

// genLabel returns <letter>[<ldh>*<alnum>] of exactly n characters.
func genLabel(r *vc.Rand, n int) string {
	if n <= 1 {
		return string(pickc(r, lower+upper))
	}
	b := make([]byte, n)
	b[0] = pickc(r, lower+upper)
	for i := 1; i < n-1; i++ {
		if r.Chance(1, 8) {
			b[i] = '-'
		} else {
			b[i] = pickc(r, lower+digits+upper[:6])
		}
	}
	b[n-1] = pickc(r, lower+digits)
	return string(b)
}

func genLabels(r *vc.Rand) []string {
	n := r.Range(1, 5)
	ls := make([]string, n)
	for i := range ls {
		switch r.Intn(8) {
		case 0, 1:
			ls[i] = genLabel(r, 1)
		case 2:
			ls[i] = genLabel(r, 2)
		case 3:
			if n <= 3 {
				ls[i] = genLabel(r, 63)
				break
			}
			fallthrough
		default:
			ls[i] = genLabel(r, r.Range(2, 12))
		}
	}
	return ls
}

func refHostname(s string) int {
	if len(s) == 0 || len(s) > 253 {
		return 0
	}
	for _, l := range strings.Split(s, ".") {
		if len(l) < 1 || len(l) > 63 {
			return 0
		}
		if strings.IndexByte(lower+upper, l[0]) < 0 || strings.IndexByte(alnum, l[len(l)-1]) < 0 {
			return 0
		}
		for i := 0; i < len(l); i++ {
			if strings.IndexByte(ldh, l[i]) < 0 {
				return 0
			}
		}
	}
	return 1
}

func hostClass(ls []string) string {
	c := "one-label"
	if len(ls) > 1 {
		c = "multi-label"
	}
	if len(ls[0]) == 1 {
		c += ",first-label-1-char"
	} else {
		c += ",first-label-n-chars"
	}
	last := ls[len(ls)-1]
	if ch := last[len(last)-1]; ch >= '0' && ch <= '9' {
		c += ",ends-in-digit"
	} else {
		c += ",ends-in-letter"
	}
	return c
}

func init() {
	illegal := "_!@#$%^&*()+=,/\\~'\":; "
	gens["hostname"] = &gen{
		valid: func(r *vc.Rand) (string, string) {
			ls := genLabels(r)
			return hostClass(ls), strings.Join(ls, ".")
		},
		classes: []string{"leading-hyphen", "inner-label-leading-hyphen", "trailing-hyphen", "inner-label-trailing-hyphen",
			"illegal-char-at-start", "illegal-char-inside", "illegal-char-at-end", "empty-label", "leading-dot", "label-64-chars",
			"total-over-253", "non-ascii-letter", "leading-space", "trailing-space", "trailing-newline", "only-illegal-chars", "empty"},
		invalid: func(r *vc.Rand, class string) (string, string) {
			ls := genLabels(r)
			if len(ls) < 2 {
				ls = append(ls, genLabel(r, r.Range(2, 6)))
			}
			for i := range ls { // leave room for one more character per label
				if len(ls[i]) > 60 {
					ls[i] = ls[i][:30] + "a"
				}
			}
			n := len(ls)
			switch class {
			case "leading-hyphen":
				ls[0] = "-" + ls[0]
				return strings.Join(ls, "."), "first label starts with '-'"
			case "inner-label-leading-hyphen":
				k := r.Range(1, n-1)
				ls[k] = "-" + ls[k]
				return strings.Join(ls, "."), "a label starts with '-'"
			case "trailing-hyphen":
				ls[n-1] += "-"
				return strings.Join(ls, "."), "last label ends with '-'"
			case "inner-label-trailing-hyphen":
				k := r.Range(0, n-2)
				ls[k] += "-"
				return strings.Join(ls, "."), "a label ends with '-'"
			case "illegal-char-at-start":
				c := string(pickc(r, illegal))
				return c + strings.Join(ls, "."), "starts with " + strconv.Quote(c)
			case "illegal-char-inside":
				c := string(pickc(r, illegal))
				k := r.Intn(n)
				for len(ls[k]) < 2 {
					ls[k] += "a"
				}
				ls[k] = insertAt(ls[k], r.Range(1, len(ls[k])-1), c)
				return strings.Join(ls, "."), "contains " + strconv.Quote(c)
			case "illegal-char-at-end":
				c := string(pickc(r, illegal))
				return strings.Join(ls, ".") + c, "ends with " + strconv.Quote(c)
			case "empty-label":
				k := r.Range(1, n-1)
				return strings.Join(ls[:k], ".") + ".." + strings.Join(ls[k:], "."), "empty label ('..')"
			case "leading-dot":
				return "." + strings.Join(ls, "."), "leading '.'"
			case "label-64-chars":
				ls[r.Intn(n)] = genLabel(r, r.Range(64, 90))
				return strings.Join(ls, "."), "a label longer than 63 octets"
			case "total-over-253":
				var all []string
				tot := 0
				for tot < 260 {
					l := genLabel(r, r.Range(20, 60))
					all = append(all, l)
					tot += len(l) + 1
				}
				return strings.Join(all, "."), "name longer than 255 octets"
			case "non-ascii-letter":
				k := r.Intn(n)
				c := r.Pick("é", "ü", "日", "ß", "и")
				ls[k] = insertAt(ls[k], r.Range(0, len(ls[k])), c)
				return strings.Join(ls, "."), "contains non-ASCII " + c
			case "leading-space":
				return " " + strings.Join(ls, "."), "leading space"
			case "trailing-space":
				return strings.Join(ls, ".") + " ", "trailing space"
			case "trailing-newline":
				return strings.Join(ls, ".") + "\n", "trailing newline"
			case "only-illegal-chars":
				return rstr(r, "_!@#$%^&*()+=", r.Range(1, 6)), "no letter, digit or hyphen at all"
			case "empty":
				return "", "empty string"
			}
			panic("hostname class " + class)
		},
		ref: refHostname,
	}
}

// ---------------------------------------------------------------- email (RFC 5322 addr-spec, no CFWS, no obs-)

const atext = lower + upper + digits + "!#$%&'*+-/=?^_`{|}~"

var reEmail = regexp.MustCompile("^(?:[A-Za-z0-9!#$%&'*+/=?^_`{|}~-]+(?:\\.[A-Za-z0-9!#$%&'*+/=?^_`{|}~-]+)*|\"(?:[\\x21\\x23-\\x5b\\x5d-\\x7e ]|\\\\[\\x21-\\x7e ])*\")@(?:[A-Za-z0-9!#$%&'*+/=?^_`{|}~-]+(?:\\.[A-Za-z0-9!#$%&'*+/=?^_`{|}~-]+)*|\\[[\\x21-\\x5a\\x5e-\\x7e]*\\])$")

func genDomain(r *vc.Rand) string {
	ls := genLabels(r)
	for i := range ls {
		if len(ls[i]) > 20 {
			ls[i] = ls[i][:20] + "x"
		}
	}
	if len(ls) == 1 || r.Chance(3, 4) {
		ls = append(ls, r.Pick("com", "org", "design", "io", "example", "co.uk"))
	}
	return strings.Join(ls, ".")
}

func genLocalAtoms(r *vc.Rand, special bool) []string {
	n := r.Range(1, 3)
	as := make([]string, n)
	for i := range as {
		if special {
			as[i] = rstr(r, atext, r.Range(1, 8))
		} else {
			as[i] = rstr(r, lower+digits, r.Range(1, 10))
		}
	}
	return as
}

func init() {
	gens["email"] = &gen{
		valid: func(r *vc.Rand) (string, string) {
			switch r.Intn(6) {
			case 0:
				return "atext-specials", strings.Join(genLocalAtoms(r, true), ".") + "@" + genDomain(r)
			case 1:
				q := rstr(r, lower+digits+" .@,:;<>()[]", r.Range(1, 10))
				return "quoted-local", `"` + q + `"@` + genDomain(r)
			case 2:
				o, _ := genOctets(r)
				return "domain-literal", strings.Join(genLocalAtoms(r, false), ".") + "@[" + quad(o) + "]"
			case 3:
				return "single-label-domain", strings.Join(genLocalAtoms(r, false), ".") + "@" + genLabel(r, r.Range(1, 9))
			}
			as := genLocalAtoms(r, false)
			c := "simple"
			if len(as) > 1 {
				c = "dotted-local"
			}
			return c, strings.Join(as, ".") + "@" + genDomain(r)
		},
		classes: []string{"missing-at", "double-at", "empty-local", "empty-domain", "leading-dot-local", "trailing-dot-local",
			"double-dot-local", "double-dot-domain", "trailing-dot-domain", "leading-dot-domain", "space-in-local", "space-in-domain",
			"special-char-in-local", "unclosed-quote", "control-char", "unclosed-domain-literal", "empty"},
		invalid: func(r *vc.Rand, class string) (string, string) {
			as := genLocalAtoms(r, false)
			if len(as) < 2 {
				as = append(as, rstr(r, lower, r.Range(1, 5)))
			}
			local := strings.Join(as, ".")
			dom := genDomain(r)
			switch class {
			case "missing-at":
				return local + r.Pick("", ".", "-") + dom, "no '@'"
			case "double-at":
				if r.Bool() {
					return local + "@@" + dom, "'@@'"
				}
				return local + "@" + dom + "@" + genDomain(r), "two '@'"
			case "empty-local":
				return "@" + dom, "nothing before '@'"
			case "empty-domain":
				return local + "@", "nothing after '@'"
			case "leading-dot-local":
				return "." + local + "@" + dom, "local part starts with '.'"
			case "trailing-dot-local":
				return local + ".@" + dom, "local part ends with '.'"
			case "double-dot-local":
				return as[0] + ".." + as[1] + "@" + dom, "'..' in the local part"
			case "double-dot-domain":
				return local + "@" + strings.Replace(dom, ".", "..", 1), "'..' in the domain"
			case "trailing-dot-domain":
				return local + "@" + dom + ".", "domain ends with '.' (dot-atom cannot)"
			case "leading-dot-domain":
				return local + "@." + dom, "domain starts with '.'"
			case "space-in-local":
				return as[0] + " " + as[1] + "@" + dom, "unquoted space in the local part"
			case "space-in-domain":
				return local + "@" + strings.Replace(dom, ".", " .", 1), "space inside the domain"
			case "special-char-in-local":
				c := r.Pick(",", ";", ":", "<", ">", "[", "]", "\\", "(", ")")
				return as[0] + c + as[1] + "@" + dom, "unquoted special " + c + " in the local part"
			case "unclosed-quote":
				return `"` + local + "@" + dom, "quoted-string never closed"
			case "control-char":
				return as[0] + r.Pick("\x01", "\x7f", "\x00", "\x1f") + as[1] + "@" + dom, "control character in the local part"
			case "unclosed-domain-literal":
				o, _ := genOctets(r)
				return local + "@[" + quad(o), "'[' never closed"
			case "empty":
				return "", "empty string"
			}
			panic("email class " + class)
		},
		ref: func(s string) int {
			if reEmail.MatchString(s) {
				return 1
			}
			return 0
		},
	}
}

// ---------------------------------------------------------------- uri (RFC 3986 §3, "URI" production: scheme required)

const (
	// unreserved and sub-delims of RFC 3986 ('-' last so that it is literal inside a class)
	ucls = `A-Za-z0-9._~!$&'()*+,;=\-`
	pct  = `%[0-9A-Fa-f]{2}`
)

var reURI = regexp.MustCompile(`^[A-Za-z][A-Za-z0-9+.\-]*:` +
	`(?://(?:(?:[:` + ucls + `]|` + pct + `)*@)?(\[[^\]]*\]|(?:[` + ucls + `]|` + pct + `)*)(?::[0-9]*)?(?:/(?:[:@` + ucls + `]|` + pct + `)*)*` +
	`|/(?:(?:[:@` + ucls + `]|` + pct + `)+(?:/(?:[:@` + ucls + `]|` + pct + `)*)*)?` +
	`|(?:[:@` + ucls + `]|` + pct + `)+(?:/(?:[:@` + ucls + `]|` + pct + `)*)*` +
	`|)` +
	`(?:\?(?:[:@/?` + ucls + `]|` + pct + `)*)?(?:#(?:[:@/?` + ucls + `]|` + pct + `)*)?$`)

func refURI(s string) int {
	m := reURI.FindStringSubmatch(s)
	if m == nil {
		return 0
	}
	if h := m[1]; strings.HasPrefix(h, "[") {
		if refV6(h[1:len(h)-1]) != 1 {
			return -1 // IPvFuture or malformed literal: not judged here
		}
	}
	return 1
}

const pchars = lower + upper + digits + "-._~" + "!$&'()*+,;=" + ":@"

func genPct(r *vc.Rand) string { return "%" + hexs(r, 2, r.Intn(3)) }

func genSeg(r *vc.Rand, rich bool) string {
	n := r.Range(1, 8)
	var b strings.Builder
	for i := 0; i < n; i++ {
		switch {
		case rich && r.Chance(1, 6):
			p := genPct(r)
			if p == "%00" || strings.EqualFold(p, "%2f") {
				p = "%41"
			}
			b.WriteString(p)
		case rich && r.Chance(1, 4):
			b.WriteByte(pickc(r, pchars))
		default:
			b.WriteByte(pickc(r, lower+digits))
		}
	}
	s := b.String()
	if s == "." || s == ".." {
		s = "a"
	}
	return s
}

func genPath(r *vc.Rand, rich bool) string {
	n := r.Range(0, 3)
	var b strings.Builder
	for i := 0; i < n; i++ {
		b.WriteString("/" + genSeg(r, rich))
	}
	if n > 0 && r.Chance(1, 5) {
		b.WriteString("/")
	}
	return b.String()
}

func genQuery(r *vc.Rand, rich bool) string {
	n := r.Range(1, 3)
	ps := make([]string, n)
	for i := range ps {
		ps[i] = genSeg(r, false) + "=" + strings.ReplaceAll(strings.ReplaceAll(genSeg(r, rich), "&", "%26"), "+", "-")
	}
	return strings.Join(ps, "&")
}

func genScheme(r *vc.Rand) string {
	if r.Chance(2, 3) {
		return r.Pick("http", "https", "ftp", "ws", "hhp", "HTTP", "git+ssh", "coap", "x-app.v2")
	}
	return string(pickc(r, lower+upper)) + rstr(r, lower+digits+"+-.", r.Range(0, 6))
}

func genURI(r *vc.Rand) (string, string) {
	switch r.Intn(10) {
	case 0:
		return "mailto", "mailto:" + rstr(r, lower, r.Range(1, 8)) + "@" + genDomain(r)
	case 1:
		return "urn", "urn:" + r.Pick("isbn", "ietf", "uuid", "example") + ":" + rstr(r, lower+digits+"-", r.Range(1, 12))
	case 2:
		return "tel-or-opaque", r.Pick("tel:+1-816-555-1212", "news:comp.infosystems.www.servers.unix", "data:text/plain;base64,SGVsbG8=", "about:blank", "file:///etc/hosts")
	}
	sch := genScheme(r)
	host := genDomain(r)
	class := "authority"
	switch r.Intn(6) {
	case 0:
		o, _ := genOctets(r)
		host = quad(o)
	case 1:
		a, _ := genV6(r)
		host = "[" + a.render(r) + "]"
	}
	auth := host
	if r.Chance(1, 4) {
		auth = rstr(r, lower+digits+"-._~", r.Range(1, 8))
		if r.Bool() {
			auth += ":" + rstr(r, lower+digits+"!$&'()*+,;=", r.Range(0, 8))
		}
		auth += "@" + host
	}
	if r.Chance(1, 3) {
		auth += ":" + strconv.Itoa(r.Range(1, 65535))
	}
	rich := r.Chance(1, 2)
	path := genPath(r, rich)
	if path == "" {
		class += ",empty-path"
	} else if rich {
		class += ",rich-path"
	} else {
		class += ",path"
	}
	u := sch + "://" + auth + path
	if r.Chance(1, 3) {
		u += "?" + genQuery(r, rich)
		class += ",query"
	}
	if r.Chance(1, 4) {
		u += "#" + genSeg(r, rich)
		class += ",fragment"
	}
	return class, u
}

func init() {
	badPath := "<>\"{}|\\^`"
	gens["uri"] = &gen{
		valid: genURI,
		classes: []string{"no-scheme-absolute-path", "no-scheme-network-path", "no-scheme-rootless", "scheme-starts-with-digit",
			"scheme-illegal-char", "empty-scheme", "space-in-host", "space-in-path", "illegal-char-in-path", "bad-pct-in-path",
			"truncated-pct-in-path", "bad-pct-in-query", "illegal-char-in-query", "non-numeric-port", "unclosed-ipv6-bracket",
			"control-char-in-path", "illegal-char-in-fragment", "bare-asterisk", "leading-space", "empty"},
		invalid: func(r *vc.Rand, class string) (string, string) {
			sch := r.Pick("http", "https", "ftp", "hhp")
			host := genDomain(r)
			seg1, seg2 := genSeg(r, false), genSeg(r, false)
			path := "/" + seg1 + "/" + seg2
			q := genQuery(r, false)
			switch class {
			case "no-scheme-absolute-path":
				return path, "a relative reference (absolute path) has no scheme"
			case "no-scheme-network-path":
				return "//" + host + path, "a network-path reference has no scheme"
			case "no-scheme-rootless":
				return host + path, "no scheme"
			case "scheme-starts-with-digit":
				return strconv.Itoa(r.Range(0, 9)) + sch + "://" + host + path, "scheme must start with ALPHA"
			case "scheme-illegal-char":
				return insertAt(sch, r.Range(1, len(sch)-1), r.Pick("^", "_", "!", " ", "~")) + "://" + host + path, "illegal character in scheme"
			case "empty-scheme":
				return "://" + host + path, "empty scheme"
			case "space-in-host":
				return sch + "://" + insertAt(host, r.Range(1, len(host)-1), " ") + path, "space in host"
			case "space-in-path":
				return sch + "://" + host + "/" + seg1 + " " + seg2, "unencoded space in path"
			case "illegal-char-in-path":
				c := string(pickc(r, badPath))
				return sch + "://" + host + "/" + seg1 + c + seg2, "character " + strconv.Quote(c) + " is not allowed anywhere in a URI"
			case "bad-pct-in-path":
				return sch + "://" + host + "/" + seg1 + "%" + r.Pick("zz", "g1", "1g", "--", "%%") + seg2, "'%' not followed by two hex digits"
			case "truncated-pct-in-path":
				return sch + "://" + host + "/" + seg1 + r.Pick("%", "%4"), "truncated percent-escape at the end"
			case "bad-pct-in-query":
				return sch + "://" + host + path + "?k=" + r.Pick("%zz", "%", "%4", "%g0"), "'%' in query not followed by two hex digits"
			case "illegal-char-in-query":
				c := string(pickc(r, badPath+" "))
				return sch + "://" + host + path + "?k=a" + c + "b", "character " + strconv.Quote(c) + " in query"
			case "non-numeric-port":
				return sch + "://" + host + ":" + r.Pick("port", "80a", "a80", "-1", "8 0") + path, "port is not *DIGIT"
			case "unclosed-ipv6-bracket":
				a, _ := genV6(r)
				return sch + "://[" + a.render(r) + path, "'[' never closed"
			case "control-char-in-path":
				return sch + "://" + host + "/" + seg1 + r.Pick("\x7f", "\x01", "\x00", "\n", "\t") + seg2 + "?" + q, "control character"
			case "illegal-char-in-fragment":
				c := string(pickc(r, badPath+" "))
				return sch + "://" + host + path + "#a" + c + "b", "character " + strconv.Quote(c) + " in fragment"
			case "bare-asterisk":
				return "*", "'*' is not a URI"
			case "leading-space":
				return " " + sch + "://" + host + path, "leading space"
			case "empty":
				return "", "empty string"
			}
			panic("uri class " + class)
		},
		ref: refURI,
	}
}
