package main

import (
	"regexp"
	"strconv"
	"strings"

	"verif.local/lab/vc"
)

// ---------------------------------------------------------------- date parts

type ymd struct{ y, m, d int }

var leapYears = []int{2000, 2400, 1996, 2024, 1600, 2096, 9996, 0, 1204}
var nonLeapYears = []int{1900, 2100, 2023, 2001, 1800, 2200, 9999, 1, 2026}

// genYMD returns an existing calendar day and a structural class.
func genYMD(r *vc.Rand, minYear int) (ymd, string) {
	switch r.Intn(7) {
	case 0:
		y := leapYears[r.Intn(len(leapYears))]
		if y < minYear {
			y = 2000
		}
		return ymd{y, 2, 29}, "leap-day"
	case 1:
		y := r.Range(1900, 2100)
		m := r.Range(1, 12)
		return ymd{y, m, dim(y, m)}, "month-end"
	case 2:
		y := []int{0, 1, 99, 999, 9999, 9998, 1000}[r.Intn(7)]
		if y < minYear {
			y = 9999
		}
		m := r.Range(1, 12)
		return ymd{y, m, r.Range(1, dim(y, m))}, "year-extreme"
	case 3:
		y := r.Range(1900, 2100)
		return ymd{y, []int{1, 12}[r.Intn(2)], []int{1, 31}[r.Intn(2)]}, "year-boundary"
	}
	y := r.Range(1900, 2100)
	m := r.Range(1, 12)
	return ymd{y, m, r.Range(1, dim(y, m))}, "common"
}

func (d ymd) strs() (string, string, string) { return pad(d.y, 4), pad(d.m, 2), pad(d.d, 2) }

func letterFor(r *vc.Rand) string { return string(pickc(r, lower+upper)) }

// corruptDate applies the date-level corruption classes shared by date and
// date-time. ok=false when class is not a date-level class.
func corruptDate(r *vc.Rand, class string) (string, string, bool) {
	d, _ := genYMD(r, 0)
	if d.d > 28 {
		d.d = r.Range(1, 28)
	}
	Y, M, D := d.strs()
	switch class {
	case "month-13":
		M = pad(r.Range(13, 99), 2)
		return Y + "-" + M + "-" + D, "month " + M + " > 12", true
	case "month-00":
		return Y + "-00-" + D, "month 00", true
	case "day-00":
		return Y + "-" + M + "-00", "day 00", true
	case "day-32":
		D = pad(r.Range(32, 99), 2)
		return Y + "-" + M + "-" + D, "day " + D + " > 31", true
	case "day-31-in-30-day-month":
		M = pad([]int{4, 6, 9, 11}[r.Intn(4)], 2)
		return Y + "-" + M + "-31", "month " + M + " has 30 days", true
	case "feb-29-non-leap":
		y := nonLeapYears[r.Intn(len(nonLeapYears))]
		return pad(y, 4) + "-02-29", "year " + pad(y, 4) + " is not a leap year", true
	case "feb-30":
		return Y + "-02-" + pad(r.Range(30, 31), 2), "February never has 30 days", true
	case "missing-dash":
		if r.Bool() {
			return Y + M + "-" + D, "first '-' removed", true
		}
		return Y + "-" + M + D, "second '-' removed", true
	case "month-one-digit":
		m := r.Range(1, 9)
		return Y + "-" + strconv.Itoa(m) + "-" + D, "month must be 2DIGIT", true
	case "day-one-digit":
		dd := r.Range(1, 9)
		return Y + "-" + M + "-" + strconv.Itoa(dd), "day must be 2DIGIT", true
	case "year-two-digit":
		return Y[2:] + "-" + M + "-" + D, "year must be 4DIGIT", true
	case "year-five-digit":
		return strconv.Itoa(r.Range(1, 9)) + Y + "-" + M + "-" + D, "year must be 4DIGIT", true
	case "non-digit":
		s := Y + "-" + M + "-" + D
		ps := positions(s, digits)
		return replaceAt(s, ps[r.Intn(len(ps))], letterFor(r)), "a digit replaced by a letter", true
	case "slash-separator":
		if r.Bool() {
			return Y + "/" + M + "-" + D, "'/' instead of '-'", true
		}
		return Y + "-" + M + "/" + D, "'/' instead of '-'", true
	}
	return "", "", false
}

var dateLevel = []string{"month-13", "month-00", "day-00", "day-32", "day-31-in-30-day-month", "feb-29-non-leap", "feb-30",
	"missing-dash", "month-one-digit", "day-one-digit", "year-two-digit", "year-five-digit", "non-digit", "slash-separator"}

// ---------------------------------------------------------------- date

var reDate = regexp.MustCompile(`^(\d{4})-(\d{2})-(\d{2})$`)

func atoi(s string) int { n, _ := strconv.Atoi(s); return n }

func refDate(s string) int {
	m := reDate.FindStringSubmatch(s)
	if m == nil {
		return 0
	}
	y, mo, d := atoi(m[1]), atoi(m[2]), atoi(m[3])
	if mo < 1 || mo > 12 || d < 1 || d > dim(y, mo) {
		return 0
	}
	return 1
}

func init() {
	gens["date"] = &gen{
		valid: func(r *vc.Rand) (string, string) {
			d, class := genYMD(r, 0)
			Y, M, D := d.strs()
			return class, Y + "-" + M + "-" + D
		},
		classes: append(append([]string{}, dateLevel...), "trailing-time", "compact-no-dashes", "leading-space", "trailing-space", "empty"),
		invalid: func(r *vc.Rand, class string) (string, string) {
			if v, why, ok := corruptDate(r, class); ok {
				return v, why
			}
			d, _ := genYMD(r, 0)
			Y, M, D := d.strs()
			s := Y + "-" + M + "-" + D
			switch class {
			case "trailing-time":
				return s + "T00:00:00Z", "full-date followed by a time"
			case "compact-no-dashes":
				return Y + M + D, "both dashes removed"
			case "leading-space":
				return " " + s, "leading space"
			case "trailing-space":
				return s + " ", "trailing space"
			case "empty":
				return "", "empty string"
			}
			panic("date class " + class)
		},
		ref: refDate,
	}
}

// ---------------------------------------------------------------- date-time

var reDateTime = regexp.MustCompile(`^(\d{4})-(\d{2})-(\d{2})T(\d{2}):(\d{2}):(\d{2})(\.\d+)?(Z|[+-](\d{2}):(\d{2}))$`)

func refDateTime(s string) int {
	m := reDateTime.FindStringSubmatch(s)
	if m == nil {
		return 0
	}
	y, mo, d := atoi(m[1]), atoi(m[2]), atoi(m[3])
	if mo < 1 || mo > 12 || d < 1 || d > dim(y, mo) {
		return 0
	}
	h, mi, sec := atoi(m[4]), atoi(m[5]), atoi(m[6])
	if h > 23 || mi > 59 || sec > 60 {
		return 0
	}
	if sec == 60 {
		return -1 // leap second: validity depends on the date; never generated
	}
	if m[8] != "Z" && (atoi(m[9]) > 23 || atoi(m[10]) > 59) {
		return 0
	}
	return 1
}

type dtParts struct {
	date, h, mi, s, frac, zone string
}

func (p dtParts) String() string {
	return p.date + "T" + p.h + ":" + p.mi + ":" + p.s + p.frac + p.zone
}

func genDT(r *vc.Rand) (dtParts, string) {
	d, dclass := genYMD(r, 0)
	Y, M, D := d.strs()
	p := dtParts{date: Y + "-" + M + "-" + D, h: pad(r.Range(0, 23), 2), mi: pad(r.Range(0, 59), 2), s: pad(r.Range(0, 59), 2)}
	class := "date"
	if dclass == "leap-day" {
		class = "leap-day"
	}
	switch r.Intn(5) {
	case 0:
		p.h, p.mi, p.s = "00", "00", "00"
	case 1:
		p.h, p.mi, p.s = "23", "59", "59"
	}
	if r.Chance(2, 5) {
		n := []int{1, 2, 3, 6, 9, 12}[r.Intn(6)]
		p.frac = "." + rstr(r, digits, n)
		class += ",fraction"
	}
	switch r.Intn(4) {
	case 0, 1:
		p.zone = "Z"
		class += ",Z"
	case 2:
		p.zone = "+" + pad(r.Range(0, 23), 2) + ":" + pad(r.Range(0, 59), 2)
		class += ",+offset"
	default:
		p.zone = "-" + pad(r.Range(0, 23), 2) + ":" + pad(r.Range(0, 59), 2)
		class += ",-offset"
	}
	return p, class
}

func init() {
	gens["date-time"] = &gen{
		valid: func(r *vc.Rand) (string, string) {
			p, class := genDT(r)
			return class, p.String()
		},
		classes: append(append([]string{}, dateLevel...),
			"hour-24", "minute-60", "second-61", "missing-T", "missing-zone", "missing-seconds", "offset-without-colon",
			"offset-hour-only", "offset-hour-24", "offset-hour-25", "offset-minute-60", "offset-minute-61", "fraction-empty",
			"fraction-comma", "hour-one-digit", "minute-one-digit", "second-one-digit", "date-only", "trailing-garbage",
			"double-zone", "time-dot-separator", "leading-space", "empty"),
		invalid: func(r *vc.Rand, class string) (string, string) {
			p, _ := genDT(r)
			if v, why, ok := corruptDate(r, class); ok {
				p.date = v
				return p.String(), "date part: " + why
			}
			switch class {
			case "hour-24":
				p.h = pad(r.Range(24, 99), 2)
				return p.String(), "hour " + p.h + " > 23"
			case "minute-60":
				p.mi = pad(r.Range(60, 99), 2)
				return p.String(), "minute " + p.mi + " > 59"
			case "second-61":
				p.s = pad(r.Range(61, 99), 2)
				return p.String(), "second " + p.s + " > 60"
			case "missing-T":
				return strings.Replace(p.String(), "T", "", 1), "'T' removed"
			case "missing-zone":
				p.zone = ""
				return p.String(), "time-offset removed"
			case "missing-seconds":
				return p.date + "T" + p.h + ":" + p.mi + p.zone, "seconds removed"
			case "offset-without-colon":
				p.zone = r.Pick("+", "-") + pad(r.Range(0, 23), 2) + pad(r.Range(0, 59), 2)
				return p.String(), "offset lacks ':'"
			case "offset-hour-only":
				p.zone = r.Pick("+", "-") + pad(r.Range(0, 23), 2)
				return p.String(), "offset lacks minutes"
			case "offset-hour-24":
				p.zone = r.Pick("+", "-") + "24:" + pad(r.Range(0, 59), 2)
				return p.String(), "offset hour 24 > 23"
			case "offset-hour-25":
				p.zone = r.Pick("+", "-") + pad(r.Range(25, 99), 2) + ":" + pad(r.Range(0, 59), 2)
				return p.String(), "offset hour > 23"
			case "offset-minute-60":
				p.zone = r.Pick("+", "-") + pad(r.Range(0, 23), 2) + ":60"
				return p.String(), "offset minute 60 > 59"
			case "offset-minute-61":
				p.zone = r.Pick("+", "-") + pad(r.Range(0, 23), 2) + ":" + pad(r.Range(61, 99), 2)
				return p.String(), "offset minute > 59"
			case "fraction-empty":
				p.frac = "."
				return p.String(), "'.' without digits"
			case "fraction-comma":
				p.frac = "," + rstr(r, digits, r.Range(1, 6))
				return p.String(), "',' instead of '.' before the fraction"
			case "hour-one-digit":
				p.h = strconv.Itoa(r.Range(0, 9))
				return p.String(), "hour must be 2DIGIT"
			case "minute-one-digit":
				p.mi = strconv.Itoa(r.Range(0, 9))
				return p.String(), "minute must be 2DIGIT"
			case "second-one-digit":
				p.s = strconv.Itoa(r.Range(0, 9))
				p.frac = ""
				return p.String(), "second must be 2DIGIT"
			case "date-only":
				return p.date, "no time part"
			case "trailing-garbage":
				return p.String() + r.Pick(" ", "x", "Z", "[UTC]", "\n"), "characters after the offset"
			case "double-zone":
				p.zone = "Z+01:00"
				return p.String(), "two offsets"
			case "time-dot-separator":
				return p.date + "T" + p.h + "." + p.mi + "." + p.s + p.zone, "'.' instead of ':'"
			case "leading-space":
				return " " + p.String(), "leading space"
			case "empty":
				return "", "empty string"
			}
			panic("date-time class " + class)
		},
		ref: refDateTime,
	}
}

// ---------------------------------------------------------------- rfc1123

var wdays = []string{"Sun", "Mon", "Tue", "Wed", "Thu", "Fri", "Sat"}
var wdaysLong = []string{"Sunday", "Monday", "Tuesday", "Wednesday", "Thursday", "Friday", "Saturday"}
var months = []string{"Jan", "Feb", "Mar", "Apr", "May", "Jun", "Jul", "Aug", "Sep", "Oct", "Nov", "Dec"}
var monthsLong = []string{"January", "February", "March", "April", "May", "June", "July", "August", "September", "October", "November", "December"}
var usZones = []string{"EST", "EDT", "CST", "CDT", "MST", "MDT", "PST", "PDT"}

var reRFC1123 = regexp.MustCompile(`^(Mon|Tue|Wed|Thu|Fri|Sat|Sun), (\d{2}) (Jan|Feb|Mar|Apr|May|Jun|Jul|Aug|Sep|Oct|Nov|Dec) (\d{4}) (\d{2}):(\d{2}):(\d{2}) (GMT|UT|EST|EDT|CST|CDT|MST|MDT|PST|PDT|[+-]\d{4})$`)

func refRFC1123(s string) int {
	m := reRFC1123.FindStringSubmatch(s)
	if m == nil {
		return 0
	}
	mo := 0
	for i, n := range months {
		if n == m[3] {
			mo = i + 1
		}
	}
	y, d := atoi(m[4]), atoi(m[2])
	if d < 1 || d > dim(y, mo) {
		return 0
	}
	if atoi(m[5]) > 23 || atoi(m[6]) > 59 || atoi(m[7]) > 60 {
		return 0
	}
	if atoi(m[7]) == 60 {
		return -1
	}
	if wdays[weekday(y, mo, d)] != m[1] {
		return -1 // grammatical but names the wrong day: not judged
	}
	if z := m[8]; z[0] == '+' || z[0] == '-' {
		if atoi(z[1:3]) > 23 || atoi(z[3:5]) > 59 {
			return 0
		}
	}
	return 1
}

type rfParts struct {
	wd, d, mon, y, h, mi, s, zone string
}

func (p rfParts) String() string {
	return p.wd + ", " + p.d + " " + p.mon + " " + p.y + " " + p.h + ":" + p.mi + ":" + p.s + " " + p.zone
}

func genRF(r *vc.Rand) (rfParts, ymd, string) {
	d, _ := genYMD(r, 1600)
	class := "fixed-form"
	if d.y < 1600 {
		d.y = 1600 + d.y%400
		if d.d > dim(d.y, d.m) {
			d.d = dim(d.y, d.m)
		}
	}
	p := rfParts{wd: wdays[weekday(d.y, d.m, d.d)], d: pad(d.d, 2), mon: months[d.m-1], y: pad(d.y, 4),
		h: pad(r.Range(0, 23), 2), mi: pad(r.Range(0, 59), 2), s: pad(r.Range(0, 59), 2)}
	switch r.Intn(4) {
	case 0, 1:
		p.zone = "GMT"
		class += ",GMT"
	case 2:
		p.zone = usZones[r.Intn(len(usZones))]
		class += ",us-zone-name"
	default:
		p.zone = r.Pick("+", "-") + pad(r.Range(0, 14), 2) + r.Pick("00", "30", "45", "00")
		class += ",numeric-zone"
	}
	return p, d, class
}

func init() {
	gens["rfc1123"] = &gen{
		valid: func(r *vc.Rand) (string, string) {
			p, _, class := genRF(r)
			return class, p.String()
		},
		classes: []string{"bad-weekday-token", "missing-comma", "bad-month-token", "day-32", "day-00", "nonexistent-date",
			"hour-24", "minute-60", "second-61", "missing-zone", "hour-one-digit", "fraction-seconds",
			"weekday-full-name", "month-full-name", "month-numeric", "trailing-garbage", "rfc3339-instead", "time-dot-separator",
			"day-three-digit", "missing-weekday-keeps-comma", "empty"},
		invalid: func(r *vc.Rand, class string) (string, string) {
			p, d, _ := genRF(r)
			if r.Bool() {
				p.zone = "GMT" // keep the rest of the string inside the strict form
			}
			switch class {
			case "bad-weekday-token":
				p.wd = r.Pick("Xyz", "Mo", "Mou", "Day", "Tus", "123", "Sa")
				return p.String(), "weekday token " + p.wd + " is not a day name"
			case "missing-comma":
				return strings.Replace(p.String(), ",", "", 1), "',' after weekday removed"
			case "bad-month-token":
				p.mon = r.Pick("Foo", "Ja", "Jna", "Mai", "Okt", "13", "Sept")
				return p.String(), "month token " + p.mon + " is not a month name"
			case "day-32":
				p.d = pad(r.Range(32, 99), 2)
				return p.String(), "day " + p.d + " > 31"
			case "day-00":
				p.d = "00"
				return p.String(), "day 00"
			case "nonexistent-date":
				switch r.Intn(3) {
				case 0:
					p.d, p.mon = "30", "Feb"
				case 1:
					p.d, p.mon = "31", months[[]int{4, 6, 9, 11}[r.Intn(4)]-1]
				default:
					p.d, p.mon, p.y = "29", "Feb", pad([]int{1900, 2100, 2023, 2001}[r.Intn(4)], 4)
				}
				return p.String(), p.d + " " + p.mon + " " + p.y + " does not exist"
			case "hour-24":
				p.h = pad(r.Range(24, 99), 2)
				return p.String(), "hour > 23"
			case "minute-60":
				p.mi = pad(r.Range(60, 99), 2)
				return p.String(), "minute > 59"
			case "second-61":
				p.s = pad(r.Range(61, 99), 2)
				return p.String(), "second > 60"
			case "missing-zone":
				s := p.String()
				return s[:len(s)-len(p.zone)-1], "zone removed"
			case "hour-one-digit":
				p.h = strconv.Itoa(r.Range(0, 9))
				return p.String(), "hour must be 2DIGIT"
			case "fraction-seconds":
				p.s += r.Pick(".", ",") + rstr(r, digits, r.Range(1, 3))
				return p.String(), "fractional seconds are not part of the grammar"
			case "weekday-full-name":
				p.wd = wdaysLong[weekday(d.y, d.m, d.d)]
				return p.String(), "RFC 850 long weekday"
			case "month-full-name":
				if d.m == 5 {
					p.mon = "March"
				} else {
					p.mon = monthsLong[d.m-1]
				}
				return p.String(), "long month name"
			case "month-numeric":
				p.mon = pad(d.m, 2)
				return p.String(), "numeric month"
			case "trailing-garbage":
				return p.String() + r.Pick(" x", "x", " 1", ";", "\n"), "characters after the zone"
			case "rfc3339-instead":
				return p.y + "-" + pad(d.m, 2) + "-" + p.d + "T" + p.h + ":" + p.mi + ":" + p.s + "Z", "an RFC 3339 timestamp"
			case "time-dot-separator":
				return p.wd + ", " + p.d + " " + p.mon + " " + p.y + " " + p.h + "." + p.mi + "." + p.s + " " + p.zone, "'.' instead of ':'"
			case "day-three-digit":
				p.d = "0" + p.d
				return p.String(), "day has three digits"
			case "missing-weekday-keeps-comma":
				p.wd = ""
				return p.String(), "weekday removed but ', ' kept"
			case "empty":
				return "", "empty string"
			}
			panic("rfc1123 class " + class)
		},
		ref: refRFC1123,
	}
}
