package main

import (
	"regexp"
	"regexp/syntax"

	"verif.local/lab/vc"
)

// pcase is one (value, pattern) pair with the verdict the oracle demands.
type pcase struct {
	P    string `json:"pattern"`
	V    string `json:"value"`
	Want bool   `json:"want_match"`
	How  string `json:"how"` // how the value was made
}

var sharedVals = []string{"", "a", "goa", "0", "foo[", " ", "\n", "é", "A", "abc", "aaa", "^goa$", "a1", "x-y", "Z9_"}

// pset is a pool of distinct patterns, each with values and expected verdicts.
type pset struct {
	pats  []pattern
	cases [][]pcase
	// generator self-check: samples that the stdlib says do not match (must stay 0)
	samplerDisagreements []pcase
	matches, nonMatches  int
}

func mutate(r *vc.Rand, s string) string {
	rs := []rune(s)
	if len(rs) == 0 {
		return string(pickc(r, "!#Z9 \n"))
	}
	i := r.Intn(len(rs))
	switch r.Intn(5) {
	case 0:
		return string(rs[:i]) + string(rs[i+1:])
	case 1:
		return string(rs[:i]) + string(pickc(r, "!#Z9 \n~")) + string(rs[i:])
	case 2:
		rs[i] = rune(pickc(r, "!#Z9 \n~q"))
		return string(rs)
	case 3:
		return s + s
	}
	return string(rs[:len(rs)/2])
}

// buildPatterns derives n distinct patterns with nv values each from the PRNG stream ids.
func buildPatterns(seed uint64, stream []uint64, n, nv int) *pset {
	ps := &pset{}
	seen := map[string]bool{}
	var prev *pattern
	for i := 0; len(ps.pats) < n && i < n*20; i++ {
		r := vc.NewRand(seed, append(append([]uint64{}, stream...), uint64(i))...)
		p := genPattern(r)
		if seen[p.Src] || len(p.Src) > 300 {
			continue
		}
		seen[p.Src] = true
		re, err := regexp.Compile(p.Src)
		if err != nil {
			// the grammar only emits RE2; a failure is a generator bug, surfaced by the caller
			ps.samplerDisagreements = append(ps.samplerDisagreements, pcase{P: p.Src, How: "pattern does not compile: " + err.Error()})
			continue
		}
		var cs []pcase
		add := func(v, how string) {
			w := re.MatchString(v)
			cs = append(cs, pcase{P: p.Src, V: v, Want: w, How: how})
			if w {
				ps.matches++
			} else {
				ps.nonMatches++
			}
		}
		for j := 0; j < nv; j++ {
			switch {
			case j%10 < 3:
				s := p.Sample(r)
				if !re.MatchString(s) {
					ps.samplerDisagreements = append(ps.samplerDisagreements, pcase{P: p.Src, V: s, Want: true, How: "sample"})
					continue
				}
				if !p.Anchored && r.Bool() && p.Src[0] != '^' && p.Src[len(p.Src)-1] != '$' && !p.Fold {
					s = rstr(r, "#!~", r.Range(0, 2)) + s + rstr(r, "#!~", r.Range(0, 2))
				}
				add(s, "sample (matches by construction)")
			case j%10 < 7:
				add(mutate(r, p.Sample(r)), "sample with one edit")
			case j%10 == 7 && prev != nil:
				add(prev.Sample(r), "sample of the previous pattern")
			case j%10 == 8:
				add(p.Src, "the pattern text itself")
			default:
				add(sharedVals[r.Intn(len(sharedVals))], "shared pool")
			}
		}
		ps.pats = append(ps.pats, p)
		ps.cases = append(ps.cases, cs)
		pp := p
		prev = &pp
	}
	return ps
}

func isRE2(s string) bool {
	_, err := syntax.Parse(s, syntax.Perl)
	if err != nil {
		return false
	}
	_, err = regexp.Compile(s)
	return err == nil
}

// compileFresh compiles p without going through any cache.
func compileFresh(p string) (*regexp.Regexp, error) { return regexp.Compile(p) }
