package main

import (
	"bytes"
	"encoding/json"
	"fmt"
	"os"
	"os/exec"
	"path/filepath"
	"regexp"
	"sort"
	"strings"
	"sync"

	"verif.local/lab/vc"
)

// roundSpec fully determines the op lists of one concurrent round (not its schedule).
type roundSpec struct {
	Seed  uint64 `json:"seed"`
	Round int    `json:"round"`
	G     int    `json:"goroutines"`
	P     int    `json:"patterns"`
	V     int    `json:"values_per_pattern"`
	K     int    `json:"ops_per_goroutine"`
}

type cmis struct {
	Kind      string  `json:"kind"` // pattern | format
	Goroutine int     `json:"goroutine"`
	Op        int     `json:"op"`
	Pattern   string  `json:"pattern,omitempty"`
	Format    string  `json:"format,omitempty"`
	Value     string  `json:"value"`
	Want      bool    `json:"want_accept"`
	Got       verdict `json:"got"`
	Problem   string  `json:"problem"`
}

type childOut struct {
	Spec        roundSpec `json:"spec"`
	PatternOps  int       `json:"pattern_ops"`
	FormatOps   int       `json:"format_ops"`
	Matches     int       `json:"matches"`
	NonMatches  int       `json:"non_matches"`
	Mismatches  []cmis    `json:"mismatches"`
	NMismatch   int       `json:"n_mismatch"`
	GenProblems []pcase   `json:"generator_problems"`
	Hook        bool      `json:"hook"`
	CacheSize   int       `json:"cache_size"`
	CacheBad    []string  `json:"cache_bad"`
}

// fop is a format op with the verdict observed single-threaded before the round.
type fop struct {
	c    fcase
	base verdict
}

// runChild executes one concurrent round in this (fresh) process and prints a childOut.
func runChild(specJSON string) {
	var sp roundSpec
	if err := json.Unmarshal([]byte(specJSON), &sp); err != nil {
		fmt.Fprintln(os.Stderr, "bad spec:", err)
		os.Exit(3)
	}
	out := childOut{Spec: sp}
	ps := buildPatterns(sp.Seed, []uint64{1717, uint64(sp.Round)}, sp.P, sp.V)
	out.GenProblems = ps.samplerDisagreements
	P := len(ps.pats)
	// format ops: single-threaded baseline first (ValidatePattern is NOT touched here so
	// that every pattern is first seen while the goroutines compete)
	var fops []fop
	for fi, f := range formats {
		g := gens[f]
		for i := 0; i < 6; i++ {
			r := vc.NewRand(sp.Seed, 1718, uint64(sp.Round), uint64(fi), uint64(i))
			var c fcase
			if i%2 == 0 {
				cl, v := g.valid(r)
				c = fcase{Format: f, Class: cl, Valid: true, Value: v}
			} else {
				cl := g.classes[r.Intn(len(g.classes))]
				v, why := g.invalid(r, cl)
				c = fcase{Format: f, Class: cl, Value: v, Why: why}
			}
			fops = append(fops, fop{c, callFormat(f, c.Value)})
		}
	}
	var mu sync.Mutex
	report := func(m cmis) {
		mu.Lock()
		out.NMismatch++
		if len(out.Mismatches) < 12 {
			out.Mismatches = append(out.Mismatches, m)
		}
		mu.Unlock()
	}
	start := make(chan struct{})
	var wg sync.WaitGroup
	counts := make([][4]int, sp.G)
	width := P / 8
	if width < 4 {
		width = 4
	}
	for g := 0; g < sp.G; g++ {
		wg.Add(1)
		go func(g int) {
			defer wg.Done()
			r := vc.NewRand(sp.Seed, 1719, uint64(sp.Round), uint64(g))
			type op struct {
				pi, vi, fi int
			}
			ops := make([]op, sp.K)
			for k := range ops {
				base := k * P / sp.K
				switch {
				case k%10 == 9:
					ops[k] = op{fi: r.Intn(len(fops)), pi: -1}
				case r.Chance(1, 5):
					pi := r.Intn(base + width)
					ops[k] = op{pi: pi % P}
				default:
					ops[k] = op{pi: (base + r.Intn(width)) % P}
				}
				if ops[k].pi >= 0 {
					ops[k].vi = r.Intn(len(ps.cases[ops[k].pi]))
				}
			}
			<-start
			for k, o := range ops {
				if o.pi < 0 {
					f := fops[o.fi]
					got := callFormat(f.c.Format, f.c.Value)
					counts[g][1]++
					if got.Accepted != f.base.Accepted || got.ErrName != f.base.ErrName || got.Panic != "" {
						report(cmis{Kind: "format", Goroutine: g, Op: k, Format: f.c.Format, Value: f.c.Value, Want: f.base.Accepted, Got: got,
							Problem: "verdict under concurrency differs from the single-threaded verdict on the same input"})
					}
					continue
				}
				c := ps.cases[o.pi][o.vi]
				got := callPattern(c.V, c.P)
				counts[g][0]++
				if c.Want {
					counts[g][2]++
				} else {
					counts[g][3]++
				}
				switch {
				case got.Panic != "":
					report(cmis{Kind: "pattern", Goroutine: g, Op: k, Pattern: c.P, Value: c.V, Want: c.Want, Got: got, Problem: "panic"})
				case got.Accepted != c.Want:
					report(cmis{Kind: "pattern", Goroutine: g, Op: k, Pattern: c.P, Value: c.V, Want: c.Want, Got: got,
						Problem: "verdict differs from regexp.MustCompile(p).MatchString(v)"})
				case !got.Accepted && got.ErrName != "invalid_pattern":
					report(cmis{Kind: "pattern", Goroutine: g, Op: k, Pattern: c.P, Value: c.V, Want: c.Want, Got: got, Problem: "wrong error name"})
				}
			}
		}(g)
	}
	close(start)
	wg.Wait()
	for _, c := range counts {
		out.PatternOps += c[0]
		out.FormatOps += c[1]
		out.Matches += c[2]
		out.NonMatches += c[3]
	}
	// quiescent point
	if snap, ok := cacheSnapshot(); ok {
		out.Hook = true
		out.CacheSize = len(snap)
		for k, s := range snap {
			if k != s && len(out.CacheBad) < 5 {
				out.CacheBad = append(out.CacheBad, fmt.Sprintf("key %q holds regexp %q", k, s))
			}
		}
	}
	b, _ := json.Marshal(out)
	fmt.Println(string(b))
}

// ---------------------------------------------------------------- parent side

type concResult struct {
	out     *childOut
	pid     int
	stderr  string
	exit    int
	problem string
}

func raceDir() string {
	if d := os.Getenv("VERIF_SCRATCH_DIR"); d != "" {
		return d
	}
	d, err := os.MkdirTemp("", "mon-c17-race")
	if err != nil {
		return os.TempDir()
	}
	return d
}

func runRound(dir string, sp roundSpec) concResult {
	b, _ := json.Marshal(sp)
	cmd := exec.Command(os.Args[0], "--conc-child", string(b))
	var env []string
	for _, e := range os.Environ() {
		if !strings.HasPrefix(e, "GORACE=") {
			env = append(env, e)
		}
	}
	cmd.Env = append(env, "GORACE=halt_on_error=0 log_path="+filepath.Join(dir, "race"))
	var so, se bytes.Buffer
	cmd.Stdout, cmd.Stderr = &so, &se
	err := cmd.Run()
	res := concResult{stderr: se.String()}
	if cmd.Process != nil {
		res.pid = cmd.Process.Pid
	}
	if cmd.ProcessState != nil {
		res.exit = cmd.ProcessState.ExitCode()
	}
	var out childOut
	if jerr := json.Unmarshal(bytes.TrimSpace(so.Bytes()), &out); jerr == nil {
		res.out = &out
		return res // exit status is not trusted (66 = race reports were written)
	}
	if err != nil {
		res.problem = err.Error()
	} else {
		res.problem = "child printed no result"
	}
	return res
}

var reFatal = regexp.MustCompile(`fatal error: (concurrent map [a-z ]+)`)
var reGoaFrame = regexp.MustCompile(`(goa\.design/goa/v3/[\w/]+\.[\w.()*]+)\(`)

// ---------------------------------------------------------------- race logs

type raceReport struct {
	Key   string `json:"key"`
	Text  string `json:"text"`
	File  string `json:"file"`
	Count int    `json:"count"`
}

var reFrameFunc = regexp.MustCompile(`^  (\S+)\(\)$`)
var reAccess = regexp.MustCompile(`^(Read|Write|Previous read|Previous write|Atomic read|Atomic write|Previous atomic read|Previous atomic write) (at|of) `)

// skipFrame: frames of the runtime and of the standard library are skipped so that a
// race on an object published through goa's cache is attributed to the goa (or monitor)
// function that touched it, not to whichever regexp internals happened to run.
func skipFrame(fn string) bool {
	first := fn
	if i := strings.IndexByte(first, '/'); i >= 0 {
		first = first[:i]
	} else if i := strings.IndexByte(first, '.'); i >= 0 {
		first = first[:i]
		return first != "main"
	}
	return !strings.Contains(first, ".")
}

// parseRaceLogs counts "WARNING: DATA RACE" blocks in dir/race.* and groups them by
// the pair of innermost non-runtime, non-stdlib functions of the two conflicting accesses.
func parseRaceLogs(dir string) (files int, blocks int, byKey map[string]*raceReport) {
	byKey = map[string]*raceReport{}
	names, _ := filepath.Glob(filepath.Join(dir, "race.*"))
	sort.Strings(names)
	for _, n := range names {
		b, err := os.ReadFile(n)
		if err != nil {
			continue
		}
		files++
		for _, blk := range strings.Split(string(b), "==================") {
			if !strings.Contains(blk, "WARNING: DATA RACE") {
				continue
			}
			blocks++
			var fns []string
			inAccess, found := false, false
			for _, l := range strings.Split(blk, "\n") {
				if reAccess.MatchString(l) {
					inAccess, found = true, false
					continue
				}
				if strings.HasPrefix(l, "Goroutine ") || strings.TrimSpace(l) == "" {
					inAccess = false
					continue
				}
				if inAccess && !found {
					if m := reFrameFunc.FindStringSubmatch(l); m != nil && !skipFrame(m[1]) {
						fns = append(fns, m[1])
						found = true
					}
				}
			}
			for len(fns) < 2 {
				fns = append(fns, "unknown")
			}
			pair := fns[:2]
			sort.Strings(pair)
			key := "race:" + pair[0] + "|" + pair[1]
			if r := byKey[key]; r != nil {
				r.Count++
			} else {
				byKey[key] = &raceReport{Key: key, Text: trunc(strings.TrimSpace(blk), 3000), File: filepath.Base(n), Count: 1}
			}
		}
	}
	return
}
