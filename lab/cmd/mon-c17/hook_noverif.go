//go:build !verif

package main

// cacheSnapshot: the hook is not compiled in (build without -tags verif); the
// quiescent-point cache invariant is reported as inconclusive.
func cacheSnapshot() (map[string]string, bool) { return nil, false }
