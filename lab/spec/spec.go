// Package spec is the design IR: the generator's statement of intent. It is the
// single source for printing the DSL program handed to goa and for every
// oracle. It never contains anything computed by goa.
package spec

import (
	"encoding/json"
	"os"
	"sort"
	"strings"
)

// Primitive kind names (Type.Kind).
const (
	Boolean = "boolean"
	Int     = "int"
	Int32   = "int32"
	Int64   = "int64"
	UInt    = "uint"
	UInt32  = "uint32"
	UInt64  = "uint64"
	Float32 = "float32"
	Float64 = "float64"
	String  = "string"
	Bytes   = "bytes"
	Any     = "any"
	Array   = "array"
	Map     = "map"
	Object  = "object"
	Ref     = "ref"
	Union   = "union"
)

// Prims lists the primitive kinds.
var Prims = []string{Boolean, Int, Int32, Int64, UInt, UInt32, UInt64, Float32, Float64, String, Bytes, Any}

// DSLName maps a primitive kind to the DSL identifier.
var DSLName = map[string]string{Boolean: "Boolean", Int: "Int", Int32: "Int32", Int64: "Int64", UInt: "UInt", UInt32: "UInt32",
	UInt64: "UInt64", Float32: "Float32", Float64: "Float64", String: "String", Bytes: "Bytes", Any: "Any"}

type Spec struct {
	ID       string      `json:"id"`
	API      API         `json:"api"`
	Schemes  []*Scheme   `json:"schemes,omitempty"`
	Types    []*UserType `json:"types,omitempty"`
	Services []*Service  `json:"services"`
	Features []string    `json:"features,omitempty"`
}

type API struct {
	Name     string              `json:"name"`
	Title    string              `json:"title,omitempty"`
	Version  string              `json:"version,omitempty"`
	BasePath string              `json:"base_path,omitempty"`
	Errors   []*ErrorDecl        `json:"errors,omitempty"`
	HTTPErrs []*HTTPError        `json:"http_errors,omitempty"`
	Security []*Requirement      `json:"security,omitempty"`
	Meta     map[string][]string `json:"meta,omitempty"`
	Servers  []*Server           `json:"servers,omitempty"`
}

type Server struct {
	Name     string   `json:"name"`
	Services []string `json:"services,omitempty"`
	Hosts    []Host   `json:"hosts"`
}
type Host struct {
	Name string   `json:"name"`
	URIs []string `json:"uris"`
}

type Scheme struct {
	Name   string   `json:"name"`
	Kind   string   `json:"kind"` // basic | apikey | jwt | oauth2
	Scopes []string `json:"scopes,omitempty"`
}

// Requirement is one alternative: all schemes must be satisfied.
type Requirement struct {
	Schemes []string `json:"schemes"`
	Scopes  []string `json:"scopes,omitempty"`
}

type UserType struct {
	Name string `json:"name"`
	Kind string `json:"kind"` // type | result | alias
	Def  *Type  `json:"def"`
	Val  *Val   `json:"val,omitempty"` // alias validations
	// AliasDefault: a default declared on a primitive alias type itself (canonical leaf). Only used by types whose
	// every use carries a default of its own: the attribute-level default is the one that counts.
	AliasDefault any     `json:"alias_default,omitempty"`
	Views        []*View `json:"views,omitempty"`
	ContentType  string  `json:"content_type,omitempty"`
	Extend       string  `json:"extend,omitempty"`
	Reference    string  `json:"reference,omitempty"`
	// ErrorNameAttr is the attribute carrying the error name (struct:error:name) when the
	// type is shared by several errors.
	ErrorNameAttr string `json:"error_name_attr,omitempty"`
	// ErrorOnly marks a type generated to serve as a custom error type only (runtime profiles never reuse
	// it as payload/result: sharing a type between errors and payloads is a listed C01 trigger).
	ErrorOnly bool                `json:"error_only,omitempty"`
	Meta      map[string][]string `json:"meta,omitempty"`
}

type View struct {
	Name  string     `json:"name"`
	Attrs []ViewAttr `json:"attrs"`
}
type ViewAttr struct {
	Name string `json:"name"`
	View string `json:"view,omitempty"` // nested view override
}

type Type struct {
	Kind     string   `json:"kind"`
	Elem     *Attr    `json:"elem,omitempty"`
	Key      *Attr    `json:"key,omitempty"`
	Attrs    []*Attr  `json:"attrs,omitempty"`
	Required []string `json:"required,omitempty"`
	Ref      string   `json:"ref,omitempty"`
	// CollectionOf: array kind created with CollectionOf(ref) (result type collection)
	Collection bool `json:"collection,omitempty"`
}

type Attr struct {
	Name    string              `json:"name,omitempty"`
	Type    *Type               `json:"type"`
	Val     *Val                `json:"val,omitempty"`
	Default any                 `json:"default,omitempty"` // canonical tree (vtree)
	HasDef  bool                `json:"has_default,omitempty"`
	Desc    string              `json:"desc,omitempty"`
	Meta    map[string][]string `json:"meta,omitempty"`
	Tag     int                 `json:"tag,omitempty"`  // rpc:tag
	View    string              `json:"view,omitempty"` // view used to render a nested result type
	// Inherit says the attribute comes from the enclosing user type's base: "extend" (merged in by Extend(base),
	// not spelled in the DSL) or "reference" (spelled without a type: type, validations, default and description
	// come from the attribute of the same name of Reference(base)). InhReq: required because the base requires it.
	Inherit string `json:"inherit,omitempty"`
	InhReq  bool   `json:"inherited_required,omitempty"`
	// security roles
	Sec string `json:"sec,omitempty"` // username|password|token|apikey:<scheme>|accesstoken
}

type Val struct {
	Enum    []any    `json:"enum,omitempty"` // canonical leaves
	Min     *float64 `json:"min,omitempty"`
	Max     *float64 `json:"max,omitempty"`
	ExclMin *float64 `json:"excl_min,omitempty"`
	ExclMax *float64 `json:"excl_max,omitempty"`
	MinLen  *int     `json:"min_len,omitempty"`
	MaxLen  *int     `json:"max_len,omitempty"`
	Pattern string   `json:"pattern,omitempty"`
	Format  string   `json:"format,omitempty"`
}

func (v *Val) Empty() bool {
	return v == nil || (len(v.Enum) == 0 && v.Min == nil && v.Max == nil && v.ExclMin == nil && v.ExclMax == nil &&
		v.MinLen == nil && v.MaxLen == nil && v.Pattern == "" && v.Format == "")
}

type Service struct {
	Name     string         `json:"name"`
	BasePath string         `json:"base_path,omitempty"`
	Errors   []*ErrorDecl   `json:"errors,omitempty"`
	HTTPErrs []*HTTPError   `json:"http_errors,omitempty"`
	Security []*Requirement `json:"security,omitempty"`
	NoSec    bool           `json:"no_security,omitempty"`
	Methods  []*Method      `json:"methods"`
	Files    []*FileServer  `json:"files,omitempty"`
	GRPC     bool           `json:"grpc,omitempty"`
	NoHTTP   bool           `json:"no_http,omitempty"`
}

type FileServer struct {
	Path string `json:"path"`
	File string `json:"file"`
}

type ErrorDecl struct {
	Name      string `json:"name"`
	Type      *Type  `json:"type,omitempty"` // nil = ErrorResult
	Timeout   bool   `json:"timeout,omitempty"`
	Temporary bool   `json:"temporary,omitempty"`
	Fault     bool   `json:"fault,omitempty"`
}

type Method struct {
	Name     string         `json:"name"`
	Payload  *Attr          `json:"payload,omitempty"`
	Result   *Attr          `json:"result,omitempty"`
	Errors   []*ErrorDecl   `json:"errors,omitempty"`
	Stream   string         `json:"stream,omitempty"` // "", client, server, bidi
	StreamP  *Attr          `json:"streaming_payload,omitempty"`
	Security []*Requirement `json:"security,omitempty"`
	NoSec    bool           `json:"no_security,omitempty"`
	HTTP     *HTTP          `json:"http,omitempty"`
	GRPC     *GRPC          `json:"grpc,omitempty"`
}

type Route struct {
	Verb string `json:"verb"`
	Path string `json:"path"` // relative to service path; {name} and {*name}
}

// Loc maps a payload/result attribute to a wire element.
type Loc struct {
	Attr string `json:"attr"`           // attribute name ("" = the whole payload for non-object payloads)
	Wire string `json:"wire,omitempty"` // wire name (defaults to Attr)
}

func (l Loc) WireName() string {
	if l.Wire != "" {
		return l.Wire
	}
	return l.Attr
}

type HTTP struct {
	Routes  []Route `json:"routes"`
	Path    []Loc   `json:"path,omitempty"`
	Query   []Loc   `json:"query,omitempty"`
	Headers []Loc   `json:"headers,omitempty"`
	Cookies []Loc   `json:"cookies,omitempty"`
	// ExplicitPathParams: path parameters (wire names of Path entries) that the design ALSO declares with Param(...)
	// after the routes, in this order (the others are declared by the route wildcards alone)
	ExplicitPathParams []string `json:"explicit_path_params,omitempty"`
	MapParams          string   `json:"map_params,omitempty"` // attr name mapped with MapParams ("" none, "*" whole payload)
	// Body: "" = auto (all unmapped attributes), "attr:<name>" = Body("name"), "empty" = Body(Empty),
	// "custom" = Body(func(){ Attribute(..) }) listing BodyAttrs
	Body          string          `json:"body,omitempty"`
	BodyAttrs     []Loc           `json:"body_attrs,omitempty"`
	Multipart     bool            `json:"multipart,omitempty"`
	SkipReqBody   bool            `json:"skip_request_body,omitempty"`
	SkipRespBody  bool            `json:"skip_response_body,omitempty"`
	Responses     []*HTTPResponse `json:"responses,omitempty"`
	Errors        []*HTTPError    `json:"errors,omitempty"`
	RequestCT     string          `json:"request_content_type,omitempty"`
	ExplicitBasic bool            `json:"explicit_basic,omitempty"`
}

type HTTPResponse struct {
	Status      int    `json:"status"`
	TagAttr     string `json:"tag_attr,omitempty"`
	TagValue    string `json:"tag_value,omitempty"`
	Headers     []Loc  `json:"headers,omitempty"`
	Cookies     []Loc  `json:"cookies,omitempty"`
	Body        string `json:"body,omitempty"` // as HTTP.Body
	BodyAttrs   []Loc  `json:"body_attrs,omitempty"`
	ContentType string `json:"content_type,omitempty"`
}

type HTTPError struct {
	Name    string `json:"name"`
	Status  int    `json:"status"`
	Headers []Loc  `json:"headers,omitempty"`
	Cookies []Loc  `json:"cookies,omitempty"`
	Body    string `json:"body,omitempty"`
}

type GRPC struct {
	// Message / RespMessage: attributes listed explicitly with Message(func(){ Attribute(..) }) in the
	// request / response (the unlisted, unmapped ones still travel in the message)
	Message     []Loc  `json:"message,omitempty"`
	RespMessage []Loc  `json:"resp_message,omitempty"`
	Metadata    []Loc  `json:"metadata,omitempty"`
	Headers     []Loc  `json:"headers,omitempty"`
	Trailers    []Loc  `json:"trailers,omitempty"`
	Code        string `json:"code,omitempty"`
	ErrCodes    []struct {
		Name string `json:"name"`
		Code string `json:"code"`
	} `json:"errors,omitempty"`
}

// ---------------------------------------------------------------- helpers

func (s *Spec) Type(name string) *UserType {
	for _, t := range s.Types {
		if t.Name == name {
			return t
		}
	}
	return nil
}

func (s *Spec) Scheme(name string) *Scheme {
	for _, t := range s.Schemes {
		if t.Name == name {
			return t
		}
	}
	return nil
}

// Resolve follows refs to the underlying definition (object or primitive alias).
// It returns the resolved type and the user type (nil if t is not a ref).
func (s *Spec) Resolve(t *Type) (*Type, *UserType) {
	var ut *UserType
	for i := 0; t != nil && t.Kind == Ref && i < 50; i++ {
		ut = s.Type(t.Ref)
		if ut == nil {
			return nil, nil
		}
		t = ut.Def
	}
	return t, ut
}

// AliasVals collects the validations attached to the alias chain of t (outermost first).
func (s *Spec) AliasVals(t *Type) []*Val {
	var out []*Val
	for i := 0; t != nil && t.Kind == Ref && i < 50; i++ {
		ut := s.Type(t.Ref)
		if ut == nil {
			break
		}
		if ut.Kind == "alias" && !ut.Val.Empty() {
			out = append(out, ut.Val)
		}
		t = ut.Def
	}
	return out
}

func IsPrim(k string) bool {
	switch k {
	case Boolean, Int, Int32, Int64, UInt, UInt32, UInt64, Float32, Float64, String, Bytes, Any:
		return true
	}
	return false
}

func IsNumeric(k string) bool {
	switch k {
	case Int, Int32, Int64, UInt, UInt32, UInt64, Float32, Float64:
		return true
	}
	return false
}

func IsInt(k string) bool {
	switch k {
	case Int, Int32, Int64, UInt, UInt32, UInt64:
		return true
	}
	return false
}

func (t *Type) Attr(name string) *Attr {
	for _, a := range t.Attrs {
		if a.Name == name {
			return a
		}
	}
	return nil
}

func (t *Type) IsRequired(name string) bool {
	for _, r := range t.Required {
		if r == name {
			return true
		}
	}
	return false
}

// Norm normalises an identifier for case/underscore-insensitive matching
// between design names and generated Go field names.
func Norm(s string) string {
	var b strings.Builder
	for _, r := range strings.ToLower(s) {
		if (r >= 'a' && r <= 'z') || (r >= '0' && r <= '9') {
			b.WriteRune(r)
		}
	}
	return b.String()
}

func (s *Spec) AddFeature(fs ...string) {
	for _, f := range fs {
		found := false
		for _, g := range s.Features {
			if g == f {
				found = true
				break
			}
		}
		if !found {
			s.Features = append(s.Features, f)
		}
	}
	sort.Strings(s.Features)
}

func (s *Spec) Signature() string { return strings.Join(s.Features, ",") }

func (s *Spec) JSON() []byte {
	b, _ := json.MarshalIndent(s, "", " ")
	return b
}

func Load(path string) (*Spec, error) {
	b, err := os.ReadFile(path)
	if err != nil {
		return nil, err
	}
	var s Spec
	if err := json.Unmarshal(b, &s); err != nil {
		return nil, err
	}
	return &s, nil
}

// Method lookup
func (s *Spec) FindMethod(svc, m string) (*Service, *Method) {
	for _, sv := range s.Services {
		if sv.Name != svc {
			continue
		}
		for _, me := range sv.Methods {
			if me.Name == m {
				return sv, me
			}
		}
	}
	return nil, nil
}

// EffectiveSecurity computes the requirements that apply to a method:
// the method's own, else the service's, else the API's; NoSecurity empties.
func (s *Spec) EffectiveSecurity(sv *Service, m *Method) []*Requirement {
	if m.NoSec {
		return nil
	}
	if len(m.Security) > 0 {
		return m.Security
	}
	if sv.NoSec {
		return nil
	}
	if len(sv.Security) > 0 {
		return sv.Security
	}
	return s.API.Security
}

// AllErrors returns the errors that apply to a method (method, service, API), method first.
func (s *Spec) AllErrors(sv *Service, m *Method) []*ErrorDecl {
	seen := map[string]bool{}
	var out []*ErrorDecl
	// API-level errors are reusable definitions: they apply only where a service or method names them
	for _, l := range [][]*ErrorDecl{m.Errors, sv.Errors} {
		for _, e := range l {
			if !seen[e.Name] {
				seen[e.Name] = true
				out = append(out, e)
			}
		}
	}
	return out
}

// HTTPErrorFor finds the HTTP response declared for an error name (method, service, API).
func (s *Spec) HTTPErrorFor(sv *Service, m *Method, name string) *HTTPError {
	if m.HTTP != nil {
		for _, e := range m.HTTP.Errors {
			if e.Name == name {
				return e
			}
		}
	}
	for _, e := range sv.HTTPErrs {
		if e.Name == name {
			return e
		}
	}
	for _, e := range s.API.HTTPErrs {
		if e.Name == name {
			return e
		}
	}
	return nil
}
