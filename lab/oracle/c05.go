package oracle

import (
	"encoding/json"
	"fmt"
	"sort"
	"strings"

	"verif.local/lab/rt"
	"verif.local/lab/spec"
	"verif.local/lab/vtree"
)

func hdr(h map[string][]string, name string) (string, bool) {
	for k, v := range h {
		if strings.EqualFold(k, name) && len(v) > 0 {
			return v[0], true
		}
	}
	return "", false
}

func flagsKey(to, te, fa bool) string {
	b := func(x bool) string {
		if x {
			return "1"
		}
		return "0"
	}
	return b(to) + b(te) + b(fa)
}

// defaultStatus is the literal table of the godoc of goahttp.ErrorResponse.StatusCode.
func defaultStatus(name string, to, te, fa bool) int {
	switch {
	case name == "unsupported_media_type":
		return 415
	case fa:
		return 500
	case to && te:
		return 504
	case to:
		return 408
	case te:
		return 503
	}
	return 400
}

// C05 judges error delivery.
func C05(sp *spec.Spec, ex *rt.Exchange) *Verdict {
	v := &Verdict{}
	sv, m := sp.FindMethod(ex.Case.Svc, ex.Case.Method)
	if m == nil {
		v.Inconclusive = "unknown method"
		return v
	}
	c := ex.Case
	if ex.BuildErr != "" {
		v.Inconclusive = "value builder: " + firstLine(ex.BuildErr)
		return v
	}
	if strings.HasPrefix(c.Class, "malformed:") {
		return c05Malformed(sp, m, ex)
	}
	if ex.StubErr != "" {
		v.Inconclusive = "error builder: " + firstLine(ex.StubErr)
		return v
	}
	if ex.Panic != "" {
		v.add(mkKey("panic", "panic:"+panicSite(ex.Panic)+":"+c.Class, "", Explain(sp, m, c.Sent)), "panic while returning an error: %s", firstLine(ex.Panic))
		return v
	}
	if ex.StubIn == nil {
		v.Inconclusive = "request did not reach the stub (C02/C04)"
		return v
	}
	oc := c.Outcome
	w := ex.WireResp
	if w == nil || ex.ClientOut == nil {
		v.Inconclusive = "no response recorded"
		return v
	}
	if w.WriteHeaders != 1 {
		v.add(fmt.Sprintf("error-response-write-header-calls:%d:%s", w.WriteHeaders, c.Class), "WriteHeader called %d times for an error response", w.WriteHeaders)
	}
	ct, _ := hdr(w.Header, "Content-Type")
	if len(w.Body) > 0 && strings.Contains(ct, "json") && !json.Valid(w.Body) {
		v.add("error-body-not-well-formed:"+c.Class, "error body is not valid JSON: %s", trunc(string(w.Body), 200))
	}
	if ex.ClientOut.Err == nil {
		v.add("error-became-result:"+c.Class, "service method returned an error (%s) but the client returned a result", oc.Kind)
		return v
	}
	ce := ex.ClientOut.Err
	if strings.HasPrefix(c.Class, "declared:") && oc.Custom {
		// the scripted custom error value must satisfy its own type (the case generator's duty)
		for _, e := range sp.AllErrors(sv, m) {
			if e.Name == oc.ErrName && e.Type != nil {
				var viol []Violation
				var und []string
				Validate(sp, e.Type, nil, oc.ErrTree, "", &viol, &und, 0)
				if len(viol) > 0 || len(und) > 0 {
					v.Inconclusive = "case generator produced an error value that does not satisfy the design"
					return v
				}
			}
		}
	}
	switch {
	case strings.HasPrefix(c.Class, "declared:"):
		he := sp.HTTPErrorFor(sv, m, oc.ErrName)
		if he == nil {
			v.Inconclusive = "no HTTP response declared for the error"
			return v
		}
		if w.Status != he.Status {
			v.add(fmt.Sprintf("declared-error-status:%s:%s", c.Class, oc.Kind), "error %q answered %d, design assigns %d", oc.ErrName, w.Status, he.Status)
		}
		// goa-error header: must equal the name when present; required when another error shares the status
		ge, has := hdr(w.Header, "goa-error")
		shares := false
		for _, e2 := range sp.AllErrors(sv, m) {
			if e2.Name != oc.ErrName {
				if h2 := sp.HTTPErrorFor(sv, m, e2.Name); h2 != nil && h2.Status == he.Status {
					shares = true
				}
			}
		}
		if has && ge != oc.ErrName {
			v.add("goa-error-header-wrong:"+c.Class, "goa-error header %q for error %q", ge, oc.ErrName)
		}
		if !has && shares {
			v.add("goa-error-header-missing-on-shared-status:"+c.Class, "errors share status %d but the goa-error header is missing", he.Status)
		}
		// headers the design assigns to the error: each mapped attribute travels in the header the design names
		// (and nowhere in the body); only default-type errors have mapped headers in the envelope (the message)
		if !oc.Custom {
			for _, h := range he.Headers {
				if h.Attr != "message" {
					continue
				}
				name := h.Wire
				if name == "" {
					name = h.Attr
				}
				got, present := hdr(w.Header, name)
				switch {
				case !present:
					v.add("declared-error-header-missing:"+placementClass(he, sv, m), "error %q: the design carries the message in header %q, the response has headers %v", oc.ErrName, name, headerNames(w.Header))
				case got != oc.ErrMsg:
					v.add("declared-error-header-value:"+placementClass(he, sv, m), "error %q: header %q = %q, the message returned is %q", oc.ErrName, name, got, oc.ErrMsg)
				}
				var raw map[string]any
				if json.Unmarshal(w.Body, &raw) == nil {
					if _, in := raw["message"]; in {
						v.add("declared-error-header-attribute-also-in-body:"+placementClass(he, sv, m), "error %q: message is mapped to header %q but the body holds it as well: %s", oc.ErrName, name, trunc(string(w.Body), 160))
					}
				}
			}
		}
		if !oc.Custom {
			// cookies the design assigns to the error (the id of a default-type error)
			set := cookiesOf(w.Header, "Set-Cookie")
			for _, ck := range he.Cookies {
				if ck.Attr != "id" {
					continue
				}
				name := ck.WireName()
				got, present := set[name]
				switch {
				case !present:
					v.add("declared-error-cookie-missing:"+placementClass(he, sv, m), "error %q: the design carries the id in cookie %q, the response sets %v", oc.ErrName, name, cookieNames(set))
				case got != oc.ErrID:
					v.add("declared-error-cookie-value:"+placementClass(he, sv, m), "error %q: cookie %q = %q, the id returned is %q", oc.ErrName, name, got, oc.ErrID)
				}
			}
		}
		if ce.Name != oc.ErrName {
			var tags []string
			if oc.Custom {
				for _, e := range sp.AllErrors(sv, m) {
					if e.Name == oc.ErrName && e.Type != nil {
						tags = Explain(sp, &spec.Method{Payload: &spec.Attr{Type: e.Type}}, oc.ErrTree)
					}
				}
			}
			v.add(mkKey("refused:"+ce.Name, "declared-error-name-at-client", fmt.Sprintf("%s:%s", c.Class, oc.Kind), tags), "client returned error named %q (%s: %s) for declared error %q", ce.Name, ce.GoType, trunc(ce.Message, 120), oc.ErrName)
			return v
		}
		if !oc.Custom {
			if !ce.IsService {
				v.add("declared-error-type-at-client:"+c.Class, "client returned %s for a default-type error", ce.GoType)
				return v
			}
			if ce.Message != oc.ErrMsg || ce.ID != oc.ErrID || ce.Timeout != oc.Timeout || ce.Temporary != oc.Temporary || ce.Fault != oc.Fault {
				v.add(fmt.Sprintf("declared-error-attributes:%s:flags-%s", oc.Kind, flagsKey(oc.Timeout, oc.Temporary, oc.Fault)),
					"error %q: sent (id=%q msg=%q to=%v te=%v fa=%v) client got (id=%q msg=%q to=%v te=%v fa=%v)", oc.ErrName, oc.ErrID, oc.ErrMsg, oc.Timeout, oc.Temporary, oc.Fault, ce.ID, ce.Message, ce.Timeout, ce.Temporary, ce.Fault)
			}
			return v
		}
		// custom type: equal attribute tree
		var et *spec.Type
		for _, e := range sp.AllErrors(sv, m) {
			if e.Name == oc.ErrName {
				et = e.Type
			}
		}
		want := rt.NormKeys(Expect(sp, et, oc.ErrTree, nil, nil, 0))
		for _, d := range vtree.DiffS(want, ce.Tree) {
			v.add(mkKey("mismatch", "declared-error-value", fmt.Sprintf("%s:%s:%s", kindOf(sp, et), diffClass(d), valClass(d.Want)), Explain(sp, &spec.Method{Payload: &spec.Attr{Type: et}}, oc.ErrTree)),
				"custom error %q differs at %s", oc.ErrName, d.String())
		}
	case strings.HasPrefix(c.Class, "undeclared:service"):
		want := defaultStatus(oc.ErrName, oc.Timeout, oc.Temporary, oc.Fault)
		if w.Status != want {
			v.add(fmt.Sprintf("undeclared-error-status:flags-%s:name-%s:got-%d", flagsKey(oc.Timeout, oc.Temporary, oc.Fault), nameClass(oc.ErrName), w.Status),
				"undeclared service error (name %q, to=%v te=%v fa=%v) answered %d, documented mapping gives %d", oc.ErrName, oc.Timeout, oc.Temporary, oc.Fault, w.Status, want)
		}
		if eb := DecodeErrBody(w.Body); eb == nil && oc.ErrName != "" {
			v.add("undeclared-error-body:"+nameClass(oc.ErrName), "body is not an error response: %s", trunc(string(w.Body), 200))
		} else if eb != nil && (eb.Name != oc.ErrName || eb.Message != oc.ErrMsg || eb.ID != oc.ErrID || eb.Timeout != oc.Timeout || eb.Temporary != oc.Temporary || eb.Fault != oc.Fault) {
			v.add("undeclared-error-body-fields:"+oc.Kind, "body %+v differs from the error returned (%+v)", *eb, *oc)
		}
	case strings.HasPrefix(c.Class, "undeclared:plain"):
		if w.Status != 500 {
			v.add(fmt.Sprintf("plain-error-status:%d", w.Status), "plain Go error answered %d, want 500", w.Status)
		}
		var raw map[string]any
		_ = json.Unmarshal(w.Body, &raw)
		if f, _ := raw["fault"].(bool); !f {
			v.add("plain-error-not-fault", "plain Go error body lacks fault:true: %s", trunc(string(w.Body), 200))
		}
	}
	return v
}

// placementClass says where the error response was declared: on the method, inherited from the service or the API.
func placementClass(he *spec.HTTPError, sv *spec.Service, m *spec.Method) string {
	if m.HTTP != nil {
		for _, e := range m.HTTP.Errors {
			if e == he {
				return "method-level"
			}
		}
	}
	for _, e := range sv.HTTPErrs {
		if e == he {
			return "service-level"
		}
	}
	return "api-level"
}

func cookieNames(m map[string]string) []string {
	var out []string
	for k := range m {
		out = append(out, k)
	}
	sort.Strings(out)
	return out
}

func headerNames(h map[string][]string) []string {
	var out []string
	for k := range h {
		out = append(out, k)
	}
	sort.Strings(out)
	return out
}

func nameClass(n string) string {
	switch n {
	case "":
		return "empty"
	case "unsupported_media_type", "error":
		return n
	}
	return "other"
}

func c05Malformed(sp *spec.Spec, m *spec.Method, ex *rt.Exchange) *Verdict {
	v := &Verdict{}
	c := ex.Case
	w := ex.WireResp
	if w == nil {
		v.Inconclusive = "no response"
		return v
	}
	if ex.Panic != "" {
		v.add(mkKey("panic", "panic:"+panicSite(ex.Panic)+":"+c.Class, "", Explain(sp, m, c.Sent)), "panic on a malformed request: %s", firstLine(ex.Panic))
		return v
	}
	if c.Sent != nil && m.Payload != nil {
		var bviol []Violation
		var bund []string
		Validate(sp, m.Payload.Type, m.Payload.Val, c.Sent, "", &bviol, &bund, 0)
		for _, vi := range bviol {
			if !(vi.Rule == "required" && strings.Count(vi.Path, ".") == 1) {
				v.Inconclusive = "case generator produced a base payload that does not satisfy the design"
				return v
			}
		}
	}
	tags := mergeTags(Explain(sp, m, c.Sent), paramTagsOnly(c.Class, siteTags(sp, m, m.Payload, "", true)))
	if ex.StubIn != nil {
		v.add(mkKey("leaked", "malformed-request-reached-stub", c.Class, tags), "malformed request (%s) reached user code", c.Class)
		return v
	}
	if w.WriteHeaders != 1 {
		v.add(fmt.Sprintf("error-response-write-header-calls:%d:%s", w.WriteHeaders, c.Class), "WriteHeader called %d times", w.WriteHeaders)
	}
	got := errorNameOf(w)
	ok := false
	for _, n := range noteList(c, "expect_names") {
		if n == got {
			ok = true
		}
	}
	if !ok {
		v.add(mkKey("misnamed:"+got, "decode-failure-error-name", fmt.Sprintf("%s:got-%s", c.Class, got), tags), "decode failure (%s) reported as %q, standard names are %v", c.Class, got, noteList(c, "expect_names"))
	}
	wantStatus := 400
	if c.Class == "malformed:unsupported-media-type" {
		wantStatus = 415
	}
	if ok && w.Status != wantStatus {
		v.add(fmt.Sprintf("decode-failure-status:%s:got-%d", c.Class, w.Status), "decode failure (%s) answered %d, want %d", c.Class, w.Status, wantStatus)
	}
	if eb := DecodeErrBody(w.Body); eb == nil {
		v.add("decode-failure-body-not-well-formed:"+c.Class, "body is not a well-formed error response: %s", trunc(string(w.Body), 200))
	}
	return v
}
