package oracle

import (
	"encoding/json"
	"fmt"
	"strings"

	"verif.local/lab/cases"
	"verif.local/lab/rt"
	"verif.local/lab/spec"
	"verif.local/lab/vtree"
)

// Oracles for streaming (websocket) endpoints, dispatched from C02/C03 when the method streams.
//
//	C02  the payload of the handshake request reaches the service method (judged by the plain C02 code: Expect,
//	     RequestPlacement) and the sequence of messages the stub read equals the sequence the client sent:
//	     same length, same order, element-wise equal with defaults injected.
//	C03  the sequence of messages the client read equals the sequence the stub sent; a client stream's final
//	     result equals the scripted one; the stream ends with io.EOF after the last message.
//
// Both also compare the JSON member names of the frames seen on the wire with the design's attribute names.
// Expected values come from the case (spec intent) only.

func streamFake(m *spec.Method, a *spec.Attr) *spec.Method {
	return &spec.Method{Name: m.Name, Payload: a}
}

// streamPre handles what makes a streaming exchange undecidable for both properties.
func streamPre(ex *rt.Exchange, v *Verdict) bool {
	if ex.Case.Stream == nil {
		v.Inconclusive = "streaming method driven without a stream script"
		return false
	}
	if ex.Stream == nil {
		v.Inconclusive = "no stream record"
		return false
	}
	if ex.Stream.Deadlock != "" {
		// both ends of a scripted protocol that cannot deadlock by itself wait to receive, nothing is in flight:
		// the messages still owed are never delivered
		kind := "?"
		if ex.Case.Stream != nil {
			kind = ex.Case.Stream.Proto
		}
		if kind == "" {
			kind = "phased"
		}
		client := "gen"
		if ex.Case.Stream.RawClient {
			client = "raw"
		}
		v.add(fmt.Sprintf("stream:deadlock:both-ends-receiving:%s:%s-client", kind, client), "streaming exchange deadlocked: %s", ex.Stream.Deadlock)
		return false
	}
	if ex.Stream.Watchdog != "" {
		v.Inconclusive = "stream watchdog fired: " + ex.Stream.Watchdog
		return false
	}
	return true
}

// validSeq checks that the case generator produced messages satisfying the design.
func validSeq(sp *spec.Spec, a *spec.Attr, seq []any) bool {
	if a == nil {
		return len(seq) == 0
	}
	for _, msg := range seq {
		var viol []Violation
		var und []string
		Validate(sp, a.Type, a.Val, msg, "", &viol, &und, 0)
		if len(viol) > 0 || len(und) > 0 {
			return false
		}
	}
	return true
}

// errClass abstracts the text of a transport/codec error into a stable class.
func errClass(text, name string) string {
	t := strings.ToLower(text)
	switch {
	case name != "":
		return name
	case text == "":
		return "none"
	case text == "eof":
		return "eof"
	case strings.Contains(t, "bad handshake"):
		return "bad-handshake"
	case strings.Contains(t, "close 1006"), strings.Contains(t, "unexpected eof"):
		return "abnormal-closure"
	case strings.Contains(t, "close 1000"):
		return "normal-closure"
	case strings.Contains(t, "close sent"), strings.Contains(t, "use of closed"), strings.Contains(t, "broken pipe"), strings.Contains(t, "connection reset"):
		return "closed-connection"
	case strings.Contains(t, "json:"), strings.Contains(t, "invalid character"), strings.Contains(t, "cannot unmarshal"):
		return "json-decode"
	case strings.Contains(t, "timeout"):
		return "timeout"
	}
	return "other"
}

// multisetEqual reports whether got is a permutation of want (tree equality).
func multisetEqual(want, got []any) bool {
	if len(want) != len(got) {
		return false
	}
	used := make([]bool, len(got))
	for _, w := range want {
		found := false
		for j, g := range got {
			if !used[j] && len(vtree.DiffS(w, g)) == 0 {
				used[j], found = true, true
				break
			}
		}
		if !found {
			return false
		}
	}
	return true
}

// compareSeq judges a received sequence against the expected one. want holds the expected trees (already
// passed through Expect / the reference projection and NormKeys), got what the receiving end observed.
func compareSeq(sp *spec.Spec, v *Verdict, kind, dir string, msgT *spec.Attr, tags []string, refusedName string, want, got []any) {
	mk := cases.MsgKind(sp, msgT)
	if len(want) != len(got) {
		cls := "count"
		if refusedName != "" && len(got) < len(want) {
			// the receiving end refused a valid message with a goa error: name it
			key := mkKey("rejected:"+refusedName, fmt.Sprintf("stream:%s:%s:valid-message-refused:%s:%s", kind, dir, mk, refusedName), "", tags)
			if dir == "results" {
				key = mkKey("refused:"+refusedName, fmt.Sprintf("stream:%s:%s:valid-message-refused:%s:%s", kind, dir, mk, refusedName), "", tags)
			}
			v.add(key, "valid streamed message #%d was refused with %s (%d of %d messages arrived)", len(got), refusedName, len(got), len(want))
			return
		}
		v.add(fmt.Sprintf("stream:%s:%s:%s:want-%d:got-%d", kind, dir, cls, len(want), len(got)), "%d messages were streamed, %d arrived (%s)", len(want), len(got), mk)
		return
	}
	var first *vtree.D
	at := -1
	for i := range want {
		if ds := vtree.DiffS(want[i], got[i]); len(ds) > 0 {
			first, at = &ds[0], i
			break
		}
	}
	if first == nil {
		return
	}
	if multisetEqual(want, got) {
		v.add(fmt.Sprintf("stream:%s:%s:order", kind, dir), "the %d messages arrived in another order (first difference at #%d: %s)", len(want), at, first.String())
		return
	}
	nested := ""
	if strings.Count(first.Path, ".")+strings.Count(first.Path, "[")+strings.Count(first.Path, "{") > 1 {
		nested = ":nested"
	}
	v.add(fmt.Sprintf("stream:%s:%s:message-mismatch:%s%s:%s:%s", kind, dir, mk, nested, diffClass(*first), valClass(first.Want)), "message #%d of %d differs at %s", at, len(want), first.String())
}

// frameNames compares the member names of the JSON text frames seen on the wire with the design's attribute
// names of the corresponding message trees (frames beyond the messages, e.g. the null terminator, are skipped).
func frameNames(v *Verdict, key string, frames []string, msgs []any) {
	i := 0
	for _, f := range frames {
		if strings.HasPrefix(f, "<") || strings.TrimSpace(f) == "null" {
			continue
		}
		if i >= len(msgs) {
			break
		}
		var got any
		dec := json.NewDecoder(strings.NewReader(f))
		dec.UseNumber()
		if dec.Decode(&got) == nil {
			idx := i
			memberNames(fmt.Sprintf("message[%d]", idx), msgs[i], got, func(path, wantName, gotName string) {
				v.add(key, "JSON member at %s is spelled %q on the wire, the design names it %q", path, gotName, wantName)
			})
		}
		i++
	}
}

// jsonToTree converts a decoded JSON value (numbers as json.Number) into a canonical tree following the
// design type t: object members by attribute name (case/separator-insensitive, spelling is judged by
// frameNames), numbers by the attribute's kind, base64 text for bytes. JSON that does not fit the type is
// kept as an `any` leaf, which never equals a typed expectation.
func jsonToTree(sp *spec.Spec, t *spec.Type, x any, depth int) any {
	if x == nil {
		return nil
	}
	rtp, _ := sp.Resolve(t)
	if rtp == nil {
		rtp = t
	}
	misfit := func() any { return vtree.A(plainJSON(x)) }
	if rtp == nil || depth > 40 {
		return misfit()
	}
	switch rtp.Kind {
	case spec.Object:
		xo, ok := x.(map[string]any)
		if !ok {
			return misfit()
		}
		out := map[string]any{}
		for k, e := range xo {
			if e == nil {
				continue
			}
			var at *spec.Attr
			for _, a := range rtp.Attrs {
				if spec.Norm(a.Name) == spec.Norm(k) {
					at = a
				}
			}
			if at == nil {
				out[spec.Norm(k)] = vtree.A(plainJSON(e)) // a member the design does not have
				continue
			}
			out[spec.Norm(at.Name)] = jsonToTree(sp, at.Type, e, depth+1)
		}
		return out
	case spec.Array:
		xa, ok := x.([]any)
		if !ok {
			return misfit()
		}
		out := make([]any, len(xa))
		for i := range xa {
			out[i] = jsonToTree(sp, rtp.Elem.Type, xa[i], depth+1)
		}
		return out
	case spec.Map:
		xo, ok := x.(map[string]any)
		if !ok {
			return misfit()
		}
		out := map[string]any{}
		for k, e := range xo {
			// JSON object keys are strings: read the key back as the key type's kind
			key := jsonToTree(sp, rtp.Key.Type, keyJSON(sp, rtp.Key.Type, k), depth+1)
			ks, _ := key.(string)
			out[ks] = jsonToTree(sp, rtp.Elem.Type, e, depth+1)
		}
		return vtree.MkMap(out)
	case spec.Any:
		return vtree.A(plainJSON(x))
	case spec.Boolean:
		if b, ok := x.(bool); ok {
			return vtree.B(b)
		}
	case spec.String:
		if v, ok := x.(string); ok {
			return vtree.S(v)
		}
	case spec.Bytes:
		if v, ok := x.(string); ok {
			return "y:" + v
		}
	case spec.Int, spec.Int32, spec.Int64, spec.UInt, spec.UInt32, spec.UInt64:
		if n, ok := x.(json.Number); ok && !strings.ContainsAny(n.String(), ".eE") {
			if strings.HasPrefix(rtp.Kind, "uint") {
				return "u:" + n.String()
			}
			return "i:" + n.String()
		}
	case spec.Float32:
		if n, ok := x.(json.Number); ok {
			return "f32:" + n.String()
		}
	case spec.Float64:
		if n, ok := x.(json.Number); ok {
			return "f:" + n.String()
		}
	}
	return misfit()
}

// keyJSON reads a JSON object key as a JSON value of the map's key kind.
func keyJSON(sp *spec.Spec, t *spec.Type, k string) any {
	rtp, _ := sp.Resolve(t)
	if rtp == nil {
		rtp = t
	}
	switch {
	case rtp.Kind == spec.Boolean:
		return k == "true"
	case spec.IsNumeric(rtp.Kind):
		return json.Number(k)
	}
	return k
}

// plainJSON turns json.Number leaves into float64 so that the value marshals like encoding/json's default.
func plainJSON(x any) any {
	switch y := x.(type) {
	case json.Number:
		f, _ := y.Float64()
		return f
	case []any:
		o := make([]any, len(y))
		for i := range y {
			o[i] = plainJSON(y[i])
		}
		return o
	case map[string]any:
		o := map[string]any{}
		for k, e := range y {
			o[k] = plainJSON(e)
		}
		return o
	}
	return x
}

// rawFrames parses the text frames a raw client read into trees following the message type.
func rawFrames(sp *spec.Spec, t *spec.Type, frames []string) ([]any, string) {
	var out []any
	for i, f := range frames {
		var x any
		dec := json.NewDecoder(strings.NewReader(f))
		dec.UseNumber()
		if err := dec.Decode(&x); err != nil {
			return out, fmt.Sprintf("frame #%d is not JSON: %s", i, trunc(f, 80))
		}
		tr := jsonToTree(sp, t, x, 0)
		if tr == nil {
			tr = map[string]any{}
		}
		out = append(out, tr)
	}
	return out, ""
}

func expectSeq(sp *spec.Spec, a *spec.Attr, seq []any) []any {
	out := make([]any, len(seq))
	for i, msg := range seq {
		out[i] = rt.NormKeys(Expect(sp, a.Type, msg, nil, nil, 0))
	}
	return out
}

// StreamC02 judges the client -> service direction of a streaming exchange (the handshake payload has been
// judged by the caller).
func StreamC02(sp *spec.Spec, sv *spec.Service, m *spec.Method, ex *rt.Exchange, v *Verdict) {
	if !streamPre(ex, v) {
		return
	}
	sc, rec := ex.Case.Stream, ex.Stream
	if m.StreamP == nil || m.Stream == "server" {
		return // nothing streamed towards the service
	}
	if !validSeq(sp, m.StreamP, sc.Send) {
		v.Inconclusive = "case generator produced a streamed message that does not satisfy the design"
		return
	}
	if ex.ClientOut != nil && ex.ClientOut.Err != nil && rec.ClientOpen == "" {
		// the stub was reached (the caller checked), yet the client got no stream: result side (C03)
		v.Notes = append(v.Notes, "stream-not-opened-at-client")
	}
	var tags []string
	for _, msg := range sc.Send {
		tags = mergeTags(tags, Explain(sp, streamFake(m, m.StreamP), msg))
	}
	sent := len(sc.Send)
	handed := len(rec.ClientSent)
	if sc.RawClient {
		handed = rec.RawSent
	}
	if handed < sent && rec.SendErr == "" {
		// the client's script ended before everything was sent (its Recv failed in a ping-pong, the stream was
		// not opened, a message could not be built): nothing of that is a request-side matter
		v.Inconclusive = "client script stopped before all messages were sent (result side: C03)"
		return
	}
	if !sc.RawClient {
		// what the value builder handed to Send must be what the case scripted, else the lab is at fault
		for i := range rec.ClientSent {
			if i < sent && len(vtree.DiffS(rt.NormKeys(sc.Send[i]), rec.ClientSent[i])) > 0 {
				v.Inconclusive = "value builder: streamed message built differs from the scripted one"
				return
			}
		}
	}
	want := expectSeq(sp, m.StreamP, sc.Send)
	refused := ""
	if rec.StubEnd != "eof" && rec.StubEnd != "count" && rec.StubEndName != "" {
		refused = rec.StubEndName
	}
	if rec.SendErr != "" && refused == "" {
		v.add(fmt.Sprintf("stream:%s:payloads:client-send-error:%s", m.Stream, errClass(rec.SendErr, "")), "the client's Send failed after %d of %d messages: %s", handed, sent, trunc(rec.SendErr, 200))
		return
	}
	compareSeq(sp, v, m.Stream, "payloads", m.StreamP, tags, refused, want, rec.StubRecv)
	// how the stub's reading ended: a client stream is read until io.EOF
	if m.Stream == "client" && len(v.Findings) == 0 && rec.StubEnd != "eof" {
		v.add(fmt.Sprintf("stream:client:payloads:end-not-eof:%s", errClass(rec.StubEnd, rec.StubEndName)), "after the %d messages the service's Recv ended with %q instead of io.EOF", sent, trunc(rec.StubEnd, 200))
	}
	// the frames the generated client wrote: member names are the design's attribute names
	if !sc.RawClient {
		frameNames(v, "wire-placement:stream:member-name:payloads", rec.WireC2S, sc.Send)
	}
}

// StreamC03 judges the service -> client direction of a streaming exchange.
func StreamC03(sp *spec.Spec, sv *spec.Service, m *spec.Method, ex *rt.Exchange) *Verdict {
	v := &Verdict{}
	if ex.BuildErr != "" {
		v.Inconclusive = "value builder: " + ex.BuildErr
		return v
	}
	if ex.StubErr != "" {
		v.Inconclusive = "result builder: " + ex.StubErr
		return v
	}
	if ex.StubIn == nil {
		v.Inconclusive = "request did not reach the stub (C02/C04)"
		return v
	}
	if !streamPre(ex, v) {
		return v
	}
	oc := ex.Case.Outcome
	if oc == nil || oc.Kind != "result" {
		v.Inconclusive = "not a result outcome"
		return v
	}
	sc, rec := ex.Case.Stream, ex.Stream
	kind := m.Stream
	viewed := isViewed(sp, m)
	if viewed {
		ut, _ := cases.ResultUserType(sp, m)
		if requiredObjectOutsideView(sp, ut, viewOf(m, oc), 0) || recursiveResultType(sp, ut) {
			v.Inconclusive = "viewed stream result in the trigger class of a listed C08 finding"
			return v
		}
	}
	var rtags []string
	if ex.Panic != "" {
		v.add("panic:"+panicSite(ex.Panic)+":stream:"+kind, "panic while streaming valid results: %s", firstLine(ex.Panic))
		return v
	}
	if m.Result != nil {
		seq := oc.StreamResults
		if kind == "client" {
			seq = []any{oc.Result}
		}
		if !validSeq(sp, m.Result, seq) {
			v.Inconclusive = "case generator produced a streamed result that does not satisfy the design"
			return v
		}
		for _, msg := range seq {
			rtags = mergeTags(rtags, Explain(sp, streamFake(m, m.Result), msg))
		}
	}
	// the stub's end must have gone to plan, else the result side has nothing to judge
	if kind != "server" && rec.StubEnd != "" && rec.StubEnd != "eof" && rec.StubEnd != "count" {
		v.Inconclusive = "the service's Recv failed before it could answer (C02)"
		return v
	}
	if rec.StubSndErr != "" && rec.RecvEndName == "" {
		// (a Send that fails because the client refused an earlier message and hung up is judged below)
		v.add(fmt.Sprintf("stream:%s:results:service-send-error:%s", kind, errClass(rec.StubSndErr, "")), "the service's Send failed after %d of %d messages: %s", len(rec.StubSent), len(oc.StreamResults), trunc(rec.StubSndErr, 200))
		return v
	}
	// handshake: a stream on which the service sent or read anything was upgraded with 101
	upgraded := len(rec.StubSent) > 0 || len(rec.StubRecv) > 0 || (rec.StubEnd != "" && rec.StubEnd != "count")
	if upgraded && rec.Handshake != 101 {
		v.add(fmt.Sprintf("stream:%s:handshake-status:want-101:got-%d", kind, rec.Handshake), "the service used the stream but the handshake was answered %d", rec.Handshake)
		return v
	}
	if viewed && upgraded && m.Result.View == "" && len(rec.StubSent) > 0 && ex.WireResp != nil {
		// the view the service chose travels in the goa-view header of the handshake response
		gv, has := hdr(ex.WireResp.Header, "goa-view")
		view := viewOf(m, oc)
		switch {
		case (!has || gv == "") && view != "default":
			first := "Send"
			if len(rec.Steps) > 0 && strings.HasPrefix(firstStubStep(rec.Steps), "stub_recv") {
				first = "Recv"
			}
			v.add("stream:"+kind+":goa-view-header-missing:first-call-"+first, "service chose view %q but the handshake response carries no goa-view header (the service's first stream call was %s)", view, first)
			return v // the client cannot know the view: what it reads follows from that
		case has && gv != "" && gv != view:
			v.add("stream:"+kind+":goa-view-header-wrong", "goa-view=%q, service chose %q", gv, view)
			return v
		}
	}
	if !upgraded {
		// the service returned without touching the stream (server stream without messages): the connection is
		// upgraded lazily by the first Send/Recv, so there is no stream the client could read the end of
		v.Notes = append(v.Notes, "stream-never-upgraded")
		if kind != "client" && len(oc.StreamResults) == 0 {
			if ex.ClientOut != nil && ex.ClientOut.Err != nil {
				v.add("stream:"+kind+":empty-stream:never-upgraded", "the service streamed nothing and closed; the handshake was answered %d and the client got an error instead of an empty stream: %s", rec.Handshake, trunc(ex.ClientOut.Err.Message, 200))
			} else if sc.RawClient && rec.ClientOpen == "" {
				v.add("stream:"+kind+":empty-stream:never-upgraded", "the service streamed nothing and closed; the handshake was answered %d instead of 101", rec.Handshake)
			}
			return v
		}
	}
	if !sc.RawClient && ex.ClientOut != nil && ex.ClientOut.Err != nil && rec.ClientOpen == "" {
		v.add(mkKey("refused:"+ex.ClientOut.Err.Name, fmt.Sprintf("stream:%s:client-endpoint-error:%s", kind, errClass(ex.ClientOut.Err.Message, ex.ClientOut.Err.Name)), "", rtags), "the client endpoint returned an error instead of a stream: [%s] %s", ex.ClientOut.Err.GoType, trunc(ex.ClientOut.Err.Message, 200))
		return v
	}
	switch kind {
	case "server", "bidi":
		if m.Result == nil {
			return v
		}
		var want []any
		ut, coll := cases.ResultUserType(sp, m)
		for _, msg := range oc.StreamResults {
			switch {
			case viewed && coll:
				arr, _ := msg.([]any)
				ea := make([]any, len(arr))
				for i := range arr {
					ea[i], _ = project(sp, ut, viewOf(m, oc), arr[i], 0)
				}
				want = append(want, rt.NormKeys(ea))
			case viewed:
				e, _ := project(sp, ut, viewOf(m, oc), msg, 0)
				want = append(want, rt.NormKeys(e))
			default:
				want = append(want, rt.NormKeys(Expect(sp, m.Result.Type, msg, nil, nil, 0)))
			}
		}
		// what the service handed to Send must be what the case scripted
		if len(rec.StubSent) != len(oc.StreamResults) && rec.StubSndErr == "" {
			if !(sc.Proto == "pingpong") {
				v.Inconclusive = "service script stopped early (C02: the service did not receive what it waits for)"
				return v
			}
			want = want[:min(len(want), len(rec.StubSent))]
		}
		got := rec.ClientRecv
		if sc.RawClient {
			var bad string
			got, bad = rawFrames(sp, m.Result.Type, rec.RawRecv)
			if bad != "" {
				v.add(fmt.Sprintf("stream:%s:results:frame-not-json", kind), "%s", bad)
				return v
			}
		}
		refused := ""
		if rec.RecvEnd != "eof" && rec.RecvEndName != "" {
			refused = rec.RecvEndName
		}
		compareSeq(sp, v, kind, "results", m.Result, rtags, refused, want, got)
		if len(v.Findings) == 0 && rec.RecvEnd != "eof" {
			v.add(fmt.Sprintf("stream:%s:results:end-not-eof:%s", kind, errClass(rec.RecvEnd, rec.RecvEndName)), "after the %d messages the client's reading ended with %q instead of io.EOF", len(want), trunc(rec.RecvEnd, 200))
		}
		if !viewed {
			frames := rec.WireS2C
			if sc.RawClient {
				frames = rec.RawRecv
			}
			frameNames(v, "wire-placement:stream:member-name:results", frames, oc.StreamResults[:min(len(oc.StreamResults), len(want))])
		}
	case "client":
		if m.Result == nil {
			if ex.ClientOut != nil && ex.ClientOut.HasRes && !sc.RawClient {
				v.add("stream:client:spurious-result", "client returned a result for a client stream without result")
			}
			if !sc.RawClient && rec.CloseErr != "" {
				v.add(fmt.Sprintf("stream:client:close-error:%s", errClass(rec.CloseErr, "")), "closing the client stream failed: %s", trunc(rec.CloseErr, 200))
			}
			return v
		}
		var want any
		if viewed {
			ut, coll := cases.ResultUserType(sp, m)
			if coll {
				arr, _ := oc.Result.([]any)
				ea := make([]any, len(arr))
				for i := range arr {
					ea[i], _ = project(sp, ut, viewOf(m, oc), arr[i], 0)
				}
				want = rt.NormKeys(ea)
			} else {
				e, _ := project(sp, ut, viewOf(m, oc), oc.Result, 0)
				want = rt.NormKeys(e)
			}
		} else {
			want = rt.NormKeys(Expect(sp, m.Result.Type, oc.Result, nil, nil, 0))
		}
		var got any
		if sc.RawClient {
			if len(rec.RawRecv) == 0 {
				v.add("stream:client:final-result:lost", "the raw client read no frame carrying the final result (reading ended with %q)", trunc(rec.RecvEnd, 120))
				return v
			}
			gs, bad := rawFrames(sp, m.Result.Type, rec.RawRecv[:1])
			if bad != "" {
				v.add("stream:client:results:frame-not-json", "%s", bad)
				return v
			}
			got = gs[0]
			if !viewed {
				frameNames(v, "wire-placement:stream:member-name:results", rec.RawRecv[:1], []any{oc.Result})
			}
		} else {
			if ex.ClientOut == nil {
				v.Inconclusive = "no client outcome recorded"
				return v
			}
			if ex.ClientOut.Err != nil {
				v.add(mkKey("refused:"+ex.ClientOut.Err.Name, fmt.Sprintf("stream:client:final-result-refused:%s", errClass(ex.ClientOut.Err.Message, ex.ClientOut.Err.Name)), "", rtags), "CloseAndRecv returned an error for a valid result %s: %s", vtree.Show(oc.Result), trunc(ex.ClientOut.Err.Message, 200))
				return v
			}
			got = ex.ClientOut.Result
			if !viewed {
				// the last text frame the service wrote carries the final result
				var last []string
				for _, f := range rec.WireS2C {
					if !strings.HasPrefix(f, "<") {
						last = []string{f}
					}
				}
				frameNames(v, "wire-placement:stream:member-name:results", last, []any{oc.Result})
			}
		}
		for _, d := range vtree.DiffS(want, got) {
			nested := ""
			if strings.Count(d.Path, ".")+strings.Count(d.Path, "[")+strings.Count(d.Path, "{") > 1 {
				nested = ":nested"
			}
			v.add(fmt.Sprintf("stream:client:final-result-mismatch:%s%s:%s:%s", cases.MsgKind(sp, m.Result), nested, diffClass(d), valClass(d.Want)), "final result differs at %s", d.String())
		}
	}
	return v
}

// viewOf returns the view a streamed result is rendered with.
func viewOf(m *spec.Method, oc *rt.Outcome) string {
	if m.Result != nil && m.Result.View != "" {
		return m.Result.View
	}
	if oc.View != "" {
		return oc.View
	}
	return "default"
}

// firstStubStep returns the first event of the service's end of the stream.
func firstStubStep(steps []string) string {
	for _, st := range steps {
		if strings.HasPrefix(st, "stub_recv") || strings.HasPrefix(st, "stub_send") {
			return st
		}
	}
	return ""
}
