package oracle

import (
	"encoding/json"
	"fmt"
	"sort"
	"strings"

	"verif.local/lab/cases"
	"verif.local/lab/rt"
	"verif.local/lab/spec"
	"verif.local/lab/vtree"
)

func findView(ut *spec.UserType, name string) *spec.View {
	if name == "" {
		name = "default"
	}
	for _, v := range ut.Views {
		if v.Name == name {
			return v
		}
	}
	return nil
}

// project computes the reference projection of a result value under a view:
// expect is the tree the client must return (with zero-value alternatives for
// attributes outside the view that are non-pointer fields), wire is the set of
// JSON members the body must contain (nested).
func project(sp *spec.Spec, ut *spec.UserType, view string, val any, depth int) (expect any, wire any) {
	v := findView(ut, view)
	o, _ := val.(map[string]any)
	if v == nil || o == nil || depth > 20 {
		return val, nil
	}
	inView := map[string]string{}
	for _, va := range v.Attrs {
		inView[va.Name] = va.View
		if va.View == "" {
			inView[va.Name] = "-"
		}
	}
	exp := map[string]any{}
	w := map[string]any{}
	for _, a := range ut.Def.Attrs {
		av, present := o[a.Name]
		nested, isIn := inView[a.Name]
		if !isIn {
			// outside the view: unset on the client. A non-pointer field cannot be unset: zero is its unset form.
			if z := zeroLeafOf(sp, a.Type); z != nil && (ut.Def.IsRequired(a.Name) || a.HasDef) {
				alts := []any{nil, z}
				if a.HasDef {
					alts = append(alts, a.Default)
				}
				exp[a.Name] = vtree.Alt(alts...)
			} else if a.HasDef && a.Default != nil {
				// a collection with a default: "unset on the client" may show as the default (the rule of C03 for
				// attributes the wire does not carry); seen where the nested type is rebuilt by a generic conversion
				exp[a.Name] = vtree.Alt(nil, a.Default)
			}
			continue
		}
		if !present || av == nil || vtree.Empty(vtree.Norm(av)) {
			w[a.Name] = false // belongs to the view: may appear (null/empty), need not
			if a.HasDef {
				if z := zeroLeafOf(sp, a.Type); z != nil {
					exp[a.Name] = vtree.Alt(a.Default, z)
				} else if !present || av == nil {
					// an unset collection with a default is rendered with the default (an explicitly
					// empty one stays empty)
					exp[a.Name] = a.Default
				}
			}
			continue
		}
		// nested result types are rendered with the view named in the view attribute, else "default"
		t := a.Type
		isArr, isMap := false, false
		if (t.Kind == spec.Array || t.Kind == spec.Map) && t.Elem.Type.Kind == spec.Ref {
			if _, eut := sp.Resolve(t.Elem.Type); eut != nil && eut.Kind == "result" {
				isArr, isMap = t.Kind == spec.Array, t.Kind == spec.Map
				t = t.Elem.Type
			}
		}
		if _, nut := sp.Resolve(t); nut != nil && nut.Kind == "result" && t.Kind == spec.Ref {
			// the view named for the attribute inside the enclosing View wins, then the view the attribute
			// declares in Attributes, then "default"
			nv := "default"
			if nested != "-" {
				nv = nested
			} else if a.View != "" {
				nv = a.View
			}
			if isMap {
				mm, _ := vtree.IsMap(av)
				em, wm := map[string]any{}, map[string]any{}
				for k, e := range mm {
					em[k], wm[cases.TextOf(k)] = project(sp, nut, nv, e, depth+1)
				}
				exp[a.Name], w[a.Name] = vtree.MkMap(em), wm
			} else if isArr {
				arr, _ := av.([]any)
				ea, wa := make([]any, len(arr)), make([]any, len(arr))
				for i := range arr {
					ea[i], wa[i] = project(sp, nut, nv, arr[i], depth+1)
				}
				exp[a.Name], w[a.Name] = ea, wa
			} else {
				exp[a.Name], w[a.Name] = project(sp, nut, nv, av, depth+1)
			}
			continue
		}
		if a.HasDef && vtree.IsZeroLeaf(av) {
			exp[a.Name] = vtree.Alt(av, a.Default)
		} else {
			exp[a.Name] = deepProject(sp, a.Type, av, depth+1)
		}
		w[a.Name] = true
	}
	return exp, w
}

// deepProject is Expect for a value whose type is not a result type itself but may hold result types further down
// (inside inline objects, plain user types, arrays, maps): those are rendered with the view their attribute names,
// else with their default view.
func deepProject(sp *spec.Spec, t *spec.Type, val any, depth int) any {
	base := Expect(sp, t, val, nil, nil, depth)
	rt, _ := sp.Resolve(t)
	if rt == nil || depth > 20 || val == nil {
		return base
	}
	sub := func(a *spec.Attr, v any) any {
		et := a.Type
		if _, nut := sp.Resolve(et); nut != nil && nut.Kind == "result" && et.Kind == spec.Ref {
			nv := "default"
			if a.View != "" {
				nv = a.View
			}
			e, _ := project(sp, nut, nv, v, depth+1)
			return e
		}
		return deepProject(sp, et, v, depth+1)
	}
	switch rt.Kind {
	case spec.Object:
		so, _ := val.(map[string]any)
		bo, _ := base.(map[string]any)
		if so == nil || bo == nil {
			return base
		}
		for _, a := range rt.Attrs {
			if sv, ok := so[a.Name]; ok && sv != nil && !(a.HasDef && vtree.IsZeroLeaf(sv)) {
				bo[a.Name] = sub(a, sv)
			}
		}
		return bo
	case spec.Array:
		sa, _ := val.([]any)
		ba, _ := base.([]any)
		if len(sa) != len(ba) {
			return base
		}
		for i := range sa {
			ba[i] = sub(rt.Elem, sa[i])
		}
		return ba
	case spec.Map:
		sm, ok := vtree.IsMap(val)
		bm, ok2 := vtree.IsMap(base)
		if !ok || !ok2 {
			return base
		}
		for k, e := range sm {
			bm[k] = sub(rt.Elem, e)
		}
		return vtree.MkMap(bm)
	}
	return base
}

// wireKeys compares the JSON members of a body with the reference member set.
func wireKeys(path string, body any, want any, v *Verdict, kindTag string) {
	switch wv := want.(type) {
	case map[string]any:
		bo, ok := body.(map[string]any)
		if !ok {
			if body != nil {
				v.add("view-wire-shape:"+kindTag, "%s: body is not an object", path)
			}
			return
		}
		var keys []string
		for k := range bo {
			keys = append(keys, k)
		}
		sort.Strings(keys)
		for _, k := range keys {
			if _, ok := wv[k]; !ok {
				if bo[k] == nil {
					continue // explicit null == absent
				}
				v.add("view-leak:wire:"+kindTag, "%s.%s is on the wire but outside the selected view", path, k)
			}
		}
		for k, sub := range wv {
			bv, ok := bo[k]
			if sub == false {
				continue
			}
			if !ok || bv == nil {
				v.add("view-attribute-missing:wire:"+kindTag, "%s.%s belongs to the view and was set but is missing on the wire", path, k)
				continue
			}
			if sub != true {
				wireKeys(path+"."+k, bv, sub, v, kindTag+":nested")
			}
		}
	case []any:
		ba, ok := body.([]any)
		if !ok || len(ba) != len(wv) {
			v.add("view-wire-shape:"+kindTag, "%s: collection of %d rendered as %T of different size", path, len(wv), body)
			return
		}
		for i := range wv {
			wireKeys(fmt.Sprintf("%s[%d]", path, i), ba[i], wv[i], v, kindTag)
		}
	}
}

// C08 judges result views.
func C08(sp *spec.Spec, ex *rt.Exchange) *Verdict {
	v := &Verdict{}
	_, m := sp.FindMethod(ex.Case.Svc, ex.Case.Method)
	if m == nil {
		v.Inconclusive = "unknown method"
		return v
	}
	c := ex.Case
	if ex.BuildErr != "" {
		v.Inconclusive = "value builder: " + firstLine(ex.BuildErr)
		return v
	}
	if ex.StubErr != "" {
		v.Inconclusive = "result builder: " + firstLine(ex.StubErr)
		return v
	}
	if ex.StubIn == nil {
		v.Inconclusive = "request did not reach the stub (C02/C04)"
		return v
	}
	ut, coll := cases.ResultUserType(sp, m)
	if ut == nil {
		v.Inconclusive = "not a viewed result"
		return v
	}
	oc := c.Outcome
	if oc != nil && oc.Kind == "result" && m.Result != nil {
		// the scripted result must satisfy the design (the case generator's duty): otherwise nothing is decided
		var viol []Violation
		var und []string
		Validate(sp, m.Result.Type, m.Result.Val, oc.Result, "", &viol, &und, 0)
		if len(viol) > 0 || len(und) > 0 {
			v.Inconclusive = "case generator produced a result that does not satisfy the design"
			return v
		}
	}
	if ex.Panic != "" {
		tags := ExplainResult(sp, m, oc.Result)
		if requiredObjectOutsideView(sp, ut, oc.View, 0) {
			tags = append(tags, "required-object-outside-view")
		}
		v.add(mkKey("panic", "panic:"+panicSite(ex.Panic)+":"+c.Class, "", tags), "panic: %s", firstLine(ex.Panic))
		return v
	}
	if ex.WireResp == nil || ex.ClientOut == nil {
		v.Inconclusive = "no response"
		return v
	}
	view := oc.View
	fixed := m.Result.View != ""
	kindTag := "single"
	if coll {
		kindTag = "collection"
	}
	if c.Class == "relabel" {
		lab := noteStr(c, "relabel")
		if findView(ut, lab) == nil {
			if ex.ClientOut.Err == nil {
				v.add("undefined-view-accepted-by-client:"+kindTag, "response relabelled with undefined view %q was accepted by the client", lab)
			}
		}
		return v
	}
	// goa-view header
	gv, has := hdr(ex.WireResp.Header, "goa-view")
	switch {
	case fixed:
		if has && gv != "" && gv != view {
			v.add("goa-view-header-wrong:fixed-view", "goa-view=%q although the design fixes view %q", gv, view)
		}
	case !has || gv == "":
		if view != "default" && view != "" {
			v.add("goa-view-header-missing:"+kindTag, "service chose view %q but the response carries no goa-view header", view)
		}
	case gv != view && !(gv == "default" && view == ""):
		v.add("goa-view-header-wrong:"+kindTag, "goa-view=%q, service chose %q", gv, view)
	}
	// reference projection
	var exp, wire any
	if coll {
		arr, _ := oc.Result.([]any)
		ea, wa := make([]any, len(arr)), make([]any, len(arr))
		for i := range arr {
			ea[i], wa[i] = project(sp, ut, view, arr[i], 0)
		}
		exp, wire = ea, wa
	} else {
		exp, wire = project(sp, ut, view, oc.Result, 0)
	}
	var body any
	if len(ex.WireResp.Body) > 0 {
		if err := json.Unmarshal(ex.WireResp.Body, &body); err != nil {
			v.add("view-body-not-json", "response body does not parse: %v", err)
			return v
		}
	}
	if ex.WireResp.Status >= 400 {
		tags := ExplainResult(sp, m, oc.Result)
		v.add(mkKey("rejected:"+errorNameOf(ex.WireResp), fmt.Sprintf("viewed-result-not-delivered:%d-%s", ex.WireResp.Status, errorNameOf(ex.WireResp)), kindTag, tags), "server answered %d for a valid viewed result: %s", ex.WireResp.Status, trunc(string(ex.WireResp.Body), 200))
		return v
	}
	// response headers/cookies are not part of the body member check
	var rtags []string
	if recursiveResultType(sp, ut) {
		rtags = []string{"recursive-result-type"}
	}
	before := len(v.Findings)
	wireKeys("", body, wire, v, kindTag)
	for i := before; i < len(v.Findings); i++ {
		if strings.Contains(v.Findings[i].Key, ":nested") {
			v.Findings[i].Key = mkKey("view:nested", v.Findings[i].Key, "", rtags)
		}
	}
	if ex.ClientOut.Err != nil {
		tags := ExplainResult(sp, m, oc.Result)
		v.add(mkKey("refused:"+ex.ClientOut.Err.Name, "valid-viewed-result-refused-by-client:"+ex.ClientOut.Err.Name, kindTag, tags), "client refused a valid result under view %q: %s", view, trunc(ex.ClientOut.Err.Message, 200))
		return v
	}
	for _, d := range vtree.DiffS(rt.NormKeys(exp), ex.ClientOut.Result) {
		cls := diffClass(d)
		key := fmt.Sprintf("view-client-value:%s:%s:%s", kindTag, cls, valClass(d.Want))
		if strings.Count(d.Path, ".") > 1 {
			key = mkKey("view:nested", key+":nested", "", rtags)
		}
		v.add(key, "client value under view %q differs at %s", view, d.String())
	}
	return v
}

var _ = spec.Norm

// requiredObjectOutsideView reports whether the view omits a required attribute whose type is an
// object user type (trigger class of a listed finding: the client builds it without a nil check).
func requiredObjectOutsideView(sp *spec.Spec, ut *spec.UserType, view string, depth int) bool {
	v := findView(ut, view)
	if v == nil || depth > 6 {
		return false
	}
	in := map[string]string{}
	for _, va := range v.Attrs {
		in[va.Name] = va.View
	}
	for _, a := range ut.Def.Attrs {
		at := a.Type
		if (at.Kind == spec.Array || at.Kind == spec.Map) && at.Elem != nil && at.Elem.Type.Kind == spec.Ref {
			at = at.Elem.Type // elements of a collection of result types are converted one by one
		}
		rt, aut := sp.Resolve(at)
		nv, isIn := in[a.Name]
		if !isIn {
			// the generated client converts required (and defaulted) attributes without a nil check
			if ut.Def.IsRequired(a.Name) || a.HasDef {
				return true
			}
			_ = rt
			continue
		}
		if aut != nil && aut.Kind == "result" {
			if nv == "" {
				nv = "default"
				if a.View != "" {
					nv = a.View
				}
			}
			if requiredObjectOutsideView(sp, aut, nv, depth+1) {
				return true
			}
			continue
		}
		// result types further down (inside inline objects, plain user types, collections) are rendered
		// with the view their attribute names, else with their default view
		if deepRequiredOutside(sp, a.Type, depth+1) {
			return true
		}
	}
	return false
}

func deepRequiredOutside(sp *spec.Spec, t *spec.Type, depth int) bool {
	rt, _ := sp.Resolve(t)
	if rt == nil || depth > 6 {
		return false
	}
	check := func(a *spec.Attr) bool {
		if _, nut := sp.Resolve(a.Type); nut != nil && nut.Kind == "result" && a.Type.Kind == spec.Ref {
			nv := "default"
			if a.View != "" {
				nv = a.View
			}
			return requiredObjectOutsideView(sp, nut, nv, depth+1)
		}
		return deepRequiredOutside(sp, a.Type, depth+1)
	}
	switch rt.Kind {
	case spec.Object:
		for _, a := range rt.Attrs {
			if check(a) {
				return true
			}
		}
	case spec.Array, spec.Map:
		if rt.Elem != nil {
			return check(rt.Elem)
		}
	}
	return false
}

// recursiveResultType reports whether a result type can reach itself through result-typed attributes
// (trigger class of a listed finding: nested views of recursive result types are projected with the wrong view).
func recursiveResultType(sp *spec.Spec, ut *spec.UserType) bool {
	seen := map[string]bool{}
	// refs collects the user types an attribute type refers to through arrays, maps and inline objects
	var refs func(t *spec.Type, depth int, out *[]string)
	refs = func(t *spec.Type, depth int, out *[]string) {
		if t == nil || depth > 8 {
			return
		}
		switch t.Kind {
		case spec.Ref:
			*out = append(*out, t.Ref)
		case spec.Array, spec.Map:
			if t.Elem != nil {
				refs(t.Elem.Type, depth+1, out)
			}
		case spec.Object:
			for _, a := range t.Attrs {
				refs(a.Type, depth+1, out)
			}
		}
	}
	var walk func(t *spec.UserType) bool
	walk = func(t *spec.UserType) bool {
		var rs []string
		refs(t.Def, 0, &rs)
		for _, r := range rs {
			n := sp.Type(r)
			if n == nil || n.Kind != "result" {
				continue
			}
			if n.Name == ut.Name {
				return true
			}
			if !seen[n.Name] {
				seen[n.Name] = true
				if walk(n) {
					return true
				}
			}
		}
		return false
	}
	return walk(ut)
}
