package oracle

import (
	"encoding/json"
	"fmt"
	"sort"
	"strconv"
	"strings"

	"verif.local/lab/cases"
	"verif.local/lab/rt"
	"verif.local/lab/spec"
	"verif.local/lab/valgen"
	"verif.local/lab/vtree"
)

// C10 runtime oracle (second sentence of the property): decides one recorded gRPC exchange from the spec
// alone. Expected trees are the trees the case generator sent (+ declared defaults for attributes a
// hand-built message leaves unset); validity is decided by the reference validator (validate.go). No goa
// code is involved.
//
// proto3 loss model applied to BOTH sides (vtree.Norm): an empty array / map / bytes value is the same as
// an absent one; an unset message is absent, a set-but-empty one equals an absent one only where every
// attribute of it is absent.

// GVerdict is the decision on one gRPC exchange.
type GVerdict struct {
	Inconclusive string
	Findings     []Finding
	Clauses      []string            // clauses decided by this exchange (held or violated)
	Seen         map[string][]string // evidence sets (set name -> members)
	Ambiguous    []string            // ambiguity classes used (the statement admits both outcomes)
}

func (v *GVerdict) add(key, format string, a ...any) {
	v.Findings = append(v.Findings, Finding{Key: key, What: fmt.Sprintf(format, a...)})
}
func (v *GVerdict) clause(c string) { v.Clauses = append(v.Clauses, c) }
func (v *GVerdict) seen(set, member string) {
	if v.Seen == nil {
		v.Seen = map[string][]string{}
	}
	v.Seen[set] = append(v.Seen[set], member)
}

// expectG computes the tree the receiving side must observe for `sent`: identical, plus the declared
// default of every optional attribute left unset.
func expectG(sp *spec.Spec, t *spec.Type, sent any, depth int) any {
	rt, _ := sp.Resolve(t)
	if rt == nil {
		rt = t
	}
	if depth > 40 || sent == nil {
		return sent
	}
	switch rt.Kind {
	case spec.Object:
		so, ok := sent.(map[string]any)
		if !ok {
			return sent
		}
		out := map[string]any{}
		for _, a := range rt.Attrs {
			sv := so[a.Name]
			switch {
			case sv == nil && a.HasDef:
				out[a.Name] = a.Default
			case sv == nil:
			case a.Type.Kind == spec.Union:
				if n, uv, ok := vtree.IsUnion(sv); ok {
					if alt := a.Type.Attr(n); alt != nil {
						out[a.Name] = map[string]any{"$union": n, "$value": expectG(sp, alt.Type, uv, depth+1)}
						continue
					}
				}
				out[a.Name] = sv
			default:
				out[a.Name] = expectG(sp, a.Type, sv, depth+1)
			}
		}
		return out
	case spec.Array:
		sa, ok := sent.([]any)
		if !ok {
			return sent
		}
		out := make([]any, len(sa))
		for i := range sa {
			out[i] = expectG(sp, rt.Elem.Type, sa[i], depth+1)
		}
		return out
	case spec.Map:
		sm, ok := vtree.IsMap(sent)
		if !ok {
			return sent
		}
		out := map[string]any{}
		for k, e := range sm {
			out[k] = expectG(sp, rt.Elem.Type, e, depth+1)
		}
		return vtree.MkMap(out)
	}
	return sent
}

// goTypeBase strips pointer and package from a Go type string ("*unions.Point" -> "Point").
func goTypeBase(s string) string {
	s = strings.TrimLeft(s, "*")
	if i := strings.LastIndexByte(s, '.'); i >= 0 {
		s = s[i+1:]
	}
	return s
}

// normUnionsG rewrites the {"$union": <Go type>} nodes of a tree read from generated service types into
// {"$union": <alternative name>} using the design: goa names the Go type of a primitive alternative after the
// union attribute and the alternative, a user type alternative is the user type itself.
func normUnionsG(sp *spec.Spec, t *spec.Type, got any, depth int) any {
	rt, _ := sp.Resolve(t)
	if rt == nil || got == nil || depth > 40 {
		return got
	}
	switch rt.Kind {
	case spec.Object:
		o, ok := got.(map[string]any)
		if !ok {
			return got
		}
		out := map[string]any{}
		for k, e := range o {
			out[k] = e
		}
		for _, a := range rt.Attrs {
			k := spec.Norm(a.Name)
			e, ok := out[k]
			if !ok {
				continue
			}
			if a.Type.Kind == spec.Union {
				if gt, uv, isU := vtree.IsUnion(e); isU {
					base := spec.Norm(goTypeBase(gt))
					for _, alt := range a.Type.Attrs {
						if base == spec.Norm(a.Name)+spec.Norm(alt.Name) || (alt.Type.Kind == spec.Ref && base == spec.Norm(alt.Type.Ref)) {
							out[k] = map[string]any{"$union": alt.Name, "$value": normUnionsG(sp, alt.Type, uv, depth+1)}
							break
						}
					}
				}
				continue
			}
			out[k] = normUnionsG(sp, a.Type, e, depth+1)
		}
		return out
	case spec.Array:
		arr, ok := got.([]any)
		if !ok {
			return got
		}
		out := make([]any, len(arr))
		for i := range arr {
			out[i] = normUnionsG(sp, rt.Elem.Type, arr[i], depth+1)
		}
		return out
	case spec.Map:
		m, ok := vtree.IsMap(got)
		if !ok {
			return got
		}
		out := map[string]any{}
		for k, e := range m {
			out[k] = normUnionsG(sp, rt.Elem.Type, e, depth+1)
		}
		return vtree.MkMap(out)
	}
	return got
}

// explainG names the classes of a VALID value that proto3 cannot carry faithfully or that a triaged goa
// defect rejects (keys of "valid value rejected" findings name the class, not the value).
func explainG(sp *spec.Spec, t *spec.Type, v any) []string {
	tags := map[string]bool{}
	var walk func(t *spec.Type, v any, inColl bool, depth int)
	walk = func(t *spec.Type, v any, inColl bool, depth int) {
		rt, _ := sp.Resolve(t)
		if rt == nil || depth > 40 {
			return
		}
		switch rt.Kind {
		case spec.Object:
			o, _ := v.(map[string]any)
			if o == nil {
				return
			}
			for _, a := range rt.Attrs {
				av, present := o[a.Name]
				at, _ := sp.Resolve(a.Type)
				if at == nil {
					continue
				}
				coll := at.Kind == spec.Array || at.Kind == spec.Map || at.Kind == spec.Bytes
				if coll && rt.IsRequired(a.Name) && present && vtree.Empty(vtree.Norm(av)) {
					tags["required-empty-collection"] = true
				}
				if coll && !rt.IsRequired(a.Name) && (!present || vtree.Empty(vtree.Norm(av))) {
					if mv := mergeAll(valgen.AllVals(sp, a.Type, a.Val)); mv.MinLen != nil && *mv.MinLen >= 1 {
						// an optional collection with MinLength >= 1 left unset: absent and valid by the design,
						// indistinguishable from an (invalid) empty one on a proto3 wire
						tags["absent-collection-minlen"] = true
					}
				}
				if present {
					walk(a.Type, av, false, depth+1)
				}
			}
		case spec.Array:
			arr, _ := v.([]any)
			if inColl && len(arr) == 0 {
				tags["nested-empty-collection"] = true
			}
			for _, e := range arr {
				walk(rt.Elem.Type, e, true, depth+1)
			}
		case spec.Map:
			mm, ok := vtree.IsMap(v)
			if ok && inColl && len(mm) == 0 {
				tags["nested-empty-collection"] = true
			}
			for _, e := range mm {
				walk(rt.Elem.Type, e, true, depth+1)
			}
		case spec.Union:
			if n, uv, ok := vtree.IsUnion(v); ok {
				if alt := rt.Attr(n); alt != nil {
					walk(alt.Type, uv, false, depth+1)
				}
			}
		}
	}
	walk(t, v, false, 0)
	var out []string
	for k := range tags {
		out = append(out, k)
	}
	sort.Strings(out)
	return out
}

// Trigger classes (the idea of c04.go): when the input of an exchange belongs to the trigger class of a triaged
// root cause AND that root cause can account for this class of symptom, the key names the pair
// (rt:trigger:<class>:<symptom>); otherwise the key is the granular description. A listed finding thus
// suppresses exactly one (root cause x symptom) pair.
var gExplains = map[string]map[string]bool{
	"nested-empty-collection":  {"request-rejected": true, "stream-c2s-rejected": true, "result-refused": true, "stream-s2c-refused": true},
	"absent-collection-minlen": {"request-rejected": true, "stream-c2s-rejected": true, "result-refused": true, "stream-s2c-refused": true},
	"both-exclusive-bounds":    {"invalid-reached-stub": true, "invalid-result-accepted": true},
	// an attribute mapped to Metadata that declares a default, left out of a hand-built request: the generated
	// decoder validates and forwards the zero value instead of the default
	"metadata-default-absent": {"request-rejected": true, "default-not-applied": true},
	"shared-wrapper-validation": {"request-rejected": true, "stream-c2s-rejected": true, "result-refused": true, "stream-s2c-refused": true,
		"invalid-reached-stub": true, "invalid-result-accepted": true},
}
var gTagOrder = []string{"both-exclusive-bounds", "metadata-default-absent", "absent-collection-minlen", "nested-empty-collection", "shared-wrapper-validation"}

func gKey(symptom, granular string, tags []string) string {
	for _, t := range gTagOrder {
		if hasTag(tags, t) && gExplains[t][symptom] {
			return "rt:trigger:" + t + ":" + symptom
		}
	}
	return granular
}

// ---- trigger class shared-wrapper-validation
//
// goa turns a collection nested in a collection into a wrapper message named after the element types only
// (ArrayOfString, MapOfStringSint32 ...: grpc/docs/FAQ.md). Two nested collections of one service that have the
// same structure share that message - and ONE validation function, generated from whichever attribute came first.
// The other attribute is then validated against the wrong rules: its valid values are rejected, its invalid ones
// accepted. The trigger class is computed from the design alone: the value holds a nested collection whose
// structure is used, somewhere in the same service, with a different set of validations.

func collSig(sp *spec.Spec, t *spec.Type, depth int) string {
	rt, _ := sp.Resolve(t)
	if rt == nil || depth > 20 {
		return "?"
	}
	switch rt.Kind {
	case spec.Array:
		return "array<" + collSig(sp, rt.Elem.Type, depth+1) + ">"
	case spec.Map:
		return "map<" + collSig(sp, rt.Key.Type, depth+1) + "," + collSig(sp, rt.Elem.Type, depth+1) + ">"
	case spec.Int, spec.Int32:
		return "sint32"
	case spec.UInt, spec.UInt32:
		return "uint32"
	case spec.Object, spec.Union:
		if t.Kind == spec.Ref {
			return "msg:" + t.Ref
		}
		return "msg"
	}
	return rt.Kind
}

func valSig(sp *spec.Spec, a *spec.Attr, depth int) string {
	if a == nil || depth > 20 {
		return ""
	}
	var parts []string
	for _, v := range valgen.AllVals(sp, a.Type, a.Val) {
		b, _ := json.Marshal(v)
		parts = append(parts, string(b))
	}
	out := strings.Join(parts, "&")
	rt, _ := sp.Resolve(a.Type)
	if rt != nil {
		switch rt.Kind {
		case spec.Array:
			out += "[" + valSig(sp, rt.Elem, depth+1) + "]"
		case spec.Map:
			out += "{" + valSig(sp, rt.Key, depth+1) + ":" + valSig(sp, rt.Elem, depth+1) + "}"
		}
	}
	return out
}

func isColl(sp *spec.Spec, t *spec.Type) bool {
	rt, _ := sp.Resolve(t)
	return rt != nil && (rt.Kind == spec.Array || rt.Kind == spec.Map)
}

// sharedWrappers returns the structures of nested collections that occur in the service with more than one
// set of validations.
func sharedWrappers(sp *spec.Spec, sv *spec.Service) map[string]bool {
	vals := map[string]map[string]bool{}
	seen := map[string]bool{}
	var walk func(a *spec.Attr, inColl bool, depth int)
	walk = func(a *spec.Attr, inColl bool, depth int) {
		if a == nil || a.Type == nil || depth > 30 {
			return
		}
		if a.Type.Kind == spec.Ref {
			ut := sp.Type(a.Type.Ref)
			if ut == nil {
				return
			}
			if ut.Kind != "alias" && ut.Def != nil && ut.Def.Kind == spec.Object {
				if seen[a.Type.Ref] {
					return
				}
				seen[a.Type.Ref] = true
			}
		}
		rt, _ := sp.Resolve(a.Type)
		if rt == nil {
			return
		}
		switch rt.Kind {
		case spec.Array, spec.Map:
			if inColl {
				sig := collSig(sp, a.Type, 0)
				if vals[sig] == nil {
					vals[sig] = map[string]bool{}
				}
				vals[sig][valSig(sp, a, 0)] = true
			}
			walk(rt.Elem, true, depth+1)
		case spec.Object, spec.Union:
			for _, at := range rt.Attrs {
				walk(at, false, depth+1)
			}
		}
	}
	for _, m := range sv.Methods {
		for _, a := range []*spec.Attr{m.Payload, m.StreamP, m.Result} {
			walk(a, false, 0)
		}
	}
	out := map[string]bool{}
	for sig, vs := range vals {
		if len(vs) > 1 {
			out[sig] = true
		}
	}
	return out
}

// holdsShared reports whether v holds a nested collection of one of the given structures.
func holdsShared(sp *spec.Spec, t *spec.Type, v any, shared map[string]bool, inColl bool, depth int) bool {
	rt, _ := sp.Resolve(t)
	if rt == nil || v == nil || depth > 40 || len(shared) == 0 {
		return false
	}
	switch rt.Kind {
	case spec.Array:
		if inColl && shared[collSig(sp, t, 0)] {
			return true
		}
		arr, _ := v.([]any)
		for _, e := range arr {
			if holdsShared(sp, rt.Elem.Type, e, shared, true, depth+1) {
				return true
			}
		}
	case spec.Map:
		if inColl && shared[collSig(sp, t, 0)] {
			return true
		}
		if m, ok := vtree.IsMap(v); ok {
			for _, e := range m {
				if holdsShared(sp, rt.Elem.Type, e, shared, true, depth+1) {
					return true
				}
			}
		}
	case spec.Object:
		o, _ := v.(map[string]any)
		for _, a := range rt.Attrs {
			if holdsShared(sp, a.Type, o[a.Name], shared, false, depth+1) {
				return true
			}
		}
	case spec.Union:
		if n, uv, ok := vtree.IsUnion(v); ok {
			if alt := rt.Attr(n); alt != nil {
				return holdsShared(sp, alt.Type, uv, shared, false, depth+1)
			}
		}
	}
	return false
}

func sharedTag(sp *spec.Spec, sv *spec.Service, a *spec.Attr, vals ...any) []string {
	if a == nil || sv == nil {
		return nil
	}
	shared := sharedWrappers(sp, sv)
	for _, v := range vals {
		if holdsShared(sp, a.Type, v, shared, false, 0) {
			return []string{"shared-wrapper-validation"}
		}
	}
	return nil
}

// exclMaxIgnored reports whether v holds, somewhere, a number that is >= the ExclusiveMaximum of an attribute
// that ALSO declares an ExclusiveMinimum (trigger class both-exclusive-bounds: goa emits the minimum check twice).
func exclMaxIgnored(sp *spec.Spec, t *spec.Type, val *spec.Val, v any, depth int) bool {
	rt, _ := sp.Resolve(t)
	if rt == nil || v == nil || depth > 40 {
		return false
	}
	var lo, hi *float64
	for _, m := range valgen.AllVals(sp, t, val) {
		if m.ExclMin != nil {
			lo = m.ExclMin
		}
		if m.ExclMax != nil {
			hi = m.ExclMax
		}
	}
	if f, ok := vtree.Float(v); ok && lo != nil && hi != nil && f >= *hi {
		return true
	}
	switch rt.Kind {
	case spec.Object:
		o, _ := v.(map[string]any)
		for _, a := range rt.Attrs {
			if exclMaxIgnored(sp, a.Type, a.Val, o[a.Name], depth+1) {
				return true
			}
		}
	case spec.Union:
		if alt, uv, ok := vtree.IsUnion(v); ok {
			for _, a := range rt.Attrs {
				if a.Name == alt && exclMaxIgnored(sp, a.Type, a.Val, uv, depth+1) {
					return true
				}
			}
		}
	case spec.Array:
		arr, _ := v.([]any)
		for _, e := range arr {
			if exclMaxIgnored(sp, rt.Elem.Type, rt.Elem.Val, e, depth+1) {
				return true
			}
		}
	case spec.Map:
		if m, ok := vtree.IsMap(v); ok {
			for k, e := range m {
				if exclMaxIgnored(sp, rt.Key.Type, rt.Key.Val, k, depth+1) || exclMaxIgnored(sp, rt.Elem.Type, rt.Elem.Val, e, depth+1) {
					return true
				}
			}
		}
	}
	return false
}

func exclTags(sp *spec.Spec, sv *spec.Service, a *spec.Attr, v any) []string {
	var out []string
	if a != nil && exclMaxIgnored(sp, a.Type, a.Val, v, 0) {
		out = append(out, "both-exclusive-bounds")
	}
	return append(out, sharedTag(sp, sv, a, v)...)
}

// gShape says where in a value a rule was broken: the value itself (a primitive or collection payload /
// result / streamed message), a top-level attribute, or something nested deeper.
func gShape(sp *spec.Spec, t *spec.Type, path, vkind string) string {
	rt, _ := sp.Resolve(t)
	body := "object"
	if rt != nil {
		switch {
		case spec.IsPrim(rt.Kind):
			body = "primitive-body"
		case rt.Kind == spec.Array || rt.Kind == spec.Map:
			body = "collection-body"
		}
	}
	n := strings.Count(path, ".") + strings.Count(path, "[") + strings.Count(path, "{")
	for _, pair := range []string{"][", "]{", "}[", "}{"} {
		if strings.Contains(path, pair) {
			return "nested-collection" // an element of a collection that is itself an element of a collection
		}
	}
	if (vkind == spec.Array || vkind == spec.Map) && (strings.HasSuffix(path, "]") || strings.HasSuffix(path, "}")) {
		return "nested-collection" // a collection that is an element of a collection
	}
	switch {
	case path == "":
		return body
	case body == "collection-body" && n == 1:
		return "collection-body-element"
	case n == 1:
		return "attribute"
	}
	return "nested"
}

// ruleShape renders the (rule, shape) part of a key. Rules broken in the payload / result / streamed message
// ITSELF (a primitive or collection body, or an element of a collection body) or in a collection nested in a
// collection (goa's wrapper messages, shared by name between attributes) are keyed by the shape only: whether
// such a value is validated at all does not depend on the rule.
func ruleShape(rule, where, shape string) string {
	if strings.HasSuffix(shape, "-body") || shape == "collection-body-element" || shape == "nested-collection" {
		return where + ":" + shape
	}
	return rule + ":" + where + ":" + shape
}

func hasTag(tags []string, t string) bool {
	for _, x := range tags {
		if x == t {
			return true
		}
	}
	return false
}

func gTap(ex *rt.GExchange, kind string) []rt.GTap {
	var out []rt.GTap
	for _, t := range ex.Taps {
		if t.Kind == kind {
			out = append(out, t)
		}
	}
	return out
}

func gStatus(ex *rt.GExchange) string {
	if st := gTap(ex, "status"); len(st) > 0 {
		return st[len(st)-1].Code
	}
	return ""
}

// attrInfo describes the attribute a diff path starts at.
func gAttrInfo(sp *spec.Spec, t *spec.Type, path string, meta map[string]string) (loc, kind string) {
	loc, kind = "message", kindOf(sp, t)
	rt, _ := sp.Resolve(t)
	if rt == nil || rt.Kind != spec.Object {
		return
	}
	attr := topAttr(path)
	for _, a := range rt.Attrs {
		if spec.Norm(a.Name) == attr {
			kind = kindOf(sp, a.Type)
			if a.Type.Kind == spec.Union {
				kind = "union"
			}
			if a.HasDef {
				kind += "+default"
			}
			if l, ok := meta[a.Name]; ok {
				loc = l
			}
		}
	}
	return
}

func nestedSuffix(path string) string {
	if strings.Count(path, ".")+strings.Count(path, "[")+strings.Count(path, "{") > 1 {
		return ":nested"
	}
	return ""
}

// diffKeysG turns the differences between want and got into findings.
// sentLacks reports whether the top-level attribute a diff path starts at is absent from the sent tree.
func sentLacks(sent any, path string) bool {
	o, ok := sent.(map[string]any)
	if !ok {
		return false
	}
	attr := topAttr(path)
	for k, e := range o {
		if spec.Norm(k) == attr && e != nil {
			return false
		}
	}
	return true
}

func diffKeysG(v *GVerdict, sp *spec.Spec, t *spec.Type, sent, want, got any, prefix string, meta map[string]string, what string) {
	for _, d := range vtree.DiffS(want, got) {
		loc, kind := gAttrInfo(sp, t, d.Path, meta)
		if strings.HasSuffix(prefix, ":wide-int") {
			// one key per integer kind: the class is "value beyond 32 bits", wherever it sits
			k := "int"
			if vtree.Kind(d.Want) == "u" {
				k = "uint"
			}
			v.add(prefix+":"+k, "%s differs at %s", what, d.String())
			continue
		}
		if strings.Contains(kind, "+default") && sentLacks(sent, d.Path) {
			// the attribute was left unset: the declared default must have been supplied
			var dt []string
			if loc == "metadata" {
				dt = []string{"metadata-default-absent"}
			}
			v.add(gKey("default-not-applied", fmt.Sprintf("rt:default-not-applied:%s%s", loc, nestedSuffix(d.Path)), dt), "%s: attribute left unset, its declared default did not arrive: %s", what, d.String())
			continue
		}
		v.add(fmt.Sprintf("%s:%s:%s%s:%s:%s", prefix, loc, kind, nestedSuffix(d.Path), diffClass(d), valClass(d.Want)), "%s differs at %s", what, d.String())
	}
}

// mdValueMatches compares a metadata value with the leaf it must carry.
func mdValueMatches(leaf any, got string) bool {
	switch vtree.Kind(leaf) {
	case "f", "f32":
		a, e1 := strconv.ParseFloat(vtree.Text(leaf), 64)
		b, e2 := strconv.ParseFloat(got, 64)
		return e1 == nil && e2 == nil && a == b
	}
	return cases.TextOf(leaf) == got
}

// placementG checks that the attributes mapped to metadata travelled in the metadata block `mdKind` (tap
// event) and not in the message `msgKind`.
func placementG(v *GVerdict, sp *spec.Spec, t *spec.Type, value any, locs []spec.Loc, ex *rt.GExchange, mdKind, msgKind, prefix string, skipMsg bool) {
	if len(locs) == 0 {
		return
	}
	rtp, _ := sp.Resolve(t)
	o, _ := value.(map[string]any)
	if rtp == nil || rtp.Kind != spec.Object || o == nil {
		return
	}
	mds := gTap(ex, mdKind)
	msgs := gTap(ex, msgKind)
	for _, l := range locs {
		a := rtp.Attr(l.Attr)
		if a == nil {
			continue
		}
		kind := kindOf(sp, a.Type)
		sent := o[l.Attr]
		key := strings.ToLower(l.WireName())
		var vals []string
		for _, md := range mds {
			vals = append(vals, md.MD[key]...)
		}
		if arr, isArr := sent.([]any); isArr {
			// an array travels as one metadata value per element, in order; an empty array as absence
			switch {
			case len(arr) != len(vals):
				v.add(fmt.Sprintf("%s:%s:%s:value", prefix, mdKind, kind), "attribute %q=%s travels as %s=%q", l.Attr, vtree.Show(sent), key, vals)
			default:
				for i := range arr {
					if !mdValueMatches(arr[i], vals[i]) {
						v.add(fmt.Sprintf("%s:%s:%s:value", prefix, mdKind, kind), "attribute %q=%s travels as %s=%q", l.Attr, vtree.Show(sent), key, vals)
						break
					}
				}
			}
			continue
		}
		switch {
		case sent == nil && len(vals) > 0 && !a.HasDef:
			v.add(fmt.Sprintf("%s:%s:%s:spurious", prefix, mdKind, kind), "attribute %q is unset but %s carries %s=%q", l.Attr, mdKind, key, vals)
		case sent != nil && len(vals) == 0:
			v.add(fmt.Sprintf("%s:%s:%s:missing", prefix, mdKind, kind), "attribute %q=%s is mapped to %q but the %s block lacks it (block: %v)", l.Attr, vtree.Show(sent), key, mdKind, mds)
		case sent != nil && !mdValueMatches(sent, vals[0]):
			v.add(fmt.Sprintf("%s:%s:%s:value", prefix, mdKind, kind), "attribute %q=%s travels as %s=%q", l.Attr, vtree.Show(sent), key, vals[0])
		}
		for _, mt := range msgs {
			if skipMsg {
				break // the recorded messages are streamed payloads, the payload itself travels as metadata only
			}
			if mo, ok := mt.Msg.(map[string]any); ok {
				if _, in := mo[spec.Norm(l.Attr)]; in {
					v.add(fmt.Sprintf("%s:%s:%s:in-message", prefix, mdKind, kind), "attribute %q is mapped to %s but the %s message (%s) carries it too", l.Attr, mdKind, msgKind, mt.MsgT)
				}
			}
		}
	}
}

func ruleWhere(viol Violation, meta map[string]string) string {
	if l, ok := meta[strings.TrimPrefix(viol.Path, ".")]; ok {
		return l
	}
	return "message"
}

func gValidate(sp *spec.Spec, a *spec.Attr, v any) (viol []Violation, undecided []string) {
	if a == nil {
		return nil, nil
	}
	Validate(sp, a.Type, a.Val, v, "", &viol, &undecided, 0)
	return
}

func gPanicSite(text string) string {
	site := panicSite(text)
	if site == "unknown" {
		// the tap text starts with the panic value, not with "panic(": take the first goa / generated frame
		for _, l := range strings.Split(text, "\n") {
			if !strings.HasPrefix(l, "\t") {
				continue
			}
			l = strings.TrimSpace(l)
			if i := strings.Index(l, " +0x"); i > 0 {
				l = l[:i]
			}
			if strings.Contains(l, "/runtime/") || strings.Contains(l, "/protostub/") || strings.Contains(l, "/reflect/") || strings.Contains(l, "/rtgrpc/") {
				continue
			}
			for _, mark := range []string{"/gen/", "/repo/"} {
				if i := strings.Index(l, mark); i >= 0 {
					l = l[i+1:]
				}
			}
			return FileRoleLine(l)
		}
	}
	return site
}

// C10RT judges one gRPC exchange.
func C10RT(sp *spec.Spec, ex *rt.GExchange) *GVerdict {
	v := &GVerdict{}
	c := ex.Case
	sv, m := sp.FindMethod(c.Svc, c.Method)
	if m == nil {
		v.Inconclusive = "unknown method"
		return v
	}
	if ex.BuildErr != "" {
		v.Inconclusive = "value builder: " + ex.BuildErr
		return v
	}
	for _, s := range ex.Seq {
		if s == "watchdog" {
			v.Inconclusive = "exchange watchdog fired"
			return v
		}
	}
	kind := m.Stream
	if kind == "" {
		kind = "unary"
	}
	for _, t := range ex.Taps {
		v.seen("tap_events", t.Kind)
	}
	// panics anywhere are violations of every clause the exchange was meant to decide
	for _, t := range gTap(ex, "panic") {
		v.clause("panic")
		v.add("rt:panic:server:"+gPanicSite(t.Text), "server side panicked while handling %s.%s (%s): %s", c.Svc, c.Method, c.Class, firstLine(t.Text))
		return v
	}
	if ex.Panic != "" {
		v.clause("panic")
		v.add("rt:panic:client:"+gPanicSite(ex.Panic), "client side panicked in %s.%s (%s): %s", c.Svc, c.Method, c.Class, firstLine(ex.Panic))
		return v
	}
	metaLocs := cases.GMetaLocs(sp, m)
	metaOf := map[string]string{}
	for _, l := range metaLocs {
		metaOf[l.Attr] = "metadata"
	}
	hdr, trl := cases.GRespLocs(m)
	respOf := map[string]string{}
	for _, l := range hdr {
		respOf[l.Attr] = "header"
	}
	for _, l := range trl {
		respOf[l.Attr] = "trailer"
	}
	wide := ""
	if c.Class == "wide-int" {
		wide = ":wide-int"
	}
	// ---------------- validity of what was sent (reference validator)
	var pviol []Violation
	if m.Payload != nil && !c.NoPay {
		var und []string
		pviol, und = gValidate(sp, m.Payload, c.Sent)
		if len(und) > 0 {
			v.Inconclusive = "reference validator cannot decide: " + und[0]
			return v
		}
	}
	firstBad := -1
	var sviol []Violation
	for i, s := range c.Stream {
		vi, und := gValidate(sp, m.StreamP, s)
		if len(und) > 0 {
			v.Inconclusive = "reference validator cannot decide: " + und[0]
			return v
		}
		if len(vi) > 0 && firstBad < 0 {
			firstBad, sviol = i, vi
		}
	}
	if c.Clause != "probe-request" && c.Clause != "probe-stream" && (len(pviol) > 0 || firstBad >= 0) {
		v.Inconclusive = "case generator produced a request that does not satisfy the design"
		return v
	}
	status := gStatus(ex)
	reached := ex.StubIn != nil
	via := "the generated client"
	if c.Mode == "rawpb" {
		via = "a hand-built protobuf message"
	}
	// ---------------- clause 4a/4b: invalid payload
	if len(pviol) > 0 {
		v.clause("reject-request")
		pv := pviol[0]
		where := ruleWhere(pv, metaOf)
		if reached {
			v.add(gKey("invalid-reached-stub", "rt:invalid-message-reached-stub:"+ruleShape(pv.Rule, where, gShape(sp, m.Payload.Type, pv.Path, pv.Kind)), exclTags(sp, sv, m.Payload, c.Sent)),
				"payload sent through %s breaks rule %s at %s (site %v) yet the service method ran with %s", via, pv.Rule, pv.Path, c.Note["site"], vtree.Show(ex.StubIn.Payload))
			return v
		}
		clientErr := ex.ClientOut != nil && (ex.ClientOut.Err != "" || (ex.ClientOut.RecvEnd != "" && ex.ClientOut.RecvEnd != "eof"))
		if !clientErr {
			v.add(fmt.Sprintf("rt:invalid-message-no-error:%s:%s:%s", pv.Rule, where, gShape(sp, m.Payload.Type, pv.Path, pv.Kind)), "payload breaks rule %s at %s, the service method did not run but the caller got no error (status %q)", pv.Rule, pv.Path, status)
			return v
		}
		if status == "" {
			v.seen("reject_codes", "client-side:"+pv.Rule)
		} else {
			v.seen("reject_codes", status+":"+pv.Rule+":"+where)
		}
		return v
	}
	// ---------------- clause 1: valid payload must be delivered intact
	tags := []string{}
	if m.Payload != nil && !c.NoPay {
		tags = append(explainG(sp, m.Payload.Type, c.Sent), sharedTag(sp, sv, m.Payload, c.Sent)...)
	}
	if o, ok := c.Sent.(map[string]any); ok && m.Payload != nil {
		if prt, _ := sp.Resolve(m.Payload.Type); prt != nil && prt.Kind == spec.Object {
			for _, l := range metaLocs {
				if a := prt.Attr(l.Attr); a != nil && a.HasDef && o[l.Attr] == nil {
					tags = append(tags, "metadata-default-absent")
					break
				}
			}
		}
	}
	if !reached {
		if hasTag(tags, "required-empty-collection") {
			v.Ambiguous = append(v.Ambiguous, "required-empty-collection")
			v.clause("request-roundtrip")
			return v
		}
		msg := ""
		if ex.ClientOut != nil {
			msg = ex.ClientOut.Err + ex.ClientOut.RecvEnd
		}
		if c.Clause == "probe-request" {
			v.clause("reject-request")
			v.add(gKey("request-rejected", fmt.Sprintf("rt:valid-probe-rejected:%v:%v:%s", c.Note["rule"], c.Note["side"], status), tags),
				"probe %v keeps the payload valid (%s, sent through %s) but the service method did not run: status %s %s", c.Note["site"], vtree.Show(c.Sent), via, status, trunc(msg, 300))
			return v
		}
		v.clause("request-roundtrip")
		v.add(gKey("request-rejected", fmt.Sprintf("rt:valid-payload-rejected%s:%s", wide, status), tags),
			"valid payload %s sent through %s did not reach the service method: status %s %s", vtree.Show(c.Sent), via, status, trunc(msg, 300))
		return v
	}
	if c.Clause == "probe-request" {
		v.clause("reject-request")
	} else {
		v.clause("request-roundtrip")
	}
	if ex.StubCalls != 1 {
		v.add("rt:service-method-invoked-more-than-once", "service method invoked %d times for one call", ex.StubCalls)
	}
	if m.Payload != nil && !c.NoPay {
		want := rt.NormKeys(expectG(sp, m.Payload.Type, c.Sent, 0))
		got := normUnionsG(sp, m.Payload.Type, ex.StubIn.Payload, 0)
		diffKeysG(v, sp, m.Payload.Type, c.Sent, want, got, "rt:request-mismatch"+wide, metaOf, "payload received by the service method (sent through "+via+")")
		if c.Mode == "client" {
			placementG(v, sp, m.Payload.Type, c.Sent, metaLocs, ex, "req_md", "req", "rt:request-placement", m.StreamP != nil)
		}
	} else if ex.StubIn.HasPayload && ex.StubIn.Payload != nil {
		v.add("rt:spurious-payload", "method has no payload but the service method received %s", vtree.Show(ex.StubIn.Payload))
	}
	// ---------------- clause 3 (client -> server stream) and 4 for streamed messages
	if m.StreamP != nil && (m.Stream == "client" || m.Stream == "bidi") {
		recv := ex.StubIn.Recv
		if firstBad >= 0 {
			v.clause("reject-stream-message")
			bv := sviol[0]
			if len(recv) > firstBad {
				v.add(gKey("invalid-reached-stub", "rt:invalid-message-reached-stub:"+ruleShape(bv.Rule, "stream", gShape(sp, m.StreamP.Type, bv.Path, bv.Kind)), exclTags(sp, sv, m.StreamP, c.Stream[firstBad])),
					"streamed message #%d sent through %s breaks rule %s at %s yet the service method read it from the stream: %s", firstBad, via, bv.Rule, bv.Path, vtree.Show(recv[firstBad]))
			} else {
				v.seen("reject_codes", "stream:"+status+":"+bv.Rule)
			}
			return v
		}
		v.clause("stream-c2s")
		v.seen("stream_kinds_driven", kind)
		if ex.StubIn.RecvEnd != "eof" {
			t := append(explainStream(sp, m.StreamP.Type, c.Stream), sharedTag(sp, sv, m.StreamP, c.Stream...)...)
			if hasTag(t, "required-empty-collection") {
				v.Ambiguous = append(v.Ambiguous, "required-empty-collection")
				return v
			}
			key := "rt:stream-c2s:" + kind + ":recv-error"
			if c.Clause == "probe-stream" {
				key = fmt.Sprintf("rt:valid-probe-rejected:%v:%v:stream", c.Note["rule"], c.Note["side"])
			}
			v.add(gKey("stream-c2s-rejected", key, t), "every streamed message is valid but the service method's Recv ended with %q after %d of %d messages", ex.StubIn.RecvEnd, len(recv), len(c.Stream))
			return v
		}
		if len(recv) != len(c.Stream) {
			cls := "extra"
			if len(recv) < len(c.Stream) {
				cls = "lost"
				if len(recv) == len(c.Stream)-1 {
					cls = "lost-last"
					for i := range recv {
						if len(vtree.DiffS(rt.NormKeys(expectG(sp, m.StreamP.Type, c.Stream[i], 0)), normUnionsG(sp, m.StreamP.Type, recv[i], 0))) > 0 {
							cls = "lost"
						}
					}
				}
			}
			v.add("rt:stream-c2s:"+kind+":count:"+cls, "client sent %d messages, the service method read %d before EOF", len(c.Stream), len(recv))
		} else {
			for i := range recv {
				want := rt.NormKeys(expectG(sp, m.StreamP.Type, c.Stream[i], 0))
				diffKeysG(v, sp, m.StreamP.Type, c.Stream[i], want, normUnionsG(sp, m.StreamP.Type, recv[i], 0), "rt:stream-c2s:"+kind+":mismatch", nil, fmt.Sprintf("streamed message #%d read by the service method", i))
			}
		}
	}
	// ---------------- outcome
	oc := c.Outcome
	if oc == nil {
		oc = &rt.GOutcome{Kind: "result"}
	}
	if oc.Kind == "error" {
		v.clause("declared-error-counted")
		v.seen("error_codes", status)
		return v
	}
	if ex.StubErr != "" {
		v.Inconclusive = "result builder: " + ex.StubErr
		return v
	}
	if c.Mode == "rawpb" {
		// the response comes back as a protobuf message to a hand-written client: not part of the statement
		return v
	}
	co := ex.ClientOut
	if co == nil {
		v.Inconclusive = "no client outcome recorded"
		return v
	}
	s2c := m.Stream == "server" || m.Stream == "bidi"
	if m.Result == nil {
		if co.Err != "" || (co.RecvEnd != "" && co.RecvEnd != "eof") {
			v.clause("response-roundtrip")
			v.add("rt:valid-result-refused:no-result:"+status, "method without result: the caller got an error: %s%s", co.Err, co.RecvEnd)
		}
		return v
	}
	if s2c {
		bad := -1
		var rviol []Violation
		for i, r := range oc.Stream {
			vi, und := gValidate(sp, m.Result, r)
			if len(und) > 0 {
				v.Inconclusive = "reference validator cannot decide: " + und[0]
				return v
			}
			if len(vi) > 0 && bad < 0 {
				bad, rviol = i, vi
			}
		}
		if bad >= 0 {
			if c.Clause != "probe-result" {
				v.Inconclusive = "case generator produced a result that does not satisfy the design"
				return v
			}
			v.clause("reject-result")
			if len(co.Recv) > bad {
				rv := rviol[0]
				v.add(gKey("invalid-result-accepted", "rt:invalid-result-accepted-by-client:"+ruleShape(rv.Rule, "stream", gShape(sp, m.Result.Type, rv.Path, rv.Kind)), exclTags(sp, sv, m.Result, oc.Stream[bad])),
					"streamed result #%d breaks rule %s at %s yet the generated client stream returned it: %s", bad, rv.Rule, rv.Path, vtree.Show(co.Recv[bad]))
			}
			return v
		}
		v.clause("stream-s2c")
		v.seen("stream_kinds_driven", kind)
		if co.Err != "" {
			v.add("rt:stream-s2c:"+kind+":open-error:"+status, "valid exchange but opening the stream failed: %s", co.Err)
			return v
		}
		if co.RecvEnd != "eof" {
			t := append(explainStream(sp, m.Result.Type, oc.Stream), sharedTag(sp, sv, m.Result, oc.Stream...)...)
			if hasTag(t, "required-empty-collection") {
				v.Ambiguous = append(v.Ambiguous, "required-empty-collection")
				return v
			}
			key := "rt:stream-s2c:" + kind + ":recv-error"
			if c.Clause == "probe-result" {
				key = fmt.Sprintf("rt:valid-result-probe-refused:%v:%v:stream", c.Note["rule"], c.Note["side"])
			}
			v.add(gKey("stream-s2c-refused", key, t), "every streamed result is valid but the client's Recv ended with %q after %d of %d messages (stub sent %d, send error %q)", co.RecvEnd, len(co.Recv), len(oc.Stream), ex.StubIn.Sent, ex.StubIn.SendErr)
			return v
		}
		if len(co.Recv) != len(oc.Stream) {
			cls := "extra"
			if len(co.Recv) < len(oc.Stream) {
				cls = "lost"
				if len(co.Recv) == len(oc.Stream)-1 {
					cls = "lost-last"
				}
			}
			v.add("rt:stream-s2c:"+kind+":count:"+cls, "service method sent %d results, the client read %d before EOF", len(oc.Stream), len(co.Recv))
			return v
		}
		for i := range co.Recv {
			want := rt.NormKeys(expectG(sp, m.Result.Type, oc.Stream[i], 0))
			diffKeysG(v, sp, m.Result.Type, oc.Stream[i], want, normUnionsG(sp, m.Result.Type, co.Recv[i], 0), "rt:stream-s2c:"+kind+":mismatch", nil, fmt.Sprintf("streamed result #%d read by the client", i))
		}
		return v
	}
	// unary result or the single result of a client stream
	rviol, und := gValidate(sp, m.Result, oc.Result)
	if len(und) > 0 {
		v.Inconclusive = "reference validator cannot decide: " + und[0]
		return v
	}
	failed := co.Err != "" || (co.RecvEnd != "" && co.RecvEnd != "eof")
	if len(rviol) > 0 {
		if c.Clause != "probe-result" {
			v.Inconclusive = "case generator produced a result that does not satisfy the design"
			return v
		}
		v.clause("reject-result")
		if !failed {
			rv := rviol[0]
			v.add(gKey("invalid-result-accepted", "rt:invalid-result-accepted-by-client:"+ruleShape(rv.Rule, ruleWhere(rv, respOf), gShape(sp, m.Result.Type, rv.Path, rv.Kind)), exclTags(sp, sv, m.Result, oc.Result)),
				"result breaks rule %s at %s yet the generated client returned it: %s", rv.Rule, rv.Path, vtree.Show(co.Result))
		}
		return v
	}
	v.clause("response-roundtrip")
	rtags := append(explainG(sp, m.Result.Type, oc.Result), sharedTag(sp, sv, m.Result, oc.Result)...)
	if failed {
		if hasTag(rtags, "required-empty-collection") {
			v.Ambiguous = append(v.Ambiguous, "required-empty-collection")
			return v
		}
		key := "rt:valid-result-refused:" + status
		if c.Clause == "probe-result" {
			key = fmt.Sprintf("rt:valid-result-probe-refused:%v:%v:%s", c.Note["rule"], c.Note["side"], status)
		}
		v.add(gKey("result-refused", key, rtags), "valid result %s was not returned by the generated client: %s%s (status %s)", vtree.Show(oc.Result), co.Err, co.RecvEnd, status)
		return v
	}
	want := rt.NormKeys(expectG(sp, m.Result.Type, oc.Result, 0))
	diffKeysG(v, sp, m.Result.Type, oc.Result, want, normUnionsG(sp, m.Result.Type, co.Result, 0), "rt:response-mismatch", respOf, "result returned by the generated client")
	placementG(v, sp, m.Result.Type, oc.Result, hdr, ex, "header", "resp", "rt:response-placement", false)
	placementG(v, sp, m.Result.Type, oc.Result, trl, ex, "trailer", "resp", "rt:response-placement", false)
	return v
}

func explainStream(sp *spec.Spec, t *spec.Type, msgs []any) []string {
	set := map[string]bool{}
	for _, m := range msgs {
		for _, tg := range explainG(sp, t, m) {
			set[tg] = true
		}
	}
	var out []string
	for k := range set {
		out = append(out, k)
	}
	sort.Strings(out)
	return out
}

// GShape is the method-shape half of the distinct-case signature.
func GShape(sp *spec.Spec, m *spec.Method) string {
	k := func(a *spec.Attr) string {
		if a == nil {
			return "-"
		}
		return kindOf(sp, a.Type)
	}
	s := m.Stream
	if s == "" {
		s = "unary"
	}
	f := ""
	if len(cases.GMetaLocs(sp, m)) > 0 {
		f += "+md"
	}
	if h, t := cases.GRespLocs(m); len(h)+len(t) > 0 {
		f += "+ht"
	}
	return s + "/" + k(m.Payload) + "/" + k(m.StreamP) + "/" + k(m.Result) + f
}
