package oracle

import (
	"encoding/base64"
	"encoding/json"

	"verif.local/lab/rt"
)

// ErrBody is the default goa error response body.
type ErrBody struct {
	Name      string `json:"name"`
	ID        string `json:"id"`
	Message   string `json:"message"`
	Temporary bool   `json:"temporary"`
	Timeout   bool   `json:"timeout"`
	Fault     bool   `json:"fault"`
}

// DecodeErrBody parses a JSON error body (nil if it is not one).
func DecodeErrBody(b []byte) *ErrBody {
	var e ErrBody
	if err := json.Unmarshal(b, &e); err != nil || e.Name == "" {
		return nil
	}
	return &e
}

func errorNameOf(w *rt.WireResp) string {
	if e := DecodeErrBody(w.Body); e != nil {
		return e.Name
	}
	if h := w.Header["Goa-Error"]; len(h) > 0 {
		return h[0]
	}
	return "?"
}

func decodeB64(s string) []byte {
	b, err := base64.StdEncoding.DecodeString(s)
	if err != nil {
		return nil
	}
	return b
}
