package oracle

import (
	"bytes"
	"errors"
	"io"
	"mime"
	"mime/multipart"
	"strings"

	"verif.local/lab/cases"
	"verif.local/lab/rt"
	"verif.local/lab/spec"
	"verif.local/lab/vtree"
)

// MultipartRequest() endpoints (DESIGN §13.9). goa generates the plumbing; the content of the multipart body
// is written and read by the lab's codec (rt/multipart.go: one part "payload", application/json, the JSON
// object of the body attributes). What the oracles demand of such an exchange:
//
//   - the request announces multipart/form-data with a boundary, and its body IS a complete multipart body
//     under that boundary (stdlib mime/multipart reads it to the closing delimiter);
//   - the part of the codec is there once, and its JSON is judged as the JSON body of any other endpoint is:
//     body attributes inside, under their design names, none of them repeated as a parameter, header or
//     cookie, and no parameter/header/cookie attribute inside;
//   - parameters, headers and cookies travel where the design says, exactly as for any other endpoint;
//   - the payload the service method receives is the payload sent: parameters, headers and cookies with their
//     defaults (the generated code decodes and merges them), body attributes as the codec delivers them — the
//     codec applies no defaults, so a body attribute left out that has a default may arrive unset.

// isMultipart reports whether the method is a MultipartRequest() endpoint.
func isMultipart(m *spec.Method) bool { return m != nil && m.HTTP != nil && m.HTTP.Multipart }

// multipartWire judges the multipart framing of a request the generated client produced and returns a view of
// the wire request whose body is the JSON text of the codec's part (nil when there is none to judge).
func multipartWire(w *rt.WireReq, v *Verdict) *rt.WireReq {
	bad := func(problem, format string, args ...any) {
		v.add("wire-placement:multipart:"+problem, "multipart request: "+format, args...)
	}
	cts := headerVals(w.Header, "Content-Type")
	if len(cts) != 1 {
		bad("content-type:"+map[bool]string{true: "missing", false: "repeated"}[len(cts) == 0], "%d Content-Type headers", len(cts))
		return nil
	}
	mt, params, err := mime.ParseMediaType(cts[0])
	switch {
	case err != nil:
		bad("content-type:unparsable", "Content-Type %q does not parse: %v", cts[0], err)
		return nil
	case mt != "multipart/form-data":
		bad("content-type:not-multipart-form-data", "Content-Type is %q, a MultipartRequest() endpoint sends multipart/form-data", cts[0])
		return nil
	case params["boundary"] == "":
		bad("content-type:no-boundary", "Content-Type %q carries no boundary", cts[0])
		return nil
	}
	mr := multipart.NewReader(bytes.NewReader(w.Body), params["boundary"])
	var part []byte
	found, total := 0, 0
	for {
		p, err := mr.NextPart()
		if errors.Is(err, io.EOF) {
			break
		}
		if err != nil {
			bad("body:incomplete", "the body is not a complete multipart body under boundary %q after %d parts: %v (body: %s)", params["boundary"], total, err, trunc(string(w.Body), 200))
			return nil
		}
		data, err := io.ReadAll(p)
		if err != nil {
			bad("body:incomplete", "part #%d (%q) is cut short: %v (the closing delimiter is missing; body: %s)", total, p.FormName(), err, trunc(string(w.Body), 200))
			return nil
		}
		total++
		if p.FormName() == rt.MultipartPart {
			found++
			part = data
			if pmt, _, perr := mime.ParseMediaType(p.Header.Get("Content-Type")); perr != nil || pmt != "application/json" {
				bad("part:content-type", "part %q is announced as %q", rt.MultipartPart, p.Header.Get("Content-Type"))
			}
		}
	}
	if found != 1 {
		bad("part:count", "%d parts named %q among %d parts, the user encoder wrote one", found, rt.MultipartPart, total)
		return nil
	}
	if total != 1 {
		bad("part:extra", "%d parts on the wire, the user encoder wrote one", total)
	}
	view := *w
	view.Body = part
	return &view
}

// expectUserDecoded is the tree a body attribute of a multipart endpoint must arrive as: the lab's codec
// delivers what was sent; an attribute left out that has a default may arrive unset (zero value for a field
// that cannot be nil) or defaulted — the codec does not apply defaults, the design would.
func expectUserDecoded(sp *spec.Spec, t *spec.Type, sent any, depth int) any {
	rtp, _ := sp.Resolve(t)
	if rtp == nil {
		rtp = t
	}
	if depth > 40 || sent == nil {
		return sent
	}
	switch rtp.Kind {
	case spec.Object:
		so, ok := sent.(map[string]any)
		if !ok {
			return sent
		}
		out := map[string]any{}
		for _, a := range rtp.Attrs {
			sv := so[a.Name]
			switch {
			case sv == nil && a.HasDef:
				if zero := zeroLeafOf(sp, a.Type); zero != nil {
					out[a.Name] = vtree.Alt(a.Default, zero, nil)
				} else {
					out[a.Name] = vtree.Alt(a.Default, nil)
				}
			case sv == nil:
			default:
				out[a.Name] = expectUserDecoded(sp, a.Type, sv, depth+1)
			}
		}
		return out
	case spec.Array:
		sa, ok := sent.([]any)
		if !ok {
			return sent
		}
		out := make([]any, len(sa))
		for i := range sa {
			out[i] = expectUserDecoded(sp, rtp.Elem.Type, sa[i], depth+1)
		}
		return out
	case spec.Map:
		sm, ok := vtree.IsMap(sent)
		if !ok {
			return sent
		}
		out := map[string]any{}
		for k, e := range sm {
			out[k] = expectUserDecoded(sp, rtp.Elem.Type, e, depth+1)
		}
		return vtree.MkMap(out)
	}
	return sent
}

// multipartExpect replaces, in the expected payload tree of a multipart endpoint, the expectation of every
// body attribute by what the lab's codec delivers (parameters, headers and cookies keep theirs).
func multipartExpect(sp *spec.Spec, m *spec.Method, sent, want any) any {
	wo, ok := want.(map[string]any)
	so, _ := sent.(map[string]any)
	if !ok || so == nil {
		return want
	}
	out := map[string]any{}
	for k, e := range wo {
		out[k] = e
	}
	for _, a := range cases.BodyAttrs(sp, m) {
		delete(out, a.Name)
		sv := so[a.Name]
		switch {
		case sv == nil && a.HasDef:
			if zero := zeroLeafOf(sp, a.Type); zero != nil {
				out[a.Name] = vtree.Alt(a.Default, zero, nil)
			} else {
				out[a.Name] = vtree.Alt(a.Default, nil)
			}
		case sv == nil:
		default:
			out[a.Name] = expectUserDecoded(sp, a.Type, sv, 1)
		}
	}
	return out
}

// multipartSiteTags names the trigger class of a validation probe sitting in a BODY attribute of a multipart
// endpoint: the generated decoder validates what IT decodes (parameters, headers, cookies) and hands the
// payload of the user decoder to the service method as it is — required attributes and validations of the
// body attributes are never checked by generated code (listed finding multipart-body-not-validated).
func multipartSiteTags(m *spec.Method, site, loc string) []string {
	if !isMultipart(m) || site == "" || loc != "body" {
		return nil
	}
	if p := strings.SplitN(site, ":", 3); len(p) == 3 && locName(cases.LocOf(m.HTTP, topAttr(p[2]))) == "body" {
		return []string{"multipart-body-not-validated"}
	}
	return nil
}
