package oracle

import (
	"context"
	"encoding/json"
	"fmt"
	"os"
	"path/filepath"
	"regexp"
	"sort"
	"strings"

	"github.com/getkin/kin-openapi/openapi2"
	"github.com/getkin/kin-openapi/openapi2conv"
	"github.com/getkin/kin-openapi/openapi3"
	"gopkg.in/yaml.v3"

	"verif.local/lab/cases"
	"verif.local/lab/spec"
)

var wildRe = regexp.MustCompile(`\{\*([a-zA-Z0-9_]+)\}`)

func normPath(p string) string {
	p = wildRe.ReplaceAllString(p, "{$1}")
	if len(p) > 1 {
		p = strings.TrimSuffix(p, "/")
	}
	return p
}

// normYAML converts YAML-decoded values to the shapes encoding/json produces.
func normTree(v any) any {
	switch x := v.(type) {
	case map[string]any:
		o := map[string]any{}
		for k, e := range x {
			o[k] = normTree(e)
		}
		return o
	case map[any]any:
		o := map[string]any{}
		for k, e := range x {
			o[fmt.Sprint(k)] = normTree(e)
		}
		return o
	case []any:
		o := make([]any, len(x))
		for i := range x {
			o[i] = normTree(x[i])
		}
		return o
	case int:
		return float64(x)
	case int64:
		return float64(x)
	case uint64:
		return float64(x)
	case float32:
		return float64(x)
	}
	return v
}

func treeDiff(path string, a, b any, out *[]string) {
	if len(*out) > 400 {
		return
	}
	switch x := a.(type) {
	case map[string]any:
		y, ok := b.(map[string]any)
		if !ok {
			*out = append(*out, path+": object vs "+fmt.Sprintf("%T", b))
			return
		}
		keys := map[string]bool{}
		for k := range x {
			keys[k] = true
		}
		for k := range y {
			keys[k] = true
		}
		ks := make([]string, 0, len(keys))
		for k := range keys {
			ks = append(ks, k)
		}
		sort.Strings(ks)
		for _, k := range ks {
			xv, ok1 := x[k]
			yv, ok2 := y[k]
			if !ok1 || !ok2 {
				*out = append(*out, path+"."+k+": present in only one rendering")
				continue
			}
			treeDiff(path+"."+k, xv, yv, out)
		}
	case []any:
		y, ok := b.([]any)
		if !ok || len(x) != len(y) {
			*out = append(*out, path+": arrays differ")
			return
		}
		for i := range x {
			treeDiff(fmt.Sprintf("%s[%d]", path, i), x[i], y[i], out)
		}
	default:
		if fmt.Sprint(a) != fmt.Sprint(b) {
			// numbers: compare as float
			fa, ok1 := a.(float64)
			fb, ok2 := b.(float64)
			if ok1 && ok2 && fa == fb {
				return
			}
			*out = append(*out, fmt.Sprintf("%s: %v vs %v", path, a, b))
		}
	}
}

// DocOp is one documented operation.
type DocOp struct {
	Verb, Path string
	Params     map[string]bool // "in:name" -> required
	HasBody    bool
	Codes      map[string]bool
	// Security: the alternatives the operation documents, each the sorted names of the schemes it requires;
	// nil = no security member. Declared: every scheme name the document declares.
	Security [][]string
	Declared map[string]bool
	// Style: "in:name" -> serialisation style of the parameter (OpenAPI 3; "" = the default of its location)
	Style map[string]string
}

// C07 judges the OpenAPI documents of one design. mounted: service -> (verb, pattern) pairs
// registered by the generated Mount functions.
func C07(sp *spec.Spec, genDir string, mounted map[string][][2]string) *Verdict {
	v := &Verdict{}
	httpDir := filepath.Join(genDir, "http")
	read := func(name string) []byte {
		b, err := os.ReadFile(filepath.Join(httpDir, name))
		if err != nil {
			return nil
		}
		return b
	}
	j2, y2, j3, y3 := read("openapi.json"), read("openapi.yaml"), read("openapi3.json"), read("openapi3.yaml")
	if j2 == nil || y2 == nil || j3 == nil || y3 == nil {
		hasHTTP := false
		for _, sv := range sp.Services {
			if !sv.NoHTTP {
				hasHTTP = true
			}
		}
		if hasHTTP {
			v.add("openapi-document-missing", "one of openapi.json/.yaml/openapi3.json/.yaml was not generated")
		} else {
			v.Inconclusive = "no HTTP service"
		}
		return v
	}
	// ---- JSON and YAML renderings have identical content
	for _, pair := range []struct {
		name string
		j, y []byte
	}{{"openapi2", j2, y2}, {"openapi3", j3, y3}} {
		var jt, yt any
		if err := json.Unmarshal(pair.j, &jt); err != nil {
			v.add("openapi-json-not-parsable:"+pair.name, "%s.json does not parse: %v", pair.name, err)
			continue
		}
		if err := yaml.Unmarshal(pair.y, &yt); err != nil {
			v.add("openapi-yaml-not-parsable:"+pair.name, "%s.yaml does not parse: %v", pair.name, err)
			continue
		}
		var diffs []string
		treeDiff("", normTree(jt), normTree(yt), &diffs)
		// one finding per class of difference (a design often shows several unrelated ones)
		byClass := map[string][]string{}
		var order []string
		for _, d := range diffs {
			cls := "other"
			switch {
			case (strings.Contains(d, "xample") || strings.Contains(d, ".default")) && strings.Contains(d, " vs ["):
				cls = "bytes-example"
			case strings.Contains(d, "xample") && (strings.Contains(d, ": <nil> vs map[]") || strings.Contains(d, ": <nil> vs []")):
				cls = "nil-collection-example"
			case strings.Contains(d, "escription: \n"):
				cls = "description-leading-newline"
			case strings.Contains(d, "escription"):
				cls = "description-text"
			}
			if _, ok := byClass[cls]; !ok {
				order = append(order, cls)
			}
			if len(byClass[cls]) < 4 {
				byClass[cls] = append(byClass[cls], d)
			}
		}
		for _, cls := range order {
			v.add("openapi-json-yaml-differ:"+pair.name+":"+cls, "JSON and YAML renderings differ: %s", strings.Join(byClass[cls], "; "))
		}
	}
	// ---- OpenAPI 3 validity
	loader := openapi3.NewLoader()
	doc3, err := loader.LoadFromData(j3)
	if err != nil {
		v.add("openapi3-invalid:load:"+normOAErr(err), "openapi3.json does not load: %v", err)
		// one invalid keyword must not hide everything else: numeric exclusive bounds are rewritten into the
		// OpenAPI 3.0 form and the rest of the document is judged as usual
		var tree any
		if json.Unmarshal(j3, &tree) != nil {
			return v
		}
		tree, n := fixExclusive(tree)
		fixed, _ := json.Marshal(tree)
		if n == 0 {
			return v
		}
		if doc3, err = openapi3.NewLoader().LoadFromData(fixed); err != nil {
			v.add("openapi3-invalid:load:"+normOAErr(err), "openapi3.json does not load (numeric exclusive bounds rewritten): %v", err)
			return v
		}
	}
	// examples SHOULD (not MUST) match their schema: example validation is off
	if err := doc3.Validate(context.Background(), openapi3.DisableExamplesValidation()); err != nil {
		v.add("openapi3-invalid:"+normOAErr(err), "openapi3.json is not a valid OpenAPI 3 document: %s", trunc(err.Error(), 400))
	}
	// ---- OpenAPI 2 validity
	var doc2 openapi2.T
	err = json.Unmarshal(j2, &doc2)
	if err != nil {
		v.add("openapi2-invalid:unmarshal:"+normOAErr(err), "openapi.json does not unmarshal as Swagger 2.0: %v", err)
		// as for OpenAPI 3: rewrite numeric exclusive bounds and judge the rest
		var tree any
		if json.Unmarshal(j2, &tree) == nil {
			if tree, n := fixExclusive(tree); n > 0 {
				fixed, _ := json.Marshal(tree)
				doc2 = openapi2.T{}
				if err = json.Unmarshal(fixed, &doc2); err != nil {
					v.add("openapi2-invalid:unmarshal:"+normOAErr(err), "openapi.json does not unmarshal as Swagger 2.0 (numeric exclusive bounds rewritten): %v", err)
				}
			}
		}
	}
	if err == nil {
		if conv, err := openapi2conv.ToV3(&doc2); err != nil {
			// a limitation of the converter is not a defect of the document: only the structural rules judge then
			v.Notes = append(v.Notes, "openapi2-converter-failed")
		} else if err := conv.Validate(context.Background(), openapi3.DisableExamplesValidation()); err != nil {
			v.add("openapi2-invalid:"+normOAErr(err), "openapi.json (converted) is not valid: %s", trunc(err.Error(), 400))
		}
		swagger2Rules(&doc2, j2, v)
	}
	// ---- operations
	want := map[string]bool{} // "VERB path"
	for _, pairs := range mounted {
		for _, p := range pairs {
			if p[0] == "HEAD" || p[0] == "OPTIONS" {
				continue // HEAD twins of file servers and CORS preflights are not design operations
			}
			want[p[0]+" "+normPath(p[1])] = true
		}
	}
	for _, dd := range []struct {
		name string
		ops  map[string]*DocOp
	}{{"openapi3", opsOf3(doc3)}, {"openapi2", opsOf2(&doc2)}} {
		got := map[string]bool{}
		for k := range dd.ops {
			got[k] = true
		}
		if mounted == nil {
			// the generated code could not be built (C01's matter): what the server mounts is unknown, the documents
			// are still judged against the design
			got = nil
			v.Notes = append(v.Notes, "mounted-routes-unknown")
		}
		for k := range want {
			if mounted != nil && !got[k] {
				v.add("operation-mounted-but-not-documented:"+dd.name+":"+opClass(sp, k), "%s: %s is mounted by the generated server but missing from the document", dd.name, k)
			}
		}
		for k := range got {
			if !want[k] {
				v.add("operation-documented-but-not-mounted:"+dd.name+":"+opClass(sp, k), "%s: %s is documented but the generated server does not mount it", dd.name, k)
			}
		}
		// parameters, bodies, codes per design method. A (verb, path) pair claimed by several methods of the
		// design (goa accepts such designs; the last Mount wins on the muxer and the last operation wins in the
		// document) cannot be attributed to one method: not judged.
		claims := routeClaims(sp)
		for _, sv := range sp.Services {
			if sv.NoHTTP {
				continue
			}
			for _, m := range sv.Methods {
				if m.HTTP == nil {
					continue
				}
				for ri, r := range m.HTTP.Routes {
					key := r.Verb + " " + normPath(cases.FullPath(sp, sv, m, ri))
					op := dd.ops[key]
					if op == nil {
						continue
					}
					if claims[claimKey(r.Verb, cases.FullPath(sp, sv, m, ri))] > 1 {
						v.Notes = append(v.Notes, "route-claimed-by-several-methods")
						continue
					}
					checkOp(sp, sv, m, op, dd.name, v)
				}
			}
		}
	}
	return v
}

// checkOpSecurity: "the same security schemes". The documents name schemes after kind and location, not after the
// design, so names are not compared: every scheme an operation requires must be DECLARED by the document, and the
// operation must list as many alternatives, each with as many schemes, as the method's effective requirements
// (distinct requirements only: the design may repeat one).
func checkOpSecurity(sp *spec.Spec, sv *spec.Service, m *spec.Method, op *DocOp, docName string, v *Verdict) {
	for _, alt := range op.Security {
		for _, n := range alt {
			if !op.Declared[n] {
				v.add("security-scheme-required-but-not-declared:"+docName, "%s %s requires scheme %q which the document does not declare (declared: %v)", op.Verb, op.Path, n, keysOf(op.Declared))
			}
		}
	}
	var want []int
	seen := map[string]bool{}
	for _, rq := range sp.EffectiveSecurity(sv, m) {
		ss := append([]string(nil), rq.Schemes...)
		sort.Strings(ss)
		sc := append([]string(nil), rq.Scopes...)
		sort.Strings(sc)
		k := strings.Join(ss, ",") + "|" + strings.Join(sc, ",")
		if seen[k] {
			continue
		}
		seen[k] = true
		distinct := map[string]bool{}
		for _, n := range rq.Schemes {
			distinct[n] = true
		}
		want = append(want, len(distinct))
	}
	var got []int
	gseen := map[string]bool{}
	for _, alt := range op.Security {
		k := strings.Join(alt, ",")
		if gseen[k] {
			continue
		}
		gseen[k] = true
		got = append(got, len(alt))
	}
	sort.Ints(want)
	sort.Ints(got)
	switch {
	case len(want) == 0 && len(got) > 0:
		v.add("security-documented-for-unsecured-method:"+docName, "%s %s documents security %v, the method has no requirement", op.Verb, op.Path, op.Security)
	case len(want) > 0 && len(got) == 0:
		v.add("security-not-documented:"+docName, "%s %s documents no security, the method has %d requirement(s)", op.Verb, op.Path, len(want))
	case len(got) > len(want):
		v.add("security-more-alternatives-documented:"+docName, "%s %s documents %d alternative requirement(s) %v, the design gives %d", op.Verb, op.Path, len(got), op.Security, len(want))
	}
	// scopes make design alternatives distinct that the document may legitimately fold (same schemes): fewer
	// documented alternatives are judged only through the number of distinct scheme SETS
	wantSets := map[string]bool{}
	for _, rq := range sp.EffectiveSecurity(sv, m) {
		ss := append([]string(nil), rq.Schemes...)
		sort.Strings(ss)
		wantSets[strings.Join(ss, ",")] = true
	}
	if len(got) > 0 && len(got) < len(wantSets) {
		v.add("security-alternatives-missing:"+docName, "%s %s documents %d alternative requirement(s), the design has %d distinct scheme sets", op.Verb, op.Path, len(got), len(wantSets))
	}
	for i := range got {
		if len(want) == len(got) && got[i] != want[i] {
			v.add("security-scheme-count-per-requirement:"+docName, "%s %s documents requirements of %v schemes, the design of %v", op.Verb, op.Path, got, want)
			break
		}
	}
}

var tmplVarRe = regexp.MustCompile(`\{[^}]*\}`)

// claimKey identifies a route up to the names of its path parameters ("/x/{a}" and "/x/{b}" serve the same requests).
func claimKey(verb, path string) string {
	return verb + " " + tmplVarRe.ReplaceAllString(normPath(path), "{}")
}

// routeClaims counts, per "VERB /normalised/path", the design methods that declare that route.
func routeClaims(sp *spec.Spec) map[string]int {
	claims := map[string]int{}
	for _, sv := range sp.Services {
		if sv.NoHTTP {
			continue
		}
		for _, m := range sv.Methods {
			if m.HTTP == nil {
				continue
			}
			for ri, r := range m.HTTP.Routes {
				claims[claimKey(r.Verb, cases.FullPath(sp, sv, m, ri))]++
			}
		}
	}
	return claims
}

func opClass(sp *spec.Spec, key string) string {
	if strings.Contains(key, "/static") || strings.Contains(key, "/doc") {
		return "file-server"
	}
	if strings.Contains(key, "/alt/") {
		return "alt-route"
	}
	return "endpoint"
}

var quotedRe = regexp.MustCompile(`"[^"]*"`)

var typeValRe = regexp.MustCompile(`unsupported 'type' value "([^"]+)"`)

func normOAErr(err error) string {
	msg := err.Error()
	switch {
	case strings.Contains(msg, "Schema.exclusiveM"):
		return "exclusive-bound-is-a-number"
	case strings.Contains(msg, "must contain exactly one of content and schema"):
		if strings.Contains(msg, "{*") {
			return "wildcard-path-parameter-without-schema"
		}
		return "parameter-without-schema"
	case typeValRe.MatchString(msg):
		where := "schema"
		if strings.Contains(msg, "header schema") {
			where = "header"
		}
		val := typeValRe.FindStringSubmatch(msg)[1]
		cls := "user-type-name"
		if val == "map" && strings.Contains(msg, "parameter \"") {
			// a MapOf attribute mapped to a query parameter: Swagger 2.0 has no parameter type for it
			return "unsupported-type-value:parameter:map"
		}
		switch val {
		case "int", "int32", "int64", "uint", "uint32", "uint64", "float32", "float64", "bytes", "any", "boolean":
			cls = "goa-primitive-name"
		}
		return "unsupported-type-value:" + where + ":" + cls
	case strings.Contains(msg, "schema 'items' must be non-null"):
		where := "schema"
		if strings.Contains(msg, "header schema") {
			where = "header"
		}
		return "array-without-items:" + where
	}
	s := firstLine(msg)
	s = quotedRe.ReplaceAllString(s, `"…"`)
	s = numRe.ReplaceAllString(s, "N")
	if len(s) > 100 {
		s = s[:100]
	}
	return s
}

var numRe = regexp.MustCompile(`\d+`)

func opsOf3(doc *openapi3.T) map[string]*DocOp {
	out := map[string]*DocOp{}
	if doc.Paths == nil {
		return out
	}
	for p, item := range doc.Paths.Map() {
		for verb, op := range item.Operations() {
			d := &DocOp{Verb: verb, Path: p, Params: map[string]bool{}, Codes: map[string]bool{}}
			d.Style = map[string]string{}
			for _, pr := range append(append(openapi3.Parameters{}, item.Parameters...), op.Parameters...) {
				if pr.Value != nil {
					d.Params[pr.Value.In+":"+pr.Value.Name] = pr.Value.Required
					d.Style[pr.Value.In+":"+pr.Value.Name] = pr.Value.Style
				}
			}
			if op.RequestBody != nil && op.RequestBody.Value != nil && len(op.RequestBody.Value.Content) > 0 {
				d.HasBody = true
			}
			if op.Responses != nil {
				for code := range op.Responses.Map() {
					d.Codes[code] = true
				}
			}
			d.Declared = map[string]bool{}
			if doc.Components != nil {
				for n := range doc.Components.SecuritySchemes {
					d.Declared[n] = true
				}
			}
			sec := op.Security
			if sec == nil {
				sec = &doc.Security
			}
			if sec != nil {
				for _, alt := range *sec {
					var names []string
					for n := range alt {
						names = append(names, n)
					}
					sort.Strings(names)
					d.Security = append(d.Security, names)
				}
			}
			out[verb+" "+normPath(p)] = d
		}
	}
	return out
}

func opsOf2(doc *openapi2.T) map[string]*DocOp {
	out := map[string]*DocOp{}
	base := strings.TrimSuffix(doc.BasePath, "/")
	for p, item := range doc.Paths {
		for verb, op := range item.Operations() {
			d := &DocOp{Verb: verb, Path: p, Params: map[string]bool{}, Codes: map[string]bool{}}
			for _, pr := range append(append(openapi2.Parameters{}, item.Parameters...), op.Parameters...) {
				if pr.In == "body" || pr.In == "formData" {
					d.HasBody = true
					continue
				}
				d.Params[pr.In+":"+pr.Name] = pr.Required
			}
			for code := range op.Responses {
				d.Codes[code] = true
			}
			d.Declared = map[string]bool{}
			for n := range doc.SecurityDefinitions {
				d.Declared[n] = true
			}
			sec := op.Security
			if sec == nil {
				sec = &doc.Security
			}
			if sec != nil {
				for _, alt := range *sec {
					var names []string
					for n := range alt {
						names = append(names, n)
					}
					sort.Strings(names)
					d.Security = append(d.Security, names)
				}
			}
			out[verb+" "+normPath(base+p)] = d
		}
	}
	return out
}

// swagger2Rules are the structural Swagger 2.0 rules kin-openapi's converter does not enforce.
func swagger2Rules(doc *openapi2.T, raw []byte, v *Verdict) {
	if doc.Swagger != "2.0" {
		v.add("openapi2-rule:swagger-version", "swagger member is %q", doc.Swagger)
	}
	if doc.Info.Title == "" || doc.Info.Version == "" {
		v.add("openapi2-rule:info", "info.title / info.version missing")
	}
	ids := map[string]bool{}
	for p, item := range doc.Paths {
		tmplVars := map[string]bool{}
		for _, m := range regexp.MustCompile(`\{([^}]+)\}`).FindAllStringSubmatch(p, -1) {
			tmplVars[m[1]] = true
		}
		for verb, op := range item.Operations() {
			if op.OperationID != "" {
				if ids[op.OperationID] {
					v.add("openapi2-rule:duplicate-operation-id", "operationId %q used twice", op.OperationID)
				}
				ids[op.OperationID] = true
			}
			if len(op.Responses) == 0 {
				v.add("openapi2-rule:no-responses", "%s %s has no responses", verb, p)
			}
			bodies := 0
			pathParams := map[string]bool{}
			for _, pr := range append(append(openapi2.Parameters{}, item.Parameters...), op.Parameters...) {
				switch pr.In {
				case "body":
					bodies++
				case "path":
					pathParams[pr.Name] = true
					if !pr.Required {
						v.add("openapi2-rule:path-param-not-required", "%s %s: path parameter %q is not required", verb, p, pr.Name)
					}
				case "query", "header", "formData":
				default:
					v.add("openapi2-rule:param-in:"+pr.In, "%s %s: parameter %q has in=%q", verb, p, pr.Name, pr.In)
				}
			}
			if bodies > 1 {
				v.add("openapi2-rule:multiple-body-params", "%s %s has %d body parameters", verb, p, bodies)
			}
			for n := range tmplVars {
				if !pathParams[n] {
					v.add("openapi2-rule:template-variable-without-parameter", "%s %s: {%s} has no path parameter", verb, p, n)
				}
			}
			for n := range pathParams {
				if !tmplVars[n] {
					v.add("openapi2-rule:path-parameter-without-template-variable", "%s %s: path parameter %q is not in the template", verb, p, n)
				}
			}
		}
	}
}

// checkOp compares one documented operation with the design.
func checkOp(sp *spec.Spec, sv *spec.Service, m *spec.Method, op *DocOp, docName string, v *Verdict) {
	checkOpSecurity(sp, sv, m, op, docName, v)
	h := m.HTTP
	prt, _ := sp.Resolve(payloadTypeOf(m))
	isObj := prt != nil && prt.Kind == spec.Object
	required := func(attr string) bool {
		if !isObj {
			return true
		}
		return prt.IsRequired(attr)
	}
	secAttr := func(attr string) bool {
		if !isObj {
			return false
		}
		a := prt.Attr(attr)
		return a != nil && a.Sec != ""
	}
	type wantP struct {
		req bool
		sec bool
	}
	want := map[string]wantP{}
	for _, l := range h.Path {
		want["path:"+l.WireName()] = wantP{true, false}
	}
	for _, l := range h.Query {
		want["query:"+l.WireName()] = wantP{required(l.Attr), secAttr(l.Attr)}
	}
	for _, l := range h.Headers {
		want["header:"+l.WireName()] = wantP{required(l.Attr), secAttr(l.Attr)}
	}
	if docName == "openapi3" {
		for _, l := range h.Cookies {
			want["cookie:"+l.WireName()] = wantP{required(l.Attr), false}
		}
		// a map carried by the query string is read by the server as name[key]=value: the deepObject style; any other
		// style describes other requests than the ones the server understands
		if isObj {
			for _, l := range h.Query {
				a := prt.Attr(l.Attr)
				if a == nil {
					continue
				}
				if at, _ := sp.Resolve(a.Type); at != nil && at.Kind == spec.Map {
					if st, ok := op.Style["query:"+l.WireName()]; ok && st != "deepObject" {
						v.add("parameter-style:openapi3:query-map:not-deepObject", "%s %s: the map parameter %s is documented with style %q, the server reads %s[key]=value (deepObject)", op.Verb, op.Path, l.WireName(), st, l.WireName())
					}
				}
			}
		}
	}
	lower := func(m map[string]bool) map[string]bool {
		o := map[string]bool{}
		for k, r := range m {
			i := strings.Index(k, ":")
			if k[:i] == "header" {
				k = "header:" + strings.ToLower(k[i+1:])
			}
			o[k] = r
		}
		return o
	}
	got := lower(op.Params)
	for k, w := range want {
		lk := k
		if strings.HasPrefix(k, "header:") {
			lk = "header:" + strings.ToLower(k[7:])
		}
		req, ok := got[lk]
		if !ok {
			if w.sec {
				continue // a credential may be documented through the security scheme only
			}
			loc := k[:strings.Index(k, ":")]
			v.add(fmt.Sprintf("parameter-not-documented:%s:%s", docName, loc), "%s %s: parameter %s is read by the server but not documented", op.Verb, op.Path, k)
			continue
		}
		if req != w.req && !w.sec {
			loc := k[:strings.Index(k, ":")]
			v.add(fmt.Sprintf("parameter-required-flag:%s:%s:want-%v", docName, loc, w.req), "%s %s: parameter %s documented required=%v, design says %v", op.Verb, op.Path, k, req, w.req)
		}
	}
	wantLower := map[string]bool{}
	for k := range want {
		if strings.HasPrefix(k, "header:") {
			k = "header:" + strings.ToLower(k[7:])
		}
		wantLower[k] = true
	}
	for k := range got {
		if !wantLower[k] {
			if strings.HasPrefix(k, "header:authorization") {
				continue // implicit credential documented as a header parameter
			}
			if docName == "openapi2" && strings.HasPrefix(k, "header:cookie") {
				continue
			}
			loc := k[:strings.Index(k, ":")]
			v.add(fmt.Sprintf("parameter-documented-but-not-read:%s:%s", docName, loc), "%s %s: parameter %s is documented but the design does not map it", op.Verb, op.Path, k)
		}
	}
	// request body exactly when the server expects one
	wantBody := false
	if m.Payload != nil {
		if isObj {
			wantBody = len(cases.BodyAttrs(sp, m)) > 0 && h.Body != "empty"
		} else {
			wantBody = len(h.Path)+len(h.Query)+len(h.Headers) == 0
		}
	}
	if wantBody != op.HasBody {
		v.add(fmt.Sprintf("request-body-documented-%v-expected-%v:%s", op.HasBody, wantBody, docName), "%s %s: request body documented=%v, server expects one=%v", op.Verb, op.Path, op.HasBody, wantBody)
	}
	// response status codes
	wantCodes := map[string]bool{}
	if m.Stream != "" {
		// a websocket endpoint answers a successful handshake with 101 Switching Protocols (RFC 6455 §4.2.2);
		// the streamed results are messages, not HTTP responses
		wantCodes["101"] = true
	} else if len(h.Responses) == 0 {
		if m.Result == nil {
			wantCodes["204"] = true
		} else {
			wantCodes["200"] = true
		}
	}
	for _, r := range h.Responses {
		wantCodes[fmt.Sprint(r.Status)] = true
	}
	for _, e := range sp.AllErrors(sv, m) {
		if he := sp.HTTPErrorFor(sv, m, e.Name); he != nil {
			wantCodes[fmt.Sprint(he.Status)] = true
		}
	}
	for c := range wantCodes {
		if !op.Codes[c] {
			v.add("response-code-not-documented:"+docName, "%s %s: status %s can be produced but is not documented (documented: %v)", op.Verb, op.Path, c, keysOf(op.Codes))
		}
	}
	for c := range op.Codes {
		if !wantCodes[c] && c != "default" {
			v.add("response-code-documented-but-not-designed:"+docName, "%s %s: status %s is documented but the design does not assign it (design: %v)", op.Verb, op.Path, c, keysOf(wantCodes))
		}
	}
}

func keysOf(m map[string]bool) []string {
	var o []string
	for k := range m {
		o = append(o, k)
	}
	sort.Strings(o)
	return o
}

func payloadTypeOf(m *spec.Method) *spec.Type {
	if m.Payload == nil {
		return nil
	}
	return m.Payload.Type
}
