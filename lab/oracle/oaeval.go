package oracle

import (
	"encoding/json"
	"fmt"
	"math/big"
	"net/url"
	"regexp"
	"strconv"
	"strings"
	"unicode/utf8"
)

// oaDoc is the lab's own evaluator of the OpenAPI-3 subset goa emits, over the
// generic JSON tree of openapi3.json. It shares no code with goa.
type oaDoc struct {
	root map[string]any
	// undecided counts the documented string formats met since the last reset that the lab cannot decide for
	// the value at hand (neither in the valid nor in the invalid pool of that format)
	undecided int
}

func loadOADoc(raw []byte) (*oaDoc, error) {
	var root map[string]any
	dec := json.NewDecoder(strings.NewReader(string(raw)))
	dec.UseNumber()
	if err := dec.Decode(&root); err != nil {
		return nil, err
	}
	return &oaDoc{root: root}, nil
}

func (d *oaDoc) deref(n any) map[string]any {
	for i := 0; i < 20; i++ {
		m, ok := n.(map[string]any)
		if !ok {
			return nil
		}
		ref, ok := m["$ref"].(string)
		if !ok {
			return m
		}
		if !strings.HasPrefix(ref, "#/") {
			return nil
		}
		var cur any = d.root
		for _, part := range strings.Split(ref[2:], "/") {
			part = strings.ReplaceAll(strings.ReplaceAll(part, "~1", "/"), "~0", "~")
			cm, ok := cur.(map[string]any)
			if !ok {
				return nil
			}
			cur = cm[part]
		}
		n = cur
	}
	return nil
}

func num(v any) (*big.Float, bool) {
	switch x := v.(type) {
	case json.Number:
		f, _, err := big.ParseFloat(x.String(), 10, 200, big.ToNearestEven)
		return f, err == nil
	case float64:
		return big.NewFloat(x), true
	case int:
		return big.NewFloat(float64(x)), true
	}
	return nil, false
}

func isInteger(v any) bool {
	n, ok := v.(json.Number)
	if !ok {
		return false
	}
	f, ok := num(n)
	if !ok {
		return false
	}
	return f.IsInt()
}

var oaReCache = map[string]*regexp.Regexp{}

// eval returns the keyword classes a JSON value violates against a schema node.
func (d *oaDoc) eval(schema any, v any, path string, errs *[]string, depth int) {
	s := d.deref(schema)
	if s == nil || depth > 60 {
		return
	}
	add := func(class, format string, a ...any) {
		*errs = append(*errs, class+"@"+path+": "+fmt.Sprintf(format, a...))
	}
	if v == nil {
		if nb, _ := s["nullable"].(bool); !nb {
			add("type", "null is not allowed")
		}
		return
	}
	for _, kw := range []string{"allOf"} {
		if list, ok := s[kw].([]any); ok {
			for _, sub := range list {
				d.eval(sub, v, path, errs, depth+1)
			}
		}
	}
	for _, kw := range []string{"anyOf", "oneOf"} {
		if list, ok := s[kw].([]any); ok && len(list) > 0 {
			okCount := 0
			for _, sub := range list {
				var e []string
				d.eval(sub, v, path, &e, depth+1)
				if len(e) == 0 {
					okCount++
				}
			}
			if okCount == 0 || (kw == "oneOf" && okCount != 1) {
				add("type", "%s: %d alternatives match", kw, okCount)
			}
		}
	}
	if en, ok := s["enum"].([]any); ok && len(en) > 0 {
		found := false
		vb, _ := json.Marshal(v)
		for _, e := range en {
			eb, _ := json.Marshal(e)
			if string(eb) == string(vb) {
				found = true
				break
			}
			// numbers: compare numerically (1 vs 1.0)
			if fe, ok1 := num(e); ok1 {
				if fv, ok2 := num(v); ok2 && fe.Cmp(fv) == 0 {
					found = true
					break
				}
			}
		}
		if !found {
			add("enum", "%s not in enum", string(vb))
		}
	}
	typ, _ := s["type"].(string)
	switch typ {
	case "string":
		str, ok := v.(string)
		if !ok {
			add("type", "want string")
			return
		}
		n := utf8.RuneCountInString(str)
		// evidence for the key: a length keyword on a string that carries binary data counts the characters of
		// the base64 text, not the bytes
		note := ""
		if f, _ := s["format"].(string); f == "binary" || f == "byte" {
			note = " [text of a " + f + " string]"
		}
		if mn, ok := num(s["minLength"]); ok && n >= 0 {
			if m, _ := mn.Int64(); int64(n) < m {
				add("length", "length %d < minLength %d%s", n, m, note)
			}
		}
		if mx, ok := num(s["maxLength"]); ok && n >= 0 {
			if m, _ := mx.Int64(); int64(n) > m {
				add("length", "length %d > maxLength %d%s", n, m, note)
			}
		}
		if p, ok := s["pattern"].(string); ok && p != "" {
			re, ok := oaReCache[p]
			if !ok {
				re, _ = regexp.Compile(p)
				oaReCache[p] = re
			}
			if re != nil && !re.MatchString(str) {
				add("pattern", "%q does not match %q", str, p)
			}
		}
		if f, ok := s["format"].(string); ok && f != "" && f != "binary" && f != "byte" {
			if valid, decided := formatVerdict(f, str); decided && !valid {
				add("format", "%q is not a %s", str, f)
			} else if !decided {
				d.undecided++
			}
		}
	case "integer", "number":
		f, ok := num(v)
		if !ok {
			add("type", "want %s", typ)
			return
		}
		if typ == "integer" && !f.IsInt() {
			add("type", "want integer")
		}
		cmp := func(kw string) (*big.Float, bool) { return num(s[kw]) }
		exMin, exMax := false, false
		if b, ok := s["exclusiveMinimum"].(bool); ok {
			exMin = b
		}
		if b, ok := s["exclusiveMaximum"].(bool); ok {
			exMax = b
		}
		if m, ok := cmp("minimum"); ok {
			if c := f.Cmp(m); c < 0 || (exMin && c == 0) {
				add("range", "below minimum")
			}
		}
		if m, ok := cmp("maximum"); ok {
			if c := f.Cmp(m); c > 0 || (exMax && c == 0) {
				add("range", "above maximum")
			}
		}
		// draft-6 style numeric exclusive bounds (what goa emits)
		if m, ok := cmp("exclusiveMinimum"); ok {
			if f.Cmp(m) <= 0 {
				add("range", "not above exclusiveMinimum")
			}
		}
		if m, ok := cmp("exclusiveMaximum"); ok {
			if f.Cmp(m) >= 0 {
				add("range", "not below exclusiveMaximum")
			}
		}
	case "boolean":
		if _, ok := v.(bool); !ok {
			add("type", "want boolean")
		}
	case "array":
		arr, ok := v.([]any)
		if !ok {
			add("type", "want array")
			return
		}
		if mn, ok := num(s["minItems"]); ok {
			if m, _ := mn.Int64(); int64(len(arr)) < m {
				add("length", "%d items < minItems %d", len(arr), m)
			}
		}
		if mx, ok := num(s["maxItems"]); ok {
			if m, _ := mx.Int64(); int64(len(arr)) > m {
				add("length", "%d items > maxItems %d", len(arr), m)
			}
		}
		if it, ok := s["items"]; ok {
			for i, e := range arr {
				d.eval(it, e, fmt.Sprintf("%s[%d]", path, i), errs, depth+1)
			}
		}
	case "object":
		o, ok := v.(map[string]any)
		if !ok {
			add("type", "want object")
			return
		}
		props, _ := s["properties"].(map[string]any)
		if req, ok := s["required"].([]any); ok {
			for _, r := range req {
				// an explicit null member counts as absent (below): it cannot satisfy `required` either
				if e, has := o[fmt.Sprint(r)]; !has || e == nil {
					add("required", "member %q missing", r)
				}
			}
		}
		if mn, ok := num(s["minProperties"]); ok {
			if m, _ := mn.Int64(); int64(len(o)) < m {
				add("length", "%d members < minProperties %d", len(o), m)
			}
		}
		if mx, ok := num(s["maxProperties"]); ok {
			if m, _ := mx.Int64(); int64(len(o)) > m {
				add("length", "%d members > maxProperties %d", len(o), m)
			}
		}
		for k, e := range o {
			if ps, ok := props[k]; ok {
				if e == nil {
					continue // explicit null member == absent (what goa's own client sends for unset members)
				}
				d.eval(ps, e, path+"."+k, errs, depth+1)
				continue
			}
			if ap, ok := s["additionalProperties"]; ok {
				if _, isBool := ap.(bool); !isBool {
					d.eval(ap, e, path+"{"+k+"}", errs, depth+1)
				}
			}
		}
	}
}

// parseParam deserialises the textual value(s) of a non-body parameter according to its schema.
func (d *oaDoc) parseParam(schema any, vals []string) (any, string) {
	s := d.deref(schema)
	if s == nil {
		return vals, ""
	}
	typ, _ := s["type"].(string)
	one := func(typ, raw string) (any, string) {
		switch typ {
		case "integer":
			if _, ok := new(big.Int).SetString(raw, 10); !ok {
				return nil, "not an integer"
			}
			return json.Number(raw), ""
		case "number":
			if _, err := strconv.ParseFloat(raw, 64); err != nil {
				return nil, "not a number"
			}
			return json.Number(raw), ""
		case "boolean":
			switch raw {
			case "true":
				return true, ""
			case "false":
				return false, ""
			}
			return nil, "not a boolean"
		}
		return raw, ""
	}
	if typ == "array" {
		it := d.deref(s["items"])
		et := "string"
		if it != nil {
			et, _ = it["type"].(string)
		}
		out := make([]any, 0, len(vals))
		for _, raw := range vals {
			v, e := one(et, raw)
			if e != "" {
				return nil, e
			}
			out = append(out, v)
		}
		return out, ""
	}
	if len(vals) == 0 {
		return nil, ""
	}
	return one(typ, vals[0])
}

// oaOperation finds the operation object and the path parameters for a request.
func (d *oaDoc) operation(method, path string) (op map[string]any, item map[string]any, pathVars map[string]string) {
	paths, _ := d.root["paths"].(map[string]any)
	segs := strings.Split(strings.Trim(path, "/"), "/")
	best := -1
	for tmpl, it := range paths {
		ts := strings.Split(strings.Trim(tmpl, "/"), "/")
		if len(ts) != len(segs) {
			continue
		}
		vars := map[string]string{}
		lit := 0
		ok := true
		for i := range ts {
			if strings.HasPrefix(ts[i], "{") && strings.HasSuffix(ts[i], "}") {
				u, err := url.PathUnescape(segs[i])
				if err != nil {
					u = segs[i]
				}
				vars[strings.Trim(ts[i], "{}*")] = u
				continue
			}
			if ts[i] != segs[i] {
				ok = false
				break
			}
			lit++
		}
		if !ok || lit <= best {
			continue
		}
		im, _ := it.(map[string]any)
		o, _ := im[strings.ToLower(method)].(map[string]any)
		if o == nil {
			continue
		}
		best, op, item, pathVars = lit, o, im, vars
	}
	return
}
