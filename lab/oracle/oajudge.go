package oracle

import (
	"encoding/json"
	"net/http"
	"net/url"
	"sort"
	"strings"

	"verif.local/lab/rt"
)

type oaParam struct {
	in, name string
	required bool
	schema   any
	style    string // "" = the default of the location
	explode  *bool  // nil = the default of the style
}

func (d *oaDoc) params(item, op map[string]any) []oaParam {
	var out []oaParam
	for _, src := range []any{item["parameters"], op["parameters"]} {
		list, _ := src.([]any)
		for _, p := range list {
			pm := d.deref(p)
			if pm == nil {
				continue
			}
			in, _ := pm["in"].(string)
			name, _ := pm["name"].(string)
			req, _ := pm["required"].(bool)
			style, _ := pm["style"].(string)
			var explode *bool
			if e, ok := pm["explode"].(bool); ok {
				explode = &e
			}
			out = append(out, oaParam{in, name, req, pm["schema"], style, explode})
		}
	}
	return out
}

func headerVals(h map[string][]string, name string) []string {
	var out []string
	for k, v := range h {
		if strings.EqualFold(k, name) {
			out = append(out, v...)
		}
	}
	return out
}

func classesOf(errs []string) []string {
	set := map[string]bool{}
	for _, e := range errs {
		if i := strings.Index(e, "@"); i > 0 {
			set[e[:i]] = true
		}
	}
	var out []string
	for k := range set {
		out = append(out, k)
	}
	sort.Strings(out)
	return out
}

// judgeRequest evaluates a wire request against the documented operation.
// matched=false: no documented operation. ambiguous != "": the documents cannot decide (ambiguity class).
func (d *oaDoc) judgeRequest(w *rt.WireReq) (matched bool, errs []string, ambiguous string) {
	u, err := url.Parse(w.URL)
	if err != nil {
		return false, nil, "url does not parse"
	}
	op, item, vars := d.operation(w.Method, u.EscapedPath())
	if op == nil {
		return false, nil, ""
	}
	d.undecided = 0
	q := u.Query()
	cookies := map[string]string{}
	for _, line := range headerVals(w.Header, "Cookie") {
		for _, part := range strings.Split(line, ";") {
			part = strings.TrimSpace(part)
			if i := strings.Index(part, "="); i > 0 {
				cookies[part[:i]] = part[i+1:]
			}
		}
	}
	allParams := d.params(item, op)
	for _, p := range allParams {
		var vals []string
		present := false
		if p.in == "query" {
			if ps := d.deref(p.schema); ps != nil && ps["type"] == "object" {
				// an object-valued query parameter: its members are spelled as the style says
				obj, perr := d.queryObject(p, ps, q, allParams)
				switch {
				case perr != "":
					errs = append(errs, "type@query:"+p.name+": "+perr)
				case len(obj) == 0:
					if p.required {
						errs = append(errs, "required@query:"+p.name+": missing")
					}
				default:
					d.eval(p.schema, obj, "query:"+p.name, &errs, 0)
				}
				continue
			}
		}
		switch p.in {
		case "path":
			v, ok := vars[p.name]
			vals, present = []string{v}, ok
		case "query":
			vals, present = q[p.name], len(q[p.name]) > 0
		case "header":
			vals = headerVals(w.Header, p.name)
			present = len(vals) > 0
		case "cookie":
			v, ok := cookies[p.name]
			vals, present = []string{v}, ok
		}
		if !present {
			if p.required {
				errs = append(errs, "required@"+p.in+":"+p.name+": missing")
			}
			continue
		}
		for _, v := range vals {
			if v == "" {
				return true, errs, "empty value outside the body (present or absent is ambiguous)"
			}
		}
		if p.in == "header" {
			errs = append(errs, d.evalHeader(p.schema, vals, p.in+":"+p.name)...)
			continue
		}
		val, perr := d.parseParam(p.schema, vals)
		if perr != "" {
			errs = append(errs, "type@"+p.in+":"+p.name+": "+perr)
			continue
		}
		d.eval(p.schema, val, p.in+":"+p.name, &errs, 0)
	}
	if rb := d.deref(op["requestBody"]); rb != nil {
		required, _ := rb["required"].(bool)
		content, _ := rb["content"].(map[string]any)
		var schema any
		for ct, c := range content {
			if strings.Contains(ct, "json") {
				if cm, ok := c.(map[string]any); ok {
					schema = cm["schema"]
				}
			}
		}
		switch {
		case len(w.Body) == 0:
			if required {
				errs = append(errs, "required@body: missing")
			}
		case schema != nil:
			var body any
			dec := json.NewDecoder(strings.NewReader(string(w.Body)))
			dec.UseNumber()
			if err := dec.Decode(&body); err != nil {
				errs = append(errs, "decode@body: "+err.Error())
			} else if dec.More() {
				errs = append(errs, "decode@body: trailing data")
			} else {
				d.eval(schema, body, "body", &errs, 0)
			}
		}
	}
	if len(errs) == 0 && d.undecided > 0 {
		// accepted only because a documented format could not be decided for some string of the request (for
		// instance the fragments of a header array element that holds a comma)
		return true, nil, "a documented string format cannot be decided for a value of this request"
	}
	return true, errs, ""
}

func baseType(ct string) string {
	if i := strings.Index(ct, ";"); i >= 0 {
		ct = ct[:i]
	}
	return strings.ToLower(strings.TrimSpace(ct))
}

// judgeResponse evaluates a wire response against the documented response of its status.
// meant: the media type under which the design documents this kind of response ("" = unknown); when the document
// has an entry for it the body is judged against THAT entry and a different Content-Type is reported as such.
func (d *oaDoc) judgeResponse(wr *rt.WireReq, w *rt.WireResp, meant string) (errs []string, undecided string) {
	u, err := url.Parse(wr.URL)
	if err != nil {
		return nil, "url"
	}
	op, _, _ := d.operation(wr.Method, u.EscapedPath())
	if op == nil {
		return nil, "no operation"
	}
	resps, _ := op["responses"].(map[string]any)
	var r map[string]any
	for _, k := range []string{itoa(w.Status), "default"} {
		if x := d.deref(resps[k]); x != nil {
			r = x
			break
		}
	}
	if r == nil {
		return []string{"status-not-documented@status: " + itoa(w.Status)}, ""
	}
	content, _ := r["content"].(map[string]any)
	if len(content) > 0 {
		actual := baseType(first(headerVals(w.Header, "Content-Type")))
		var schema any
		found := false
		var keys []string
		for ct, c := range content {
			keys = append(keys, ct)
			if baseType(ct) == actual {
				found = true
				if cm, ok := c.(map[string]any); ok {
					schema = cm["schema"]
				}
			}
		}
		sort.Strings(keys)
		if mc, ok := content[meant].(map[string]any); ok && meant != "" && baseType(meant) != actual {
			// the entry meant for this response exists under another media type than the one served
			found, schema = true, mc["schema"]
			if len(w.Body) > 0 {
				errs = append(errs, "content-type@header: "+actual+" served, documented "+meant)
			}
		}
		if !found {
			if len(w.Body) > 0 {
				errs = append(errs, "content-type@header: "+actual+" served, documented "+strings.Join(keys, ","))
			}
			if len(content) == 1 {
				for _, c := range content {
					if cm, ok := c.(map[string]any); ok {
						schema = cm["schema"]
					}
				}
			}
		}
		if schema != nil && len(w.Body) > 0 && (strings.Contains(actual, "json") || actual == "") {
			var body any
			dec := json.NewDecoder(strings.NewReader(string(w.Body)))
			dec.UseNumber()
			if err := dec.Decode(&body); err != nil {
				errs = append(errs, "decode@body: "+err.Error())
			} else {
				d.eval(schema, body, "body", &errs, 0)
			}
		}
	} else if len(w.Body) > 0 && strings.TrimSpace(string(w.Body)) != "" && strings.TrimSpace(string(w.Body)) != "null" {
		errs = append(errs, "undocumented-body@body: response has a body but none is documented")
	}
	headers, _ := r["headers"].(map[string]any)
	for name, hv := range headers {
		hm := d.deref(hv)
		if hm == nil {
			continue
		}
		vals := headerVals(w.Header, name)
		req, _ := hm["required"].(bool)
		if len(vals) == 0 {
			if req {
				errs = append(errs, "required@header:"+strings.ToLower(name)+": missing")
			}
			continue
		}
		errs = append(errs, d.evalHeader(hm["schema"], vals, "header:"+strings.ToLower(name))...)
	}
	return errs, ""
}

func first(s []string) string {
	if len(s) > 0 {
		return s[0]
	}
	return ""
}

func itoa(i int) string {
	b, _ := json.Marshal(i)
	return string(b)
}

var _ = http.StatusOK

// requestBodySchema returns the JSON request body schema of the operation a wire request matches.
func (d *oaDoc) requestBodySchema(w *rt.WireReq) any {
	u, err := url.Parse(w.URL)
	if err != nil {
		return nil
	}
	op, _, _ := d.operation(w.Method, u.EscapedPath())
	if op == nil {
		return nil
	}
	rb := d.deref(op["requestBody"])
	if rb == nil {
		return nil
	}
	content, _ := rb["content"].(map[string]any)
	for ct, c := range content {
		if strings.Contains(ct, "json") {
			if cm, ok := c.(map[string]any); ok {
				return cm["schema"]
			}
		}
	}
	return nil
}

// walk follows a site path (".a", "[0]", "{key}", "{<map key>}" steps) through a schema. It returns the node the
// path ends at, or the reason the schema does not describe that location:
// "map-key" (the path names a map key: OpenAPI 3.0 schemas cannot constrain keys), "free-form" (the path enters
// a map documented as additionalProperties: true), "lost" (the schema has no such member).
func (d *oaDoc) walk(schema any, path string) (map[string]any, string) {
	cur := d.deref(schema)
	i := 0
	for i < len(path) {
		if cur == nil {
			return nil, "lost"
		}
		switch path[i] {
		case '.':
			j := i + 1
			for j < len(path) && path[j] != '.' && path[j] != '[' && path[j] != '{' {
				j++
			}
			props, _ := cur["properties"].(map[string]any)
			nxt, ok := props[path[i+1:j]]
			if !ok {
				return nil, "lost"
			}
			cur = d.deref(nxt)
			i = j
		case '[':
			j := strings.IndexByte(path[i:], ']')
			if j < 0 {
				return nil, "lost"
			}
			it, ok := cur["items"]
			if !ok {
				return nil, "lost"
			}
			cur = d.deref(it)
			i += j + 1
		case '{':
			j := strings.IndexByte(path[i:], '}')
			if j < 0 {
				return nil, "lost"
			}
			if path[i:i+j+1] == "{key}" {
				return nil, "map-key"
			}
			switch ap := cur["additionalProperties"].(type) {
			case bool:
				if ap {
					return nil, "free-form"
				}
				return nil, "lost"
			case nil:
				if t, _ := cur["type"].(string); t == "object" || t == "" {
					return nil, "free-form" // an object without properties/additionalProperties accepts any member
				}
				return nil, "lost"
			default:
				cur = d.deref(ap)
			}
			i += j + 1
		default:
			return nil, "lost"
		}
	}
	if cur == nil {
		return nil, "lost"
	}
	return cur, ""
}

// catchAllSpansSegments reports whether the request path extends a documented path template of the same verb
// whose LAST segment is a parameter: the only way the server can have served it is a catch-all ("{*name}")
// route, which the document renders as an ordinary single-segment parameter.
func (d *oaDoc) catchAllSpansSegments(w *rt.WireReq) bool {
	u, err := url.Parse(w.URL)
	if err != nil {
		return false
	}
	segs := strings.Split(strings.Trim(u.EscapedPath(), "/"), "/")
	paths, _ := d.root["paths"].(map[string]any)
	for tmpl, it := range paths {
		im, _ := it.(map[string]any)
		if _, ok := im[strings.ToLower(w.Method)]; !ok {
			continue
		}
		ts := strings.Split(strings.Trim(tmpl, "/"), "/")
		if len(ts) == 0 || len(segs) <= len(ts) {
			continue
		}
		last := ts[len(ts)-1]
		if !strings.HasPrefix(last, "{") || !strings.HasSuffix(last, "}") {
			continue
		}
		ok := true
		for i := 0; i < len(ts)-1; i++ {
			if strings.HasPrefix(ts[i], "{") && strings.HasSuffix(ts[i], "}") {
				continue
			}
			if ts[i] != segs[i] {
				ok = false
				break
			}
		}
		if ok {
			return true
		}
	}
	return false
}

// evalHeader judges the value(s) of a header. An array-typed header (style simple) is a comma separated list;
// HTTP allows the list to be spread over several header lines and optional white space around the commas, and a
// string element may itself contain a comma: both readings (every line is one element / lines are split on commas)
// are tried and the one with fewer complaints judges.
func (d *oaDoc) evalHeader(schema any, vals []string, path string) []string {
	readings := [][]string{vals}
	if s := d.deref(schema); s != nil {
		if t, _ := s["type"].(string); t == "array" {
			var split []string
			for _, line := range vals {
				for _, e := range strings.Split(line, ",") {
					split = append(split, strings.TrimSpace(e))
				}
			}
			if len(split) != len(vals) {
				readings = append(readings, split)
			}
		}
	}
	var best []string
	for i, r := range readings {
		var errs []string
		val, perr := d.parseParam(schema, r)
		if perr != "" {
			errs = append(errs, "type@"+path+": "+perr)
		} else {
			d.eval(schema, val, path, &errs, 0)
		}
		if i == 0 || len(errs) < len(best) {
			best = errs
		}
	}
	return best
}

// queryObject deserialises an object-valued query parameter. deepObject: name[key]=value pairs. form (the default
// style of the query location) with explode (its default): every member is a query parameter of its own, so every
// query name no other documented parameter claims is a member. form without explode: name=k1,v1,k2,v2.
func (d *oaDoc) queryObject(p oaParam, schema map[string]any, q url.Values, all []oaParam) (map[string]any, string) {
	member := func(key string) any {
		if props, ok := schema["properties"].(map[string]any); ok {
			if ms, ok := props[key]; ok {
				return ms
			}
		}
		if ap, ok := schema["additionalProperties"]; ok {
			if _, isBool := ap.(bool); !isBool {
				return ap
			}
		}
		return nil
	}
	obj := map[string]any{}
	put := func(key string, vals []string) string {
		ms := member(key)
		if ms == nil {
			if len(vals) == 1 {
				obj[key] = vals[0]
			} else {
				out := make([]any, len(vals))
				for i, v := range vals {
					out[i] = v
				}
				obj[key] = out
			}
			return ""
		}
		if mm := d.deref(ms); mm != nil && mm["type"] != "array" && len(vals) > 1 {
			return "several values for the scalar member " + key
		}
		v, perr := d.parseParam(ms, vals)
		if perr != "" {
			return "member " + key + ": " + perr
		}
		obj[key] = v
		return ""
	}
	style := p.style
	if style == "" {
		style = "form"
	}
	explode := style == "form"
	if p.explode != nil {
		explode = *p.explode
	}
	switch {
	case style == "deepObject":
		for name, vals := range q {
			if strings.HasPrefix(name, p.name+"[") && strings.HasSuffix(name, "]") {
				if e := put(name[len(p.name)+1:len(name)-1], vals); e != "" {
					return nil, e
				}
			}
		}
	case style == "form" && explode:
		claimed := map[string]bool{}
		for _, o := range all {
			if o.in == "query" && o.name != p.name {
				claimed[o.name] = true
			}
		}
		for name, vals := range q {
			if !claimed[name] {
				if e := put(name, vals); e != "" {
					return nil, e
				}
			}
		}
	case style == "form":
		for _, raw := range q[p.name] {
			parts := strings.Split(raw, ",")
			for i := 0; i+1 < len(parts); i += 2 {
				if e := put(parts[i], []string{parts[i+1]}); e != "" {
					return nil, e
				}
			}
		}
	default:
		return nil, "style " + style + " is not defined for objects in the query string"
	}
	return obj, ""
}
