package oracle

import (
	"encoding/json"
	"fmt"
	"math/big"
	"net/http"
	"net/url"
	"strconv"
	"strings"

	"verif.local/lab/cases"
	"verif.local/lab/rt"
	"verif.local/lab/spec"
	"verif.local/lab/valgen"
	"verif.local/lab/vtree"
)

// textEq compares a wire text with a leaf as VALUES of the leaf's kind (so "1e+06" == 1000000 for floats).
func textEq(text string, leaf any) bool {
	switch vtree.Kind(leaf) {
	case "s":
		return text == vtree.Text(leaf)
	case "b":
		b, err := strconv.ParseBool(text)
		return err == nil && strconv.FormatBool(b) == vtree.Text(leaf)
	case "i", "u":
		x, ok1 := new(big.Int).SetString(text, 10)
		y, ok2 := new(big.Int).SetString(vtree.Text(leaf), 10)
		return ok1 && ok2 && x.Cmp(y) == 0
	case "f", "f32":
		bits := 64
		if vtree.Kind(leaf) == "f32" {
			bits = 32
		}
		x, e1 := strconv.ParseFloat(text, bits)
		y, e2 := strconv.ParseFloat(vtree.Text(leaf), bits)
		return e1 == nil && e2 == nil && x == y
	case "y":
		return text == cases.TextOf(leaf)
	case "a":
		return text == cases.TextOf(leaf)
	}
	return false
}

// listEq compares wire values with an array leaf list; a comma-joined single value is also a standard list encoding.
func listEq(vals []string, arr []any) bool {
	try := func(vs []string) bool {
		if len(vs) != len(arr) {
			return false
		}
		for i := range vs {
			if !textEq(vs[i], arr[i]) {
				return false
			}
		}
		return true
	}
	if try(vals) {
		return true
	}
	var split []string
	for _, v := range vals {
		for _, p := range strings.Split(v, ",") {
			split = append(split, strings.TrimSpace(p))
		}
	}
	return try(split)
}

func cookiesOf(h map[string][]string, name string) map[string]string {
	out := map[string]string{}
	for _, line := range headerVals(h, name) {
		if name == "Set-Cookie" {
			if i := strings.Index(line, ";"); i >= 0 {
				line = line[:i]
			}
			if i := strings.Index(line, "="); i > 0 {
				out[strings.TrimSpace(line[:i])] = strings.Trim(line[i+1:], `"`)
			}
			continue
		}
		for _, part := range strings.Split(line, ";") {
			part = strings.TrimSpace(part)
			if i := strings.Index(part, "="); i > 0 {
				out[part[:i]] = strings.Trim(part[i+1:], `"`)
			}
		}
	}
	return out
}

// pathVarsOf matches the escaped request path against the route templates of a method.
func pathVarsOf(sp *spec.Spec, sv *spec.Service, m *spec.Method, escPath string) map[string]string {
	segs := strings.Split(strings.Trim(escPath, "/"), "/")
	for ri := range m.HTTP.Routes {
		ts := strings.Split(strings.Trim(cases.FullPath(sp, sv, m, ri), "/"), "/")
		if n := len(ts); n > 0 && strings.HasPrefix(ts[n-1], "{*") && len(segs) >= n-1 {
			// trailing catch-all: the rest of the path, unescaped piece by piece
			rest := segs[n-1:]
			for i := range rest {
				if u, err := url.PathUnescape(rest[i]); err == nil {
					rest[i] = u
				}
			}
			segs = append(append([]string{}, segs[:n-1]...), url.PathEscape(strings.Join(rest, "/")))
		}
		if len(ts) != len(segs) {
			continue
		}
		vars := map[string]string{}
		ok := true
		for i := range ts {
			if strings.HasPrefix(ts[i], "{") {
				u, err := url.PathUnescape(segs[i])
				if err != nil {
					ok = false
					break
				}
				vars[strings.Trim(ts[i], "{}*")] = u
			} else if ts[i] != segs[i] {
				ok = false
				break
			}
		}
		if ok {
			return vars
		}
	}
	return nil
}

// RequestPlacement checks that every attribute present in the payload travels in exactly the location
// the design assigns it, under its wire name, and nowhere else.
func RequestPlacement(sp *spec.Spec, sv *spec.Service, m *spec.Method, ex *rt.Exchange, v *Verdict) {
	h := m.HTTP
	w := ex.WireReq
	if h == nil || w == nil || m.Payload == nil || ex.Case.NoPay {
		return
	}
	prt, _ := sp.Resolve(m.Payload.Type)
	if prt == nil || prt.Kind != spec.Object {
		return
	}
	if h.Multipart {
		// the framing is judged here; the JSON of the codec's part then stands for the body (multipart.go)
		if w = multipartWire(w, v); w == nil {
			return
		}
	}
	sent, _ := ex.Case.Sent.(map[string]any)
	u, err := url.Parse(w.URL)
	if err != nil {
		return
	}
	q := u.Query()
	cookies := cookiesOf(w.Header, "Cookie")
	var body map[string]any
	bodyIsObject := false
	if len(w.Body) > 0 && !strings.HasPrefix(h.Body, "attr:") {
		dec := json.NewDecoder(strings.NewReader(string(w.Body)))
		dec.UseNumber()
		if dec.Decode(&body) == nil && body != nil {
			bodyIsObject = true
		}
	}
	pvars := pathVarsOf(sp, sv, m, u.EscapedPath())
	wireOf := func(locs []spec.Loc, attr string) (string, bool) {
		for _, l := range locs {
			if l.Attr == attr {
				return l.WireName(), true
			}
		}
		return "", false
	}
	// names legitimately used per location
	used := map[string]map[string]bool{"query": {}, "header": {}, "cookie": {}, "body": {}}
	for _, l := range h.Query {
		used["query"][l.WireName()] = true
	}
	for _, l := range h.Headers {
		used["header"][strings.ToLower(l.WireName())] = true
	}
	for _, l := range h.Cookies {
		used["cookie"][l.WireName()] = true
	}
	for _, a := range cases.BodyAttrs(sp, m) {
		used["body"][a.Name] = true
	}
	for _, a := range prt.Attrs {
		val, present := sent[a.Name]
		if !present || val == nil || a.Sec != "" {
			continue
		}
		if vtree.Empty(vtree.Norm(val)) {
			continue
		}
		if a.HasDef && vtree.IsZeroLeaf(val) {
			continue // zero value of a defaulted attribute may be omitted (ambiguity class)
		}
		loc := cases.LocOf(h, a.Name)
		kind := kindOf(sp, a.Type)
		arr, isArr := val.([]any)
		bad := func(problem, format string, args ...any) {
			v.add(fmt.Sprintf("wire-placement:%s:%s:%s", locName(loc), kind, problem), "attribute %q: "+format, append([]any{a.Name}, args...)...)
		}
		var wire string
		switch loc {
		case valgen.Path:
			wire, _ = wireOf(h.Path, a.Name)
			got, ok := pvars[wire]
			if pvars == nil {
				bad("path-does-not-match-template", "request path %s matches no route template", u.EscapedPath())
			} else if !ok || !textEq(got, val) {
				bad("wrong-value", "path segment {%s} carries %q, payload value %s", wire, got, vtree.Show(val))
			}
		case valgen.Query:
			wire, _ = wireOf(h.Query, a.Name)
			if mm, isMap := vtree.IsMap(val); isMap {
				// a map travels as name[key]=value pairs under the designed name
				for k, e := range mm {
					name := wire + "[" + cases.TextOf(k) + "]"
					vals, ok := q[name]
					earr, eIsArr := e.([]any)
					switch {
					case !ok:
						bad("missing", "map entry not found in the query string under %q (query: %s)", name, u.RawQuery)
					case eIsArr && !listEq(vals, earr):
						bad("wrong-value", "query %q carries %v, payload value %s", name, vals, vtree.Show(e))
					case !eIsArr && (len(vals) != 1 || !textEq(vals[0], e)):
						bad("wrong-value", "query %q carries %v, payload value %s", name, vals, vtree.Show(e))
					}
				}
				for name := range q {
					if i := strings.Index(name, "["); i > 0 && strings.HasSuffix(name, "]") && name[:i] == wire {
						found := false
						for k := range mm {
							if cases.TextOf(k) == name[i+1:len(name)-1] {
								found = true
							}
						}
						if !found {
							bad("spurious-entry", "query carries %q which is no entry of the payload map %s", name, vtree.Show(val))
						}
					}
				}
				continue
			}
			vals, ok := q[wire]
			switch {
			case !ok:
				bad("missing", "not found in the query string under %q (query: %s)", wire, u.RawQuery)
			case isArr && !listEq(vals, arr):
				bad("wrong-value", "query %q carries %v, payload value %s", wire, vals, vtree.Show(val))
			case !isArr && (len(vals) != 1 || !textEq(vals[0], val)):
				bad("wrong-value", "query %q carries %v, payload value %s", wire, vals, vtree.Show(val))
			}
		case valgen.Header:
			wire, _ = wireOf(h.Headers, a.Name)
			vals := headerVals(w.Header, wire)
			switch {
			case len(vals) == 0:
				bad("missing", "header %q not sent", wire)
			case isArr && !listEq(vals, arr):
				bad("wrong-value", "header %q carries %v, payload value %s", wire, vals, vtree.Show(val))
			case !isArr && (len(vals) != 1 || !textEq(vals[0], val)):
				bad("wrong-value", "header %q carries %v, payload value %s", wire, vals, vtree.Show(val))
			}
		case valgen.Cookie:
			wire, _ = wireOf(h.Cookies, a.Name)
			got, ok := cookies[wire]
			if !ok {
				bad("missing", "cookie %q not sent", wire)
			} else if !textEq(got, val) {
				bad("wrong-value", "cookie %q carries %q, payload value %s", wire, got, vtree.Show(val))
			}
		case valgen.Body:
			wire = a.Name
			if strings.HasPrefix(h.Body, "attr:") || h.Body == "empty" {
				continue
			}
			if !bodyIsObject {
				bad("missing", "no JSON object body although the attribute is designed to travel in it")
				continue
			}
			bv, ok := body[wire]
			if !ok || bv == nil {
				bad("missing", "member %q missing from the JSON body", wire)
			} else if leaf, isLeaf := val.(string); isLeaf {
				switch bx := bv.(type) {
				case json.Number:
					if !textEq(bx.String(), leaf) {
						bad("wrong-value", "body member %q is %s, payload value %s", wire, bx, vtree.Show(val))
					}
				case string:
					if vtree.Kind(leaf) == "s" && bx != vtree.Text(leaf) {
						bad("wrong-value", "body member %q is %q, payload value %s", wire, bx, vtree.Show(val))
					}
				case bool:
					if vtree.Kind(leaf) == "b" && strconv.FormatBool(bx) != vtree.Text(leaf) {
						bad("wrong-value", "body member %q is %v, payload value %s", wire, bx, vtree.Show(val))
					}
				}
			}
		}
		// nowhere else
		if loc != valgen.Query {
			if _, dup := q[wire]; dup && wire != "" && !used["query"][wire] {
				bad("duplicated-in-query", "also present in the query string")
			}
		}
		if loc != valgen.Header && wire != "" && !used["header"][strings.ToLower(wire)] {
			if len(headerVals(w.Header, wire)) > 0 && !isStdHeader(wire) {
				bad("duplicated-in-header", "also present as a header")
			}
		}
		if loc != valgen.Cookie && wire != "" && !used["cookie"][wire] {
			if _, dup := cookies[wire]; dup {
				bad("duplicated-in-cookie", "also present as a cookie")
			}
		}
		if loc != valgen.Body && bodyIsObject && !used["body"][a.Name] {
			if _, dup := body[a.Name]; dup {
				bad("duplicated-in-body", "also present in the JSON body although it is mapped to the %s", locName(loc))
			}
		}
	}
	// member names of the JSON body, at every depth: the design's attribute names, spelled exactly
	if len(w.Body) > 0 && h.Body != "empty" {
		var got any
		dec := json.NewDecoder(strings.NewReader(string(w.Body)))
		dec.UseNumber()
		if dec.Decode(&got) == nil {
			var want any
			if strings.HasPrefix(h.Body, "attr:") {
				want = sent[strings.TrimPrefix(h.Body, "attr:")]
			} else {
				o := map[string]any{}
				for _, a := range cases.BodyAttrs(sp, m) {
					if x, ok := sent[a.Name]; ok {
						o[a.Name] = x
					}
				}
				want = o
			}
			memberNames("body", want, got, func(path, wantName, gotName string) {
				v.add("wire-placement:body:member-name:request", "JSON body member at %s is spelled %q on the wire, the design names it %q", path, gotName, wantName)
			})
			unionWire("body", want, got, func(problem, what string) { // union.go
				v.add("wire-placement:body:union:"+problem+":request", "%s", what)
			})
		}
	}
}

// memberNames walks a sent tree and the JSON value found on the wire side by side and reports every
// object member that is present on the wire under a name differing from the design's attribute name
// only by case or separators (Go's case-insensitive decoding hides such a slip from a Go peer).
func memberNames(path string, want, got any, report func(path, wantName, gotName string)) {
	switch wv := want.(type) {
	case []any:
		ga, _ := got.([]any)
		for i := range wv {
			if i < len(ga) {
				memberNames(fmt.Sprintf("%s[%d]", path, i), wv[i], ga[i], report)
			}
		}
	case map[string]any:
		gm, ok := got.(map[string]any)
		if !ok {
			return
		}
		if mm, isMap := vtree.IsMap(want); isMap {
			for k, e := range mm {
				if g, ok := gm[cases.TextOf(k)]; ok {
					memberNames(path+"{}", e, g, report)
				}
			}
			return
		}
		if _, uv, isU := vtree.IsUnion(want); isU {
			_ = uv
			return
		}
		for name, e := range wv {
			if e == nil || vtree.Empty(vtree.Norm(e)) {
				continue
			}
			if g, ok := gm[name]; ok {
				memberNames(path+"."+name, e, g, report)
				continue
			}
			for gname, g := range gm {
				if spec.Norm(gname) == spec.Norm(name) {
					report(path+"."+name, name, gname)
					memberNames(path+"."+name, e, g, report)
					break
				}
			}
		}
	}
}

func isStdHeader(n string) bool {
	switch http.CanonicalHeaderKey(n) {
	case "Content-Type", "Content-Length", "Accept", "Host", "User-Agent", "Cookie", "Authorization":
		return true
	}
	return false
}

// ResponsePlacement checks the designed location of every result attribute on the wire.
func ResponsePlacement(sp *spec.Spec, m *spec.Method, ex *rt.Exchange, v *Verdict) {
	w := ex.WireResp
	oc := ex.Case.Outcome
	if m.HTTP == nil || w == nil || oc == nil || m.Result == nil {
		return
	}
	rrt, _ := sp.Resolve(m.Result.Type)
	if rrt != nil && (rrt.Kind == spec.String || rrt.Kind == spec.Bytes) {
		textBodyPlacement(rrt.Kind, pickResponse(m, oc.Result), oc.Result, w, v)
		return
	}
	if rrt == nil || rrt.Kind != spec.Object {
		return
	}
	res, _ := oc.Result.(map[string]any)
	resp := pickResponse(m, oc.Result)
	cookies := cookiesOf(w.Header, "Set-Cookie")
	var body map[string]any
	bodyIsObject := false
	if len(w.Body) > 0 {
		dec := json.NewDecoder(strings.NewReader(string(w.Body)))
		dec.UseNumber()
		if dec.Decode(&body) == nil && body != nil {
			bodyIsObject = true
		}
	}
	explicitBody := resp != nil && (resp.Body == "empty" || strings.HasPrefix(resp.Body, "attr:"))
	if explicitBody {
		// Body(Empty): nothing may be written; Body("attr"): the body IS the encoding of that attribute
		switch {
		case resp.Body == "empty" && len(strings.TrimSpace(string(w.Body))) > 0:
			v.add("result-wire-placement:body:explicit-empty:not-empty", "the selected response declares Body(Empty) but a body was written: %s", trunc(string(w.Body), 120))
		case strings.HasPrefix(resp.Body, "attr:"):
			name := strings.TrimPrefix(resp.Body, "attr:")
			if val, ok := res[name]; ok && val != nil && !vtree.Empty(vtree.Norm(val)) {
				var got any
				dec := json.NewDecoder(strings.NewReader(string(w.Body)))
				dec.UseNumber()
				if err := dec.Decode(&got); err != nil {
					v.add("result-wire-placement:body:explicit-attr:not-json", "the selected response declares Body(%q) but the body does not decode: %s", name, trunc(string(w.Body), 120))
				} else if o, isObj := got.(map[string]any); isObj {
					if _, wrapped := o[name]; wrapped && kindOf(sp, rrt.Attr(name).Type) != "object" {
						v.add("result-wire-placement:body:explicit-attr:wrapped", "the selected response declares Body(%q): the body must be the value itself, not an object holding it: %s", name, trunc(string(w.Body), 120))
					}
				}
			}
		}
	}
	inBody := map[string]bool{}
	for _, a := range rrt.Attrs {
		if cases.RespLocOf(resp, a.Name) == valgen.Body {
			inBody[a.Name] = true
		}
	}
	for _, a := range rrt.Attrs {
		val, present := res[a.Name]
		if !present || val == nil || vtree.Empty(vtree.Norm(val)) {
			continue
		}
		if explicitBody && cases.RespLocOf(resp, a.Name) == valgen.Body {
			continue // judged above (the body attribute) or dropped by design
		}
		if a.HasDef && vtree.IsZeroLeaf(val) {
			continue
		}
		loc := cases.RespLocOf(resp, a.Name)
		kind := kindOf(sp, a.Type)
		arr, isArr := val.([]any)
		bad := func(problem, format string, args ...any) {
			v.add(mkKey("mismatch:header-array", fmt.Sprintf("result-wire-placement:%s:%s:%s", locName(loc), kind, problem), "", placementTags(isArr && loc == valgen.Header)), "result attribute %q: "+format, append([]any{a.Name}, args...)...)
		}
		switch loc {
		case valgen.Header:
			wire := a.Name
			for _, l := range resp.Headers {
				if l.Attr == a.Name {
					wire = l.WireName()
				}
			}
			vals := headerVals(w.Header, wire)
			switch {
			case len(vals) == 0:
				bad("missing", "response header %q not written", wire)
			case isArr && !listEq(vals, arr):
				bad("wrong-value", "response header %q carries %v, result value %s", wire, vals, vtree.Show(val))
			case !isArr && (len(vals) != 1 || !textEq(vals[0], val)):
				bad("wrong-value", "response header %q carries %v, result value %s", wire, vals, vtree.Show(val))
			}
			if bodyIsObject {
				if _, dup := body[a.Name]; dup && !inBody[a.Name] {
					bad("duplicated-in-body", "also present in the JSON body although it is mapped to a header")
				}
			}
		case valgen.Cookie:
			cname := a.Name
			for _, l := range resp.Cookies {
				if l.Attr == a.Name {
					cname = l.WireName()
				}
			}
			got, ok := cookies[cname]
			if !ok {
				bad("missing", "response cookie %q not set", cname)
			} else if !textEq(got, val) {
				bad("wrong-value", "response cookie %q carries %q, result value %s", cname, got, vtree.Show(val))
			}
		case valgen.Body:
			if !bodyIsObject {
				bad("missing", "no JSON object body although the attribute is designed to travel in it")
				continue
			}
			if bv, ok := body[a.Name]; !ok || bv == nil {
				bad("missing", "member %q missing from the JSON body", a.Name)
			}
		}
	}
	if bodyIsObject && (resp == nil || (resp.Body == "" || resp.Body == "custom")) {
		o := map[string]any{}
		for name := range inBody {
			if x, ok := res[name]; ok {
				o[name] = x
			}
		}
		memberNames("body", o, map[string]any(body), func(path, wantName, gotName string) {
			v.add("wire-placement:body:member-name:response", "JSON body member at %s is spelled %q on the wire, the design names it %q", path, gotName, wantName)
		})
		unionWire("body", o, map[string]any(body), func(problem, what string) { // union.go
			v.add("wire-placement:body:union:"+problem+":response", "%s", what)
		})
	}
}

func placementTags(headerArray bool) []string {
	if headerArray {
		return []string{"header-array-multi"}
	}
	return nil
}

// textBodyPlacement judges a String/Bytes result announced with a text media type: the body is the value
// itself (not its JSON spelling) and the Content-Type header announces the designed type.
func textBodyPlacement(kind string, resp *spec.HTTPResponse, result any, w *rt.WireResp, v *Verdict) {
	if resp == nil || resp.ContentType == "" || result == nil {
		return
	}
	mt := strings.ToLower(strings.TrimSpace(strings.SplitN(resp.ContentType, ";", 2)[0]))
	if !(strings.HasPrefix(mt, "text/") || strings.HasSuffix(mt, "+txt") || strings.HasSuffix(mt, "+html")) {
		return
	}
	got := strings.ToLower(strings.Join(w.Header["Content-Type"], ","))
	if !strings.HasPrefix(got, mt) {
		v.add("result-wire-placement:body:"+kind+":text-content-type", "response announces Content-Type %q, the design fixes %q", got, resp.ContentType)
		return
	}
	var want []byte
	switch kind {
	case spec.String:
		want = []byte(vtree.Text(result))
	default:
		b, ok := vtree.BytesOf(result)
		if !ok {
			return
		}
		want = b
	}
	if string(w.Body) != string(want) {
		v.add("result-wire-placement:body:"+kind+":text-body", "text response body is %q, the result value is %q", trunc(string(w.Body), 120), trunc(string(want), 120))
	}
}
