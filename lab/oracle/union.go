package oracle

import (
	"encoding/json"
	"fmt"
	"math/big"
	"sort"
	"strings"

	"verif.local/lab/cases"
	"verif.local/lab/spec"
	"verif.local/lab/vtree"
)

// Unions (OneOf attributes) in the reference models. A union value is the tree {"$union": <name of the
// alternative>, "$value": v}. The design means: exactly one alternative is selected, by name, and the value
// is a value of that alternative's type -- with that alternative's validations, defaults and required
// attributes. On the wire goa documents {"Type": <name>, "Value": "<JSON text of the value>"} (cases/union.go).

// expectUnion: the receiving side must observe the same alternative holding the expected form of its value.
func expectUnion(sp *spec.Spec, ut *spec.Type, sent any, depth int) any {
	n, uv, ok := vtree.IsUnion(sent)
	if !ok {
		return sent
	}
	alt := ut.Attr(n)
	if alt == nil {
		return sent
	}
	return map[string]any{"$union": n, "$value": Expect(sp, alt.Type, uv, nil, nil, depth+1)}
}

// validateUnion is the union case of the reference validator.
func validateUnion(sp *spec.Spec, ut *spec.Type, v any, path string, out *[]Violation, undecided *[]string, depth int) {
	n, uv, ok := vtree.IsUnion(v)
	if !ok {
		*out = append(*out, Violation{"type", path, spec.Union})
		return
	}
	alt := ut.Attr(n)
	if alt == nil {
		*out = append(*out, Violation{"uniontype", path, spec.Union})
		return
	}
	if uv == nil {
		*out = append(*out, Violation{"required", path + cases.UnionStep + n, kindOf(sp, alt.Type)})
		return
	}
	Validate(sp, alt.Type, alt.Val, uv, path+cases.UnionStep+n, out, undecided, depth+1)
}

// unionWire walks a value tree and the JSON value found on the wire side by side and judges the
// representation of every union value against the documented one: an object with exactly the members "Type"
// (the alternative's name) and "Value" (a string holding the JSON encoding of the value: scalars as JSON
// scalars, user types as objects keyed by the design's attribute names).
func unionWire(path string, want, got any, report func(problem, what string)) {
	switch wv := want.(type) {
	case []any:
		ga, _ := got.([]any)
		for i := range wv {
			if i < len(ga) {
				unionWire(fmt.Sprintf("%s[%d]", path, i), wv[i], ga[i], report)
			}
		}
	case map[string]any:
		if mm, isMap := vtree.IsMap(want); isMap {
			gm, _ := got.(map[string]any)
			for k, e := range mm {
				if g, ok := gm[cases.TextOf(k)]; ok {
					unionWire(path+"{}", e, g, report)
				}
			}
			return
		}
		if alt, uv, isU := vtree.IsUnion(want); isU {
			unionNodeWire(path, alt, uv, got, report)
			return
		}
		gm, ok := got.(map[string]any)
		if !ok {
			return
		}
		for name, e := range wv {
			if e == nil {
				continue
			}
			g, ok := gm[name]
			if !ok {
				for gname, gg := range gm {
					if spec.Norm(gname) == spec.Norm(name) {
						g, ok = gg, true // the misspelt member name is reported by memberNames
						break
					}
				}
			}
			if ok {
				unionWire(path+"."+name, e, g, report)
			}
		}
	}
}

func unionNodeWire(path, alt string, uv any, got any, report func(problem, what string)) {
	gm, ok := got.(map[string]any)
	if !ok {
		report("not-an-object", fmt.Sprintf("union value at %s travels as %s, the documented form is an object with the members Type and Value", path, trunc(jsonText(got), 120)))
		return
	}
	var extra []string
	for k := range gm {
		if k != "Type" && k != "Value" {
			extra = append(extra, k)
		}
	}
	sort.Strings(extra)
	tv, hasT := gm["Type"]
	vv, hasV := gm["Value"]
	if !hasT || !hasV || len(extra) > 0 {
		report("members", fmt.Sprintf("union value at %s travels as an object with the members %v, the documented form has exactly Type and Value", path, memberKeys(gm)))
		return
	}
	if ts, ok := tv.(string); !ok || ts != alt {
		report("type-name", fmt.Sprintf("union value at %s: Type is %s on the wire, the selected alternative is named %q", path, jsonText(tv), alt))
	}
	vs, ok := vv.(string)
	if !ok {
		report("value-not-a-string", fmt.Sprintf("union value at %s: Value is %s on the wire, the documented form is a string holding the JSON encoding of the value", path, trunc(jsonText(vv), 120)))
		return
	}
	var inner any
	dec := json.NewDecoder(strings.NewReader(vs))
	dec.UseNumber()
	if err := dec.Decode(&inner); err != nil || dec.More() {
		report("value-not-json", fmt.Sprintf("union value at %s: Value holds %q which is not one JSON value", path, trunc(vs, 120)))
		return
	}
	// the inner value: compared as a value with the design's encoding of the selected alternative
	if problem, where := innerDiff(path+"|"+alt, uv, inner); problem != "" {
		report("value:"+problem, fmt.Sprintf("union value at %s (alternative %q): Value holds %s, the value is %s (%s at %s)", path, alt, trunc(vs, 160), vtree.Show(uv), problem, where))
	}
	// unions nested inside the alternative's own value
	unionWire(path+"|"+alt, uv, inner, report)
}

// innerDiff compares a value tree with the JSON value decoded from a union's Value text. It returns the
// class of the first difference: "member-name" (an object member spelled otherwise than the design's
// attribute name), "missing-member", "spurious-member", "kind", "wrong-value".
func innerDiff(path string, want, got any) (string, string) {
	switch wv := want.(type) {
	case nil:
		if got != nil {
			return "wrong-value", path
		}
		return "", ""
	case []any:
		ga, ok := got.([]any)
		if !ok {
			if got == nil && len(wv) == 0 {
				return "", ""
			}
			return "kind", path
		}
		if len(ga) != len(wv) {
			return "wrong-value", path
		}
		for i := range wv {
			if p, w := innerDiff(fmt.Sprintf("%s[%d]", path, i), wv[i], ga[i]); p != "" {
				return p, w
			}
		}
		return "", ""
	case map[string]any:
		if mm, isMap := vtree.IsMap(want); isMap {
			gm, ok := got.(map[string]any)
			if !ok {
				if got == nil && len(mm) == 0 {
					return "", ""
				}
				return "kind", path
			}
			if len(gm) != len(mm) {
				return "wrong-value", path
			}
			for k, e := range mm {
				g, ok := gm[cases.TextOf(k)]
				if !ok {
					return "wrong-value", path + "{" + cases.TextOf(k) + "}"
				}
				if p, w := innerDiff(path+"{"+cases.TextOf(k)+"}", e, g); p != "" {
					return p, w
				}
			}
			return "", ""
		}
		if _, _, isU := vtree.IsUnion(want); isU {
			return "", "" // judged by unionWire on its own
		}
		gm, ok := got.(map[string]any)
		if !ok {
			return "kind", path
		}
		names := make([]string, 0, len(wv))
		for name := range wv {
			names = append(names, name)
		}
		sort.Strings(names)
		seen := map[string]bool{}
		for _, name := range names {
			e := wv[name]
			g, ok := gm[name]
			if ok {
				seen[name] = true
			}
			if e == nil || vtree.Empty(vtree.Norm(e)) {
				continue // absent / empty collection: either spelling
			}
			if !ok {
				for gname := range gm {
					if spec.Norm(gname) == spec.Norm(name) {
						return "member-name", path + "." + name + " (spelled " + gname + ")"
					}
				}
				return "missing-member", path + "." + name
			}
			if p, w := innerDiff(path+"."+name, e, g); p != "" {
				return p, w
			}
		}
		gnames := memberKeys(gm)
		for _, gname := range gnames {
			if !seen[gname] && gm[gname] != nil {
				if _, declared := wv[gname]; !declared {
					// a member the sent value does not have: a zero value / null written for an unset attribute is
					// tolerated only when it is JSON null (handled above) -- anything else is a spurious member
					if isZeroJSON(gm[gname]) {
						continue
					}
					return "spurious-member", path + "." + gname
				}
			}
		}
		return "", ""
	case string:
		switch vtree.Kind(wv) {
		case "b":
			b, ok := got.(bool)
			if !ok {
				return "kind", path
			}
			if fmt.Sprint(b) != vtree.Text(wv) {
				return "wrong-value", path
			}
		case "i", "u":
			n, ok := got.(json.Number)
			if !ok {
				return "kind", path
			}
			x, ok1 := new(big.Float).SetString(n.String())
			y, ok2 := new(big.Float).SetString(vtree.Text(wv))
			if !ok1 || !ok2 || x.Cmp(y) != 0 {
				return "wrong-value", path
			}
		case "f", "f32":
			n, ok := got.(json.Number)
			if !ok {
				return "kind", path
			}
			if !textEq(n.String(), wv) {
				return "wrong-value", path
			}
		case "s":
			s, ok := got.(string)
			if !ok {
				return "kind", path
			}
			if s != vtree.Text(wv) {
				return "wrong-value", path
			}
		case "y":
			s, ok := got.(string)
			if !ok {
				if got == nil && vtree.Text(wv) == "" {
					return "", ""
				}
				return "kind", path
			}
			if s != vtree.Text(wv) {
				return "wrong-value", path
			}
		case "a":
			var x any
			if json.Unmarshal([]byte(vtree.Text(wv)), &x) != nil {
				return "", ""
			}
			a, _ := json.Marshal(x)
			var y any
			_ = json.Unmarshal([]byte(jsonText(got)), &y)
			b, _ := json.Marshal(y)
			if string(a) != string(b) {
				return "wrong-value", path
			}
		}
	}
	return "", ""
}

func isZeroJSON(v any) bool {
	switch x := v.(type) {
	case nil:
		return true
	case []any:
		return len(x) == 0
	case map[string]any:
		return len(x) == 0
	}
	return false
}

func jsonText(v any) string {
	b, err := json.Marshal(v)
	if err != nil {
		return fmt.Sprint(v)
	}
	return string(b)
}

func memberKeys(m map[string]any) []string {
	ks := make([]string, 0, len(m))
	for k := range m {
		ks = append(ks, k)
	}
	sort.Strings(ks)
	return ks
}
