package oracle

import (
	"encoding/json"
	"fmt"
	"regexp"
	"unicode/utf8"

	"verif.local/lab/spec"
	"verif.local/lab/valgen"
	"verif.local/lab/vtree"
)

// Violation is one design rule a value breaks.
type Violation struct {
	Rule string // required enum range length pattern format type
	Path string
	Kind string // spec kind of the attribute
}

// GoaName maps a rule to the goa error name reported for it.
func (v Violation) GoaName() string {
	switch v.Rule {
	case "required":
		return "missing_field"
	case "enum":
		return "invalid_enum_value"
	case "range":
		return "invalid_range"
	case "length":
		return "invalid_length"
	case "pattern":
		return "invalid_pattern"
	case "format":
		return "invalid_format"
	case "type":
		return "invalid_field_type"
	case "uniontype":
		return "invalid_enum_value" // the name of the alternative is documented as an enumeration of the alternatives' names
	}
	return v.Rule
}

var reCache = map[string]*regexp.Regexp{}

func match(p, s string) bool {
	re, ok := reCache[p]
	if !ok {
		re = regexp.MustCompile(p)
		reCache[p] = re
	}
	return re.MatchString(s)
}

// formatVerdict decides formats by construction class: values are only ever drawn from the
// valid/invalid pools of valgen, so membership decides. ok=false means undecidable.
func formatVerdict(f, s string) (valid bool, ok bool) {
	if f == "json" {
		// decidable for every string with the standard library alone
		return json.Valid([]byte(s)), true
	}
	for _, v := range valgen.FormatPool(f, true) {
		if v == s {
			return true, true
		}
	}
	for _, v := range valgen.FormatPool(f, false) {
		if v == s {
			return false, true
		}
	}
	return false, false
}

// Validate is the reference validator: it returns every rule the tree v breaks
// as a value of type t declared with validation val. Undecidable format checks
// are reported through undecided.
func Validate(sp *spec.Spec, t *spec.Type, val *spec.Val, v any, path string, out *[]Violation, undecided *[]string, depth int) {
	if depth > 40 {
		return
	}
	rt, _ := sp.Resolve(t)
	if rt == nil {
		rt = t
	}
	vals := valgen.AllVals(sp, t, val)
	if v == nil {
		return // absence is judged by the parent's required list
	}
	for _, vv := range vals {
		checkOne(rt.Kind, vv, v, path, out, undecided)
	}
	switch rt.Kind {
	case spec.Object:
		o, ok := v.(map[string]any)
		if !ok {
			*out = append(*out, Violation{"type", path, rt.Kind})
			return
		}
		for _, a := range rt.Attrs {
			av, present := o[a.Name]
			if av == nil {
				present = false
			}
			if present && !rt.IsRequired(a.Name) && vtree.Empty(vtree.Norm(av)) {
				continue // an empty collection of an optional attribute is absence (envelope decision)
			}
			if !present {
				if rt.IsRequired(a.Name) {
					*out = append(*out, Violation{"required", path + "." + a.Name, kindOf(sp, a.Type)})
				}
				continue
			}
			Validate(sp, a.Type, a.Val, av, path+"."+a.Name, out, undecided, depth+1)
		}
	case spec.Array:
		arr, ok := v.([]any)
		if !ok {
			*out = append(*out, Violation{"type", path, rt.Kind})
			return
		}
		for i, e := range arr {
			Validate(sp, rt.Elem.Type, rt.Elem.Val, e, fmt.Sprintf("%s[%d]", path, i), out, undecided, depth+1)
		}
	case spec.Map:
		m, ok := vtree.IsMap(v)
		if !ok {
			*out = append(*out, Violation{"type", path, rt.Kind})
			return
		}
		for k, e := range m {
			Validate(sp, rt.Key.Type, rt.Key.Val, k, path+"{key}", out, undecided, depth+1)
			Validate(sp, rt.Elem.Type, rt.Elem.Val, e, path+"{"+k+"}", out, undecided, depth+1)
		}
	case spec.Union:
		validateUnion(sp, rt, v, path, out, undecided, depth) // union.go
	}
}

func checkOne(kind string, m *spec.Val, v any, path string, out *[]Violation, undecided *[]string) {
	if m.Empty() {
		return
	}
	add := func(rule string) { *out = append(*out, Violation{rule, path, kind}) }
	if len(m.Enum) > 0 {
		found := false
		for _, e := range m.Enum {
			if vtree.Equal(e, v) {
				found = true
			}
		}
		if !found {
			add("enum")
		}
	}
	if f, ok := vtree.Float(v); ok && spec.IsNumeric(kind) {
		if m.Min != nil && f < *m.Min {
			add("range")
		}
		if m.Max != nil && f > *m.Max {
			add("range")
		}
		if m.ExclMin != nil && f <= *m.ExclMin {
			add("range")
		}
		if m.ExclMax != nil && f >= *m.ExclMax {
			add("range")
		}
	}
	if m.MinLen != nil || m.MaxLen != nil {
		n := -1
		switch {
		case vtree.Kind(v) == "s":
			n = utf8.RuneCountInString(vtree.Text(v))
		case vtree.Kind(v) == "y":
			n = len(decodeB64(vtree.Text(v)))
		default:
			if arr, ok := v.([]any); ok {
				n = len(arr)
			} else if mm, ok := vtree.IsMap(v); ok {
				n = len(mm)
			}
		}
		if n >= 0 {
			if m.MinLen != nil && n < *m.MinLen {
				add("length")
			}
			if m.MaxLen != nil && n > *m.MaxLen {
				add("length")
			}
		}
	}
	if vtree.Kind(v) == "s" {
		s := vtree.Text(v)
		if m.Pattern != "" && !match(m.Pattern, s) {
			add("pattern")
		}
		if m.Format != "" {
			valid, ok := formatVerdict(m.Format, s)
			switch {
			case !ok:
				*undecided = append(*undecided, "format "+m.Format+" of "+s)
			case !valid:
				add("format")
			}
		}
	}
}
