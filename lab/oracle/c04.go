package oracle

import (
	"fmt"
	"sort"
	"strings"

	"verif.local/lab/cases"
	"verif.local/lab/rt"
	"verif.local/lab/spec"
	"verif.local/lab/valgen"
	"verif.local/lab/vtree"
)

func noteStr(c *rt.Case, k string) string {
	if c.Note == nil {
		return ""
	}
	s, _ := c.Note[k].(string)
	return s
}

func noteList(c *rt.Case, k string) []string {
	if c.Note == nil {
		return nil
	}
	var out []string
	switch x := c.Note[k].(type) {
	case []any:
		for _, e := range x {
			out = append(out, fmt.Sprint(e))
		}
	case []string:
		out = x
	}
	return out
}

func ruleNames(vs []Violation) (names []string, set map[string]bool) {
	set = map[string]bool{}
	for _, v := range vs {
		set[v.GoaName()] = true
	}
	for n := range set {
		names = append(names, n)
	}
	sort.Strings(names)
	return
}

// siteClass abstracts a site description "rule:side:path" into "rule:side".
func siteClass(desc string) string {
	p := strings.SplitN(desc, ":", 3)
	if len(p) >= 2 {
		return p[0] + ":" + p[1]
	}
	return desc
}

// sitePathLoc returns the wire location and kind of the top attribute of a site path.
func siteLocKind(sp *spec.Spec, m *spec.Method, attrDecl *spec.Attr, desc string, resp *spec.HTTPResponse, isResult bool) (string, string) {
	p := strings.SplitN(desc, ":", 3)
	if len(p) < 3 || attrDecl == nil {
		return "body", "?"
	}
	top := topAttr(p[2])
	rt, _ := sp.Resolve(attrDecl.Type)
	if rt == nil || rt.Kind != spec.Object {
		return "body", kindOf(sp, attrDecl.Type)
	}
	for _, a := range rt.Attrs {
		if a.Name == top {
			loc := cases.LocOf(m.HTTP, a.Name)
			if isResult {
				loc = cases.RespLocOf(resp, a.Name)
			}
			k := kindOf(sp, a.Type)
			if strings.Count(p[2], ".")+strings.Count(p[2], "[")+strings.Count(p[2], "{") > 1 {
				k += ":nested"
			}
			if strings.Contains(p[2], "|") {
				k += ":in-union" // the probed place lies inside the selected alternative of a union
			}
			return locName(loc), k
		}
	}
	return "body", "?"
}

// C04 judges that user code runs iff the request satisfies the design.
func C04(sp *spec.Spec, ex *rt.Exchange) *Verdict {
	v := &Verdict{}
	_, m := sp.FindMethod(ex.Case.Svc, ex.Case.Method)
	if m == nil {
		v.Inconclusive = "unknown method"
		return v
	}
	if ex.Case.Stream != nil {
		return c04Stream(sp, m, ex)
	}
	if ex.BuildErr != "" {
		v.Inconclusive = "value builder: " + firstLine(ex.BuildErr)
		return v
	}
	c := ex.Case
	mode := noteStr(c, "mode")
	site := noteStr(c, "site")
	// ---------- response-side probes: the client must refuse invalid results
	if strings.HasPrefix(c.Class, "result-probe:") {
		if ex.StubIn == nil {
			v.Inconclusive = "request did not reach the stub"
			return v
		}
		if ex.StubErr != "" {
			v.Inconclusive = "result builder: " + firstLine(ex.StubErr)
			return v
		}
		if ex.ClientOut == nil {
			v.Inconclusive = "no client outcome"
			return v
		}
		var viol []Violation
		var und []string
		Validate(sp, m.Result.Type, m.Result.Val, c.Outcome.Result, "", &viol, &und, 0)
		if len(und) > 0 {
			v.Inconclusive = "undecidable format instance"
			return v
		}
		{
			var viol2 []Violation
			var und2 []string
			Validate(sp, m.Result.Type, m.Result.Val, zeroToDefault(sp, m.Result.Type, c.Outcome.Result, 0), "", &viol2, &und2, 0)
			if len(viol2) != len(viol) {
				v.Inconclusive = "zero value of a defaulted attribute decides validity (ambiguity class)"
				return v
			}
		}
		resp := pickResponse(m, c.Outcome.Result)
		loc, kind := siteLocKind(sp, m, m.Result, site, resp, true)
		if len(viol) == 0 {
			if ex.ClientOut.Err != nil {
				tags := ExplainResult(sp, m, c.Outcome.Result)
				v.add(mkKey("refused:"+ex.ClientOut.Err.Name, "valid-result-refused-by-client:"+ex.ClientOut.Err.Name, fmt.Sprintf("%s:%s:%s", siteClass(site), loc, kind), tags),
					"client refused a result that satisfies the design (%s): %s", site, trunc(ex.ClientOut.Err.Message, 200))
			}
			return v
		}
		if resp != nil {
			// a violation sitting in an attribute the selected response does not carry (explicit body) never
			// reaches the client: nothing to refuse
			carried := false
			for _, vi := range viol {
				if cases.RespCarried(resp, topAttr(vi.Path)) {
					carried = true
				}
			}
			if !carried {
				v.Inconclusive = "the violating attribute is not carried by the selected response (explicit body)"
				return v
			}
		}
		names, set := ruleNames(viol)
		if ex.ClientOut.Err == nil {
			v.add(mkKey("accepted", "invalid-result-accepted-by-client", fmt.Sprintf("%s:%s:%s", siteClass(site), loc, kind), mergeTags(siteTags(sp, m, m.Result, site, false), ExplainResult(sp, m, c.Outcome.Result))),
				"client returned a result violating %v (%s) instead of a validation error", names, site)
			return v
		}
		if !set[ex.ClientOut.Err.Name] && !strings.Contains(ex.ClientOut.Err.Message, "invalid") && !strings.Contains(ex.ClientOut.Err.Message, "missing") {
			v.Notes = append(v.Notes, "client-error-name-other")
		}
		return v
	}
	// ---------- malformed wire encodings
	if strings.HasPrefix(c.Class, "malformed:") {
		if ex.WireResp == nil {
			v.Inconclusive = "no response"
			return v
		}
		if ex.Panic != "" {
			v.add("panic:"+panicSite(ex.Panic)+":"+c.Class, "panic on a malformed request: %s", firstLine(ex.Panic))
			return v
		}
		if c.Sent != nil && m.Payload != nil {
			// the malformed request is derived from a base payload that must itself satisfy the design
			var bviol []Violation
			var bund []string
			base := c.Sent
			Validate(sp, m.Payload.Type, m.Payload.Val, base, "", &bviol, &bund, 0)
			for _, vi := range bviol {
				if !(vi.Rule == "required" && strings.Count(vi.Path, ".") == 1) { // the deliberately removed top-level parameter
					v.Inconclusive = "case generator produced a base payload that does not satisfy the design"
					return v
				}
			}
		}
		if ex.StubIn != nil {
			v.add(mkKey("leaked", "malformed-request-reached-stub", c.Class, paramTagsOnly(c.Class, siteTags(sp, m, m.Payload, "", true))), "malformed request (%s) reached user code with payload %v", c.Class, ex.StubIn.Payload)
			return v
		}
		if ex.WireResp.Status < 400 || ex.WireResp.Status > 499 {
			v.add(fmt.Sprintf("malformed-request-status:%s:%d", c.Class, ex.WireResp.Status), "malformed request answered %d", ex.WireResp.Status)
		}
		want := noteList(c, "expect_names")
		got := errorNameOf(ex.WireResp)
		ok := false
		for _, w := range want {
			if w == got {
				ok = true
			}
		}
		if !ok {
			v.add(mkKey("misnamed:"+got, "malformed-request-error-name", fmt.Sprintf("%s:got-%s", c.Class, got), Explain(sp, m, c.Sent)), "malformed request (%s) answered with error name %q, standard names are %v", c.Class, got, want)
		}
		return v
	}
	// ---------- request-side probes
	if m.Payload == nil {
		v.Inconclusive = "no payload"
		return v
	}
	if ex.Panic != "" && ex.StubIn == nil {
		v.add(mkKey("panic", "panic:"+panicSite(ex.Panic), "", Explain(sp, m, c.Sent)), "panic: %s", firstLine(ex.Panic))
		return v
	}
	var viol []Violation
	var und []string
	Validate(sp, m.Payload.Type, m.Payload.Val, c.Sent, "", &viol, &und, 0)
	if len(und) > 0 {
		v.Inconclusive = "undecidable format instance"
		return v
	}
	{
		// ambiguity class: the zero value of a defaulted attribute is also "left unset" (=> default)
		var viol2 []Violation
		var und2 []string
		Validate(sp, m.Payload.Type, m.Payload.Val, zeroToDefault(sp, m.Payload.Type, c.Sent, 0), "", &viol2, &und2, 0)
		if len(viol2) != len(viol) {
			v.Inconclusive = "zero value of a defaulted attribute decides validity (ambiguity class)"
			return v
		}
	}
	if mode == "client" {
		for _, vi := range viol {
			if vi.Rule == "required" {
				// a Go payload struct cannot leave a required non-pointer attribute out: the tree is not what
				// the generated client sent (missing-attribute probes are hand-encoded only)
				v.Inconclusive = "missing required attribute is not representable through the generated client"
				return v
			}
		}
	}
	if ex.WireResp == nil {
		if ex.ClientOut != nil && ex.ClientOut.Err != nil && ex.WireReq == nil {
			v.Inconclusive = "client failed before sending: " + trunc(ex.ClientOut.Err.Message, 100)
			return v
		}
		v.Inconclusive = "no response"
		return v
	}
	loc, kind := siteLocKind(sp, m, m.Payload, site, nil, false)
	// ambiguity: empty string / empty collection outside the body == absent
	if amb := emptyOutsideBody(sp, m, c.Sent); amb {
		v.Notes = append(v.Notes, "empty-outside-body")
		if len(viol) == 0 && ex.StubIn == nil && errorNameOf(ex.WireResp) == "missing_field" {
			// envelope decision (DESIGN 7.C02): an empty text outside the body is absence; whether such a request
			// "satisfies the design" when the attribute is required is not decidable from the statement
			v.Inconclusive = "empty value of a required attribute outside the body (absence)"
			return v
		}
	}
	// a map outside the body whose key holds a bracket has no name[key]=value spelling (cases.TransportSafe): the
	// server cannot have read what the design value says
	if len(viol) == 0 && ex.StubIn == nil && unspellableParamMap(m, c.Sent) {
		v.Inconclusive = "map key with a bracket outside the body (no name[key]=value spelling)"
		return v
	}
	names, set := ruleNames(viol)
	// a missing body attribute that IS the body may be reported as a missing payload
	for _, vi := range viol {
		if vi.Rule == "required" && m.HTTP != nil && (strings.HasPrefix(m.HTTP.Body, "attr:") && "."+strings.TrimPrefix(m.HTTP.Body, "attr:") == vi.Path) {
			set["missing_payload"] = true
		}
	}
	stags := mergeTags(Explain(sp, m, c.Sent), siteTags(sp, m, m.Payload, site, true))
	if len(viol) == 0 {
		if ex.StubIn == nil {
			tags := stags
			v.add(mkKey("rejected:"+errorNameOf(ex.WireResp), fmt.Sprintf("valid-request-rejected:%d-%s", ex.WireResp.Status, errorNameOf(ex.WireResp)), fmt.Sprintf("%s:%s:%s:%s", mode, siteClass(site), loc, kind), tags),
				"request satisfying the design (%s) was rejected: %d %s", site, ex.WireResp.Status, trunc(string(ex.WireResp.Body), 250))
		}
		return v
	}
	if ex.StubIn != nil {
		var where []string
		for _, vi := range viol {
			where = append(where, vi.Rule+"@"+vi.Path)
		}
		v.add(mkKey("leaked", "invalid-request-reached-stub", fmt.Sprintf("%s:%s:%s:%s", mode, siteClass(site), loc, kind), stags),
			"request violating %v %v (%s) reached user code; stub saw %v", names, where, site, ex.StubIn.Payload)
		return v
	}
	if ex.WireResp.Status < 400 || ex.WireResp.Status > 499 {
		v.add(fmt.Sprintf("invalid-request-status:%d:%s", ex.WireResp.Status, siteClass(site)), "violating request answered %d", ex.WireResp.Status)
	}
	got := errorNameOf(ex.WireResp)
	if !set[got] {
		// a removed required attribute outside the body whose zero/absent form also violates something else is still in set;
		// otherwise the name does not correspond to any violated rule
		v.add(mkKey("misnamed:"+got, "invalid-request-error-name:got-"+got, fmt.Sprintf("want-%s:%s:%s:%s", strings.Join(names, "+"), mode, loc, kind), stags),
			"violating request (%s, rules %v) answered with error name %q: %s", site, names, got, trunc(string(ex.WireResp.Body), 200))
	}
	return v
}

// unspellableParamMap reports whether the payload carries, outside the body, a map that the wire cannot spell.
func unspellableParamMap(m *spec.Method, sent any) bool {
	o, _ := sent.(map[string]any)
	if o == nil || m.HTTP == nil {
		return false
	}
	for k, e := range o {
		loc := cases.LocOf(m.HTTP, k)
		if loc == valgen.Body {
			continue
		}
		if _, isMap := vtree.IsMap(e); isMap && !cases.TransportSafe(loc, e) {
			return true
		}
	}
	return false
}

// emptyOutsideBody reports whether the payload holds an empty string in a non-body location.
func emptyOutsideBody(sp *spec.Spec, m *spec.Method, sent any) bool {
	o, _ := sent.(map[string]any)
	if o == nil || m.HTTP == nil {
		return false
	}
	for k, e := range o {
		if cases.LocOf(m.HTTP, k) != valgen.Body {
			if s, ok := e.(string); ok && (s == "s:" || s == "y:") {
				return true
			}
		}
	}
	return false
}

// attrAt walks a site path (".a.b[0].c", "{key}" steps) from a declaration to the attribute it names.
func attrAt(sp *spec.Spec, decl *spec.Attr, path string) *spec.Attr {
	cur := decl
	i := 0
	for i < len(path) && cur != nil {
		rt, _ := sp.Resolve(cur.Type)
		if rt == nil {
			return nil
		}
		switch path[i] {
		case '.':
			j := i + 1
			for j < len(path) && path[j] != '.' && path[j] != '[' && path[j] != '{' && path[j] != '|' {
				j++
			}
			if rt.Kind != spec.Object {
				return nil
			}
			cur = rt.Attr(path[i+1 : j])
			i = j
		case '[':
			j := strings.IndexByte(path[i:], ']')
			if j < 0 || rt.Kind != spec.Array {
				return nil
			}
			cur = rt.Elem
			i += j + 1
		case '|':
			j := i + 1
			for j < len(path) && path[j] != '.' && path[j] != '[' && path[j] != '{' && path[j] != '|' {
				j++
			}
			if rt.Kind != spec.Union {
				return nil
			}
			cur = rt.Attr(path[i+1 : j])
			i = j
		case '{':
			j := strings.IndexByte(path[i:], '}')
			if j < 0 || rt.Kind != spec.Map {
				return nil
			}
			if path[i:i+j+1] == "{key}" {
				cur = rt.Key
			} else {
				cur = rt.Elem
			}
			i += j + 1
		default:
			return nil
		}
	}
	return cur
}

// siteTags names known trigger classes of the probed attribute and of the endpoint.
func siteTags(sp *spec.Spec, m *spec.Method, decl *spec.Attr, site string, request bool) []string {
	var tags []string
	p := strings.SplitN(site, ":", 3)
	if len(p) == 3 {
		if a := attrAt(sp, decl, p[2]); a != nil {
			mv := &spec.Val{}
			for _, v := range valgen.AllVals(sp, a.Type, a.Val) {
				if v.ExclMin != nil {
					mv.ExclMin = v.ExclMin
				}
				if v.ExclMax != nil {
					mv.ExclMax = v.ExclMax
				}
			}
			if mv.ExclMin != nil && mv.ExclMax != nil {
				tags = append(tags, "both-exclusive-bounds")
			}
		}
		if request {
			loc, _ := siteLocKind(sp, m, decl, site, nil, false)
			tags = append(tags, multipartSiteTags(m, site, loc)...) // multipart.go
		}
		if strings.Contains(p[2], "|") {
			// the probed place lies inside the selected alternative of a union: over HTTP the alternative's value travels
			// as JSON text in "Value" and is never validated (listed finding)
			tags = append(tags, "union-member-not-validated")
		}
	}
	if request && m.HTTP != nil && m.Payload != nil {
		// the listed defect loses the errors accumulated for path, query and header parameters (they are decoded
		// before the cookies) and for the cookies decoded before a required one: only a violation located there
		// can be explained by it
		loc := ""
		if site != "" {
			loc, _ = siteLocKind(sp, m, decl, site, nil, false)
		}
		prt, _ := sp.Resolve(m.Payload.Type)
		// a violation located in a cookie is lost the same way when a required cookie is decoded AFTER it
		// (cookies are decoded in the order the design maps them)
		siteTop, afterSite := "", false
		if loc == "cookie" {
			if p := strings.SplitN(site, ":", 3); len(p) == 3 {
				siteTop = topAttr(p[2])
			}
		}
		for _, c := range m.HTTP.Cookies {
			if loc == "cookie" {
				if c.Attr == siteTop {
					afterSite = true
					continue
				}
				if !afterSite {
					continue
				}
			}
			if prt != nil && prt.Kind == spec.Object && prt.IsRequired(c.Attr) && (site == "" || loc == "path" || loc == "query" || loc == "header" || loc == "cookie") {
				tags = append(tags, "required-cookie")
				break
			}
		}
	}
	return tags
}

// explains says which finding classes a known trigger class can account for.
var explains = map[string]map[string]bool{
	"absent-collection-minlen":                          {"rejected:invalid_length": true, "misnamed:invalid_length": true, "refused:invalid_length": true},
	"both-exclusive-bounds":                             {"leaked": true, "accepted": true},
	"required-cookie":                                   {"leaked": true},
	"required-query-map-absent":                         {"leaked": true, "misnamed:invalid_length": true},
	"path-value-with-slash":                             {"rejected:fault": true, "misnamed:fault": true},
	"body-attr-absent":                                  {"panic": true, "rejected:*": true, "misnamed:*": true, "mismatch": true, "refused:*": true},
	"required-object-outside-view":                      {"panic": true},
	"tagged-response-header-absent":                     {"panic": true},
	"recursive-result-type":                             {"view:nested": true},
	"schema:map-key-elem-validation-not-documented":     {"rejected:*": true},
	"schema:non-string-key-map-is-free-form":            {"rejected:*": true},
	"schema:null-body":                                  {"leaked": true},
	"schema:request-body-documented-required":           {"leaked": true},
	"schema:map-length-not-documented":                  {"rejected:invalid_length": true},
	"schema:bytes-length-on-base64-text":                {"rejected:invalid_length": true, "leaked": true, "refused:*": true},
	"doc:error-media-type":                              {"refused:*": true},
	"doc:responses-sharing-status":                      {"refused:*": true},
	"doc:set-cookie-header-schema":                      {"refused:*": true},
	"doc:header-mapped-attribute-in-body-schema":        {"refused:*": true},
	"doc:viewed-result-requires-attribute-outside-view": {"refused:*": true},
	"doc:catch-all-path-spans-segments":                 {"rejected:*": true},
	"header-array-multi":                                {"refused:*": true, "accepted": true, "mismatch:header-array": true},
	"union-usertype-value-design-names":                 {"mismatch": true},
	"union-member-not-validated":                        {"leaked": true, "accepted": true},
	"body-is-union":                                     {"rejected:*": true, "misnamed:*": true, "mismatch": true},
	"multipart-body-not-validated":                      {"leaked": true},
	"reference-inherits-type-declared-later":            {"mismatch": true},
}

var tagOrder = []string{"doc:catch-all-path-spans-segments", "doc:error-media-type", "doc:set-cookie-header-schema", "doc:header-mapped-attribute-in-body-schema", "doc:viewed-result-requires-attribute-outside-view", "doc:responses-sharing-status", "schema:map-key-elem-validation-not-documented", "schema:non-string-key-map-is-free-form", "schema:null-body", "schema:request-body-documented-required", "schema:map-length-not-documented", "schema:bytes-length-on-base64-text", "recursive-result-type", "tagged-response-header-absent", "required-object-outside-view", "both-exclusive-bounds", "required-cookie", "required-query-map-absent", "body-attr-absent", "body-is-union", "path-value-with-slash", "header-array-multi", "absent-collection-minlen", "union-usertype-value-design-names", "union-member-not-validated", "multipart-body-not-validated", "reference-inherits-type-declared-later"}

// mkKey builds a violation key. class is the coarse finding class ("rejected:<name>", "leaked",
// "misnamed:<name>", "refused:<name>", "accepted", "panic", "mismatch:..."). When the input belongs
// to a known trigger class that can account for this class of finding, the key names the trigger
// (one key per root cause and class); otherwise it is the granular description.
func mkKey(class, typ, granular string, tags []string) string {
	has := map[string]bool{}
	for _, t := range tags {
		has[t] = true
	}
	wild := class
	if i := strings.IndexByte(class, ':'); i > 0 {
		wild = class[:i] + ":*"
	}
	for _, t := range tagOrder {
		if has[t] && (explains[t][class] || explains[t][wild]) {
			if explains[t][wild] && !explains[t][class] {
				return "trigger:" + t + ":" + strings.TrimSuffix(wild, ":*")
			}
			return "trigger:" + t + ":" + class
		}
	}
	if granular == "" {
		return typ
	}
	return typ + ":" + granular
}

func mergeTags(a, b []string) []string {
	out := append(append([]string{}, a...), b...)
	sortStrings(out)
	return out
}

// zeroToDefault returns a copy of v in which zero-valued leaves of defaulted attributes are replaced by the default.
func zeroToDefault(sp *spec.Spec, t *spec.Type, v any, depth int) any {
	rt, _ := sp.Resolve(t)
	if rt == nil || depth > 30 {
		return v
	}
	switch rt.Kind {
	case spec.Object:
		o, ok := v.(map[string]any)
		if !ok {
			return v
		}
		out := map[string]any{}
		for k, e := range o {
			out[k] = e
		}
		for _, a := range rt.Attrs {
			e, ok := o[a.Name]
			if !ok {
				continue
			}
			if a.HasDef && vtree.IsZeroLeaf(e) {
				out[a.Name] = a.Default
			} else {
				out[a.Name] = zeroToDefault(sp, a.Type, e, depth+1)
			}
		}
		return out
	case spec.Array:
		arr, ok := v.([]any)
		if !ok {
			return v
		}
		out := make([]any, len(arr))
		for i := range arr {
			out[i] = zeroToDefault(sp, rt.Elem.Type, arr[i], depth+1)
		}
		return out
	case spec.Map:
		mm, ok := vtree.IsMap(v)
		if !ok {
			return v
		}
		out := map[string]any{}
		for k, e := range mm {
			out[k] = zeroToDefault(sp, rt.Elem.Type, e, depth+1)
		}
		return vtree.MkMap(out)
	}
	return v
}

// paramTagsOnly drops the trigger classes that can only explain a lost PARAMETER error when the malformed request
// is malformed in its body (a body that does not decode ends the request before any parameter is looked at).
func paramTagsOnly(class string, tags []string) []string {
	if strings.HasPrefix(class, "malformed:param-") {
		return tags
	}
	var out []string
	for _, t := range tags {
		if t != "required-cookie" {
			out = append(out, t)
		}
	}
	return out
}

// c04Stream judges a streaming exchange in which one streamed message carries a boundary probe (cases.StreamInvalid):
// a message that violates the streaming payload's constraints must not be handed to the service method by Recv (the
// messages before it are; what follows it is not judged).
func c04Stream(sp *spec.Spec, m *spec.Method, ex *rt.Exchange) *Verdict {
	v := &Verdict{}
	if !streamPre(ex, v) {
		return v
	}
	if m.StreamP == nil || len(ex.Case.Stream.Send) == 0 {
		v.Inconclusive = "no streamed payload"
		return v
	}
	if ex.Stream.Handshake != 101 && ex.Stream.Handshake != 0 {
		v.Inconclusive = "handshake refused (C02/C04 of the initial payload)"
		return v
	}
	k := -1
	if f, ok := ex.Case.Note["stream_probe_index"].(float64); ok {
		k = int(f)
	} else if n, ok := ex.Case.Note["stream_probe_index"].(int); ok {
		k = n
	}
	if k < 0 || k >= len(ex.Case.Stream.Send) {
		v.Inconclusive = "no probe index"
		return v
	}
	// the other messages must be valid, the probed one decides
	for i, msg := range ex.Case.Stream.Send {
		var viol []Violation
		var und []string
		Validate(sp, m.StreamP.Type, m.StreamP.Val, msg, "", &viol, &und, 0)
		if len(und) > 0 {
			v.Inconclusive = "undecidable format instance"
			return v
		}
		if i != k && len(viol) > 0 {
			v.Inconclusive = "case generator produced an invalid message outside the probe"
			return v
		}
		if i == k {
			site := noteStr(ex.Case, "site")
			fake := streamFake(m, m.StreamP)
			tags := mergeTags(Explain(sp, fake, msg), siteTags(sp, fake, m.StreamP, site, false))
			if n := len(ex.Stream.StubRecv); n < k && ex.Stream.StubEnd != "eof" && ex.Stream.StubEnd != "count" && ex.Stream.StubEnd != "" {
				// the stream ended at an EARLIER message, which satisfies the design: that one was refused
				name := ex.Stream.StubEndName
				if name == "" {
					name = "error"
				}
				etags := Explain(sp, fake, ex.Case.Stream.Send[n])
				v.add(mkKey("rejected:"+name, "valid-streamed-message-refused:"+name, fmt.Sprintf("unprobed:%s", kindOf(sp, m.StreamP.Type)), etags),
					"streamed message #%d satisfies the design but the service's Recv ended with %q", n, trunc(ex.Stream.StubEnd, 160))
				return v
			}
			if len(viol) > 0 {
				// a zero value of a defaulted attribute may be left out by the client and replaced by the default
				var viol2 []Violation
				var und2 []string
				Validate(sp, m.StreamP.Type, m.StreamP.Val, zeroToDefault(sp, m.StreamP.Type, msg, 0), "", &viol2, &und2, 0)
				if len(viol2) != len(viol) {
					v.Inconclusive = "zero value of a defaulted attribute decides validity (ambiguity class)"
					return v
				}
			}
			if len(viol) == 0 {
				// valid side of the rule: Recv must deliver it
				if len(ex.Stream.StubRecv) <= k && ex.Stream.StubEnd != "eof" && ex.Stream.StubEnd != "count" && ex.Stream.StubEnd != "" {
					name := ex.Stream.StubEndName
					if name == "" {
						name = "error"
					}
					v.add(mkKey("rejected:"+name, "valid-streamed-message-refused:"+name, fmt.Sprintf("%s:%s", siteClass(site), kindOf(sp, m.StreamP.Type)), tags),
						"streamed message #%d satisfies the design (%s) but the service's Recv ended with %q after %d messages", k, site, trunc(ex.Stream.StubEnd, 160), len(ex.Stream.StubRecv))
				}
				return v
			}
			names, _ := ruleNames(viol)
			if !ex.Case.Stream.RawClient {
				// the generated client sends Go values: a removed required attribute whose field is not a pointer goes
				// out as its zero value, which is a different (possibly valid) message
				for _, vi := range viol {
					if vi.Rule == "required" {
						v.Inconclusive = "a missing required attribute cannot be expressed through the generated client (zero value)"
						return v
					}
				}
			}
			if len(ex.Stream.StubRecv) > k {
				client := "gen"
				if ex.Case.Stream.RawClient {
					client = "raw"
				}
				v.add(mkKey("leaked", "invalid-streamed-message-reached-stub", fmt.Sprintf("%s:%s:%s:%s-client", m.Stream, siteClass(site), kindOf(sp, m.StreamP.Type), client), tags),
					"streamed message #%d violates %v (%s) yet the service method received it: %s", k, names, site, vtree.Show(ex.Stream.StubRecv[k]))
			}
		}
	}
	return v
}
