package oracle

import (
	"fmt"
	"sort"
	"strings"

	"verif.local/lab/cases"
	"verif.local/lab/rt"
	"verif.local/lab/spec"
	"verif.local/lab/valgen"
)

func noteStr(c *rt.Case, k string) string {
	if c.Note == nil {
		return ""
	}
	s, _ := c.Note[k].(string)
	return s
}

func noteList(c *rt.Case, k string) []string {
	if c.Note == nil {
		return nil
	}
	var out []string
	switch x := c.Note[k].(type) {
	case []any:
		for _, e := range x {
			out = append(out, fmt.Sprint(e))
		}
	case []string:
		out = x
	}
	return out
}

func ruleNames(vs []Violation) (names []string, set map[string]bool) {
	set = map[string]bool{}
	for _, v := range vs {
		set[v.GoaName()] = true
	}
	for n := range set {
		names = append(names, n)
	}
	sort.Strings(names)
	return
}

// siteClass abstracts a site description "rule:side:path" into "rule:side".
func siteClass(desc string) string {
	p := strings.SplitN(desc, ":", 3)
	if len(p) >= 2 {
		return p[0] + ":" + p[1]
	}
	return desc
}

// sitePathLoc returns the wire location and kind of the top attribute of a site path.
func siteLocKind(sp *spec.Spec, m *spec.Method, attrDecl *spec.Attr, desc string, resp *spec.HTTPResponse, isResult bool) (string, string) {
	p := strings.SplitN(desc, ":", 3)
	if len(p) < 3 || attrDecl == nil {
		return "body", "?"
	}
	top := topAttr(p[2])
	rt, _ := sp.Resolve(attrDecl.Type)
	if rt == nil || rt.Kind != spec.Object {
		return "body", kindOf(sp, attrDecl.Type)
	}
	for _, a := range rt.Attrs {
		if a.Name == top {
			loc := cases.LocOf(m.HTTP, a.Name)
			if isResult {
				loc = cases.RespLocOf(resp, a.Name)
			}
			k := kindOf(sp, a.Type)
			if strings.Count(p[2], ".")+strings.Count(p[2], "[")+strings.Count(p[2], "{") > 1 {
				k += ":nested"
			}
			return locName(loc), k
		}
	}
	return "body", "?"
}

// C04 judges that user code runs iff the request satisfies the design.
func C04(sp *spec.Spec, ex *rt.Exchange) *Verdict {
	v := &Verdict{}
	_, m := sp.FindMethod(ex.Case.Svc, ex.Case.Method)
	if m == nil {
		v.Inconclusive = "unknown method"
		return v
	}
	if ex.BuildErr != "" {
		v.Inconclusive = "value builder: " + firstLine(ex.BuildErr)
		return v
	}
	c := ex.Case
	mode := noteStr(c, "mode")
	site := noteStr(c, "site")
	// ---------- response-side probes: the client must refuse invalid results
	if strings.HasPrefix(c.Class, "result-probe:") {
		if ex.StubIn == nil {
			v.Inconclusive = "request did not reach the stub"
			return v
		}
		if ex.StubErr != "" {
			v.Inconclusive = "result builder: " + firstLine(ex.StubErr)
			return v
		}
		if ex.ClientOut == nil {
			v.Inconclusive = "no client outcome"
			return v
		}
		var viol []Violation
		var und []string
		Validate(sp, m.Result.Type, m.Result.Val, c.Outcome.Result, "", &viol, &und, 0)
		if len(und) > 0 {
			v.Inconclusive = "undecidable format instance"
			return v
		}
		resp := pickResponse(m, c.Outcome.Result)
		loc, kind := siteLocKind(sp, m, m.Result, site, resp, true)
		if len(viol) == 0 {
			if ex.ClientOut.Err != nil {
				tags := ExplainResult(sp, m, c.Outcome.Result)
				v.add(fmt.Sprintf("valid-result-refused-by-client:%s:%s:%s:%s%s", ex.ClientOut.Err.Name, siteClass(site), loc, kind, tagSuffix(tags)),
					"client refused a result that satisfies the design (%s): %s", site, trunc(ex.ClientOut.Err.Message, 200))
			}
			return v
		}
		names, set := ruleNames(viol)
		if ex.ClientOut.Err == nil {
			v.add(fmt.Sprintf("invalid-result-accepted-by-client:%s:%s:%s", siteClass(site), loc, kind),
				"client returned a result violating %v (%s) instead of a validation error", names, site)
			return v
		}
		if !set[ex.ClientOut.Err.Name] && !strings.Contains(ex.ClientOut.Err.Message, "invalid") && !strings.Contains(ex.ClientOut.Err.Message, "missing") {
			v.Notes = append(v.Notes, "client-error-name-other")
		}
		return v
	}
	// ---------- malformed wire encodings
	if strings.HasPrefix(c.Class, "malformed:") {
		if ex.WireResp == nil {
			v.Inconclusive = "no response"
			return v
		}
		if ex.Panic != "" {
			v.add("panic:"+panicSite(ex.Panic)+":"+c.Class, "panic on a malformed request: %s", firstLine(ex.Panic))
			return v
		}
		if ex.StubIn != nil {
			v.add("malformed-request-reached-stub:"+c.Class, "malformed request (%s) reached user code with payload %v", c.Class, ex.StubIn.Payload)
			return v
		}
		if ex.WireResp.Status < 400 || ex.WireResp.Status > 499 {
			v.add(fmt.Sprintf("malformed-request-status:%s:%d", c.Class, ex.WireResp.Status), "malformed request answered %d", ex.WireResp.Status)
		}
		want := noteList(c, "expect_names")
		got := errorNameOf(ex.WireResp)
		ok := false
		for _, w := range want {
			if w == got {
				ok = true
			}
		}
		if !ok {
			v.add(fmt.Sprintf("malformed-request-error-name:%s:got-%s", c.Class, got), "malformed request (%s) answered with error name %q, standard names are %v", c.Class, got, want)
		}
		return v
	}
	// ---------- request-side probes
	if m.Payload == nil {
		v.Inconclusive = "no payload"
		return v
	}
	if ex.Panic != "" {
		v.add("panic:"+panicSite(ex.Panic)+tagSuffix(Explain(sp, m, c.Sent)), "panic: %s", firstLine(ex.Panic))
		return v
	}
	var viol []Violation
	var und []string
	Validate(sp, m.Payload.Type, m.Payload.Val, c.Sent, "", &viol, &und, 0)
	if len(und) > 0 {
		v.Inconclusive = "undecidable format instance"
		return v
	}
	if ex.WireResp == nil {
		if ex.ClientOut != nil && ex.ClientOut.Err != nil && ex.WireReq == nil {
			v.Inconclusive = "client failed before sending: " + trunc(ex.ClientOut.Err.Message, 100)
			return v
		}
		v.Inconclusive = "no response"
		return v
	}
	loc, kind := siteLocKind(sp, m, m.Payload, site, nil, false)
	// ambiguity: empty string / empty collection outside the body == absent
	if amb := emptyOutsideBody(sp, m, c.Sent); amb {
		v.Notes = append(v.Notes, "empty-outside-body")
	}
	names, set := ruleNames(viol)
	if len(viol) == 0 {
		if ex.StubIn == nil {
			tags := Explain(sp, m, c.Sent)
			v.add(fmt.Sprintf("valid-request-rejected:%d-%s:%s:%s:%s:%s%s", ex.WireResp.Status, errorNameOf(ex.WireResp), mode, siteClass(site), loc, kind, tagSuffix(tags)),
				"request satisfying the design (%s) was rejected: %d %s", site, ex.WireResp.Status, trunc(string(ex.WireResp.Body), 250))
		}
		return v
	}
	if ex.StubIn != nil {
		v.add(fmt.Sprintf("invalid-request-reached-stub:%s:%s:%s:%s", mode, siteClass(site), loc, kind),
			"request violating %v (%s) reached user code; stub saw %v", names, site, ex.StubIn.Payload)
		return v
	}
	if ex.WireResp.Status < 400 || ex.WireResp.Status > 499 {
		v.add(fmt.Sprintf("invalid-request-status:%d:%s", ex.WireResp.Status, siteClass(site)), "violating request answered %d", ex.WireResp.Status)
	}
	got := errorNameOf(ex.WireResp)
	if !set[got] {
		// a removed required attribute outside the body whose zero/absent form also violates something else is still in set;
		// otherwise the name does not correspond to any violated rule
		v.add(fmt.Sprintf("invalid-request-error-name:got-%s:want-%s:%s:%s:%s", got, strings.Join(names, "+"), mode, loc, kind),
			"violating request (%s, rules %v) answered with error name %q: %s", site, names, got, trunc(string(ex.WireResp.Body), 200))
	}
	return v
}

// emptyOutsideBody reports whether the payload holds an empty string in a non-body location.
func emptyOutsideBody(sp *spec.Spec, m *spec.Method, sent any) bool {
	o, _ := sent.(map[string]any)
	if o == nil || m.HTTP == nil {
		return false
	}
	for k, e := range o {
		if cases.LocOf(m.HTTP, k) != valgen.Body {
			if s, ok := e.(string); ok && (s == "s:") {
				return true
			}
		}
	}
	return false
}
