// Package oracle holds the offline oracles over exchange records. Expected
// values are computed from the spec (design intent) only.
package oracle

import (
	"fmt"
	"os"
	"strings"

	"verif.local/lab/cases"
	"verif.local/lab/rt"
	"verif.local/lab/spec"
	"verif.local/lab/valgen"
	"verif.local/lab/vtree"
)

// Finding is one violation found in an exchange.
type Finding struct {
	Key  string
	What string
}

// Verdict of one exchange for one property.
type Verdict struct {
	Inconclusive string // non-empty = undecidable, with reason
	Findings     []Finding
	Notes        []string // ambiguity classes used etc.
}

func (v *Verdict) add(key, format string, a ...any) {
	v.Findings = append(v.Findings, Finding{Key: key, What: fmt.Sprintf(format, a...)})
}

func zeroLeafOf(sp *spec.Spec, t *spec.Type) any {
	rt, _ := sp.Resolve(t)
	if rt == nil {
		rt = t
	}
	switch rt.Kind {
	case spec.Boolean:
		return vtree.B(false)
	case spec.Int, spec.Int32, spec.Int64:
		return vtree.I(0)
	case spec.UInt, spec.UInt32, spec.UInt64:
		return vtree.U(0)
	case spec.Float32:
		return vtree.F32(0)
	case spec.Float64:
		return vtree.F(0)
	case spec.String:
		return vtree.S("")
	}
	return nil
}

// Expect computes the tree the receiving side must observe for a value `sent`
// of type t: defaults are injected for absent attributes, with the documented
// ambiguity classes expressed as alternatives. locOf gives the location class
// of top-level attributes (nil = body everywhere).
func Expect(sp *spec.Spec, t *spec.Type, sent any, locOf func(string) valgen.Loc, required func(string) bool, depth int) any {
	rt, _ := sp.Resolve(t)
	if rt == nil {
		rt = t
	}
	if depth > 40 {
		return sent
	}
	switch rt.Kind {
	case spec.Object:
		so, _ := sent.(map[string]any)
		if sent == nil {
			return nil
		}
		out := map[string]any{}
		for _, a := range rt.Attrs {
			sv, present := so[a.Name]
			if sv == nil {
				present = false
			}
			loc := valgen.Body
			if locOf != nil {
				loc = locOf(a.Name)
			}
			zero := zeroLeafOf(sp, a.Type)
			switch {
			case !present && a.HasDef:
				// a defaulted attribute is a non-pointer field: unset == zero value
				if zero != nil {
					out[a.Name] = vtree.Alt(a.Default, zero)
				} else {
					out[a.Name] = a.Default
				}
			case !present:
				// stays absent
			case a.HasDef && vtree.IsZeroLeaf(sv):
				out[a.Name] = vtree.Alt(sv, a.Default)
			case loc != valgen.Body && vtree.Kind(sv) == "s" && vtree.Text(sv) == "" && !rt.IsRequired(a.Name):
				// empty string outside the body is indistinguishable from absence
				out[a.Name] = vtree.Alt(sv, nil)
			default:
				out[a.Name] = Expect(sp, a.Type, sv, nil, nil, depth+1)
			}
		}
		return out
	case spec.Array:
		sa, _ := sent.([]any)
		out := make([]any, len(sa))
		for i := range sa {
			out[i] = Expect(sp, rt.Elem.Type, sa[i], nil, nil, depth+1)
		}
		return out
	case spec.Map:
		sm, ok := vtree.IsMap(sent)
		if !ok {
			return sent
		}
		out := map[string]any{}
		for k, e := range sm {
			out[k] = Expect(sp, rt.Elem.Type, e, nil, nil, depth+1)
		}
		return vtree.MkMap(out)
	case spec.Union:
		// the same alternative, holding what its own type makes of the value (union.go)
		return expectUnion(sp, rt, sent, depth)
	}
	return sent
}

// valClass classifies a leaf for violation keys.
func valClass(v any) string {
	switch x := v.(type) {
	case nil:
		return "absent"
	case []any:
		return "array"
	case map[string]any:
		if _, ok := vtree.IsMap(v); ok {
			return "map"
		}
		if _, ok := x["$alt"]; ok {
			return "alt"
		}
		return "object"
	}
	k := vtree.Kind(v)
	if k != "s" {
		return k
	}
	t := vtree.Text(v)
	switch {
	case t == "":
		return "s-empty"
	case strings.Contains(t, "%"):
		return "s-percent"
	case strings.ContainsAny(t, "/?#&=+;,"):
		return "s-reserved"
	case strings.ContainsAny(t, " \t\n"):
		return "s-space"
	case !isASCII(t):
		return "s-nonascii"
	}
	return "s-plain"
}

func isASCII(s string) bool {
	for i := 0; i < len(s); i++ {
		if s[i] >= 0x80 {
			return false
		}
	}
	return true
}

func locName(l valgen.Loc) string {
	return [...]string{"body", "path", "query", "header", "cookie"}[l]
}

// topAttr extracts the first path component of a diff path (".attr[0].x" -> "attr").
func topAttr(path string) string {
	p := strings.TrimPrefix(path, ".")
	for i, r := range p {
		if r == '.' || r == '[' || r == '{' || r == '|' {
			return p[:i]
		}
	}
	return p
}

func kindOf(sp *spec.Spec, t *spec.Type) string {
	if t == nil {
		return "?"
	}
	rt, ut := sp.Resolve(t)
	if rt == nil {
		return t.Kind
	}
	k := rt.Kind
	if rt.Kind == spec.Array {
		et, _ := sp.Resolve(rt.Elem.Type)
		if et != nil {
			k = "array-" + et.Kind
		}
	}
	if ut != nil && ut.Kind == "alias" {
		k = "alias-" + k
	}
	return k
}

func diffClass(d vtree.D) string {
	switch {
	case strings.HasSuffix(d.Path, ".$union"):
		return "other-alternative" // a union arrived holding another alternative than the one sent
	case d.Want == nil || valClass(d.Want) == "absent":
		return "spurious"
	case d.Got == nil:
		return "lost"
	case strings.Contains(d.Note, "elements"):
		return "length"
	}
	return "changed"
}

// describeErr renders how an exchange ended when the stub was not reached.
func describeErr(ex *rt.Exchange) (class string, text string) {
	if ex.WireReq == nil {
		msg := ""
		if ex.ClientOut != nil && ex.ClientOut.Err != nil {
			msg = ex.ClientOut.Err.Message
		}
		return "client-encode-error", "the generated client failed before sending: " + msg
	}
	if ex.WireResp != nil {
		name := errorNameOf(ex.WireResp)
		return fmt.Sprintf("server-%d-%s", ex.WireResp.Status, name), fmt.Sprintf("server answered %d %s: %s", ex.WireResp.Status, name, trunc(string(ex.WireResp.Body), 200))
	}
	return "no-response", "no response recorded"
}

func trunc(s string, n int) string {
	if len(s) > n {
		return s[:n] + "…"
	}
	return s
}

// C02 judges payload delivery: the request payload, and for streaming endpoints (the handshake request
// carries the payload) every streamed message in order (stream.go).
func C02(sp *spec.Spec, ex *rt.Exchange) *Verdict {
	sv, m := sp.FindMethod(ex.Case.Svc, ex.Case.Method)
	streaming := m != nil && m.Stream != "" && m.HTTP != nil
	if streaming && ex.Stream != nil && ex.Stream.Watchdog != "" {
		return &Verdict{Inconclusive: "stream watchdog fired: " + ex.Stream.Watchdog}
	}
	v := c02Request(sp, ex)
	if streaming && v.Inconclusive == "" && ex.StubIn != nil {
		StreamC02(sp, sv, m, ex, v)
	}
	return v
}

// c02Request judges the delivery of the request payload.
func c02Request(sp *spec.Spec, ex *rt.Exchange) *Verdict {
	v := &Verdict{}
	sv, m := sp.FindMethod(ex.Case.Svc, ex.Case.Method)
	if m == nil {
		v.Inconclusive = "unknown method"
		return v
	}
	_ = sv
	if ex.BuildErr != "" {
		v.Inconclusive = "value builder: " + ex.BuildErr
		return v
	}
	if ex.Panic != "" && ex.StubIn == nil {
		v.add(mkKey("panic", "panic:"+panicSite(ex.Panic), "", Explain(sp, m, ex.Case.Sent)), "panic while delivering a valid payload: %s", firstLine(ex.Panic))
		return v
	}
	if ex.StubErr != "" {
		// the payload was delivered; the scripted result could not be built (C03's problem)
	}
	if m.Payload != nil && !ex.Case.NoPay {
		// the case generator must have produced a payload that satisfies the design
		var viol []Violation
		var und []string
		Validate(sp, m.Payload.Type, m.Payload.Val, ex.Case.Sent, "", &viol, &und, 0)
		if len(viol) > 0 || len(und) > 0 {
			v.Inconclusive = "case generator produced a payload that does not satisfy the design"
			if os.Getenv("VERIF_DEBUG") != "" {
				fmt.Fprintf(os.Stderr, "INVALID-BASE %s.%s %v %v sent=%s\n", sv.Name, m.Name, viol, und, vtree.Show(ex.Case.Sent))
			}
			return v
		}
	}
	if ex.StubIn == nil {
		class, text := describeErr(ex)
		v.add(mkKey("rejected:"+notDeliveredName(ex), "valid-payload-not-delivered:"+class, "", Explain(sp, m, ex.Case.Sent)), "valid payload %s did not reach the service method: %s", vtree.Show(ex.Case.Sent), text)
		if isMultipart(m) && ex.Case.Raw == nil && ex.WireReq != nil {
			multipartWire(ex.WireReq, v) // name what is wrong with the multipart framing the generated client produced (multipart.go)
		}
		return v
	}
	if ex.StubCalls != 1 {
		v.add("service-method-invoked-more-than-once", "service method invoked %d times for one request", ex.StubCalls)
	}
	for _, l := range ex.LateChange {
		if strings.HasPrefix(l, "stub_in:") {
			v.add("payload-changed-after-delivery:"+payloadKind(sp, m), "the payload handed to the service method changed after the call returned (memory shared with later requests): %s", l)
		}
	}
	if ex.Case.NoPay || m.Payload == nil {
		return v
	}
	if ex.Case.Raw == nil {
		// the request was produced by the generated client: judge where each attribute travelled
		RequestPlacement(sp, sv, m, ex, v)
	}
	locOf := func(a string) valgen.Loc { return cases.LocOf(m.HTTP, a) }
	exp := Expect(sp, m.Payload.Type, ex.Case.Sent, locOf, nil, 0)
	if isMultipart(m) {
		exp = multipartExpect(sp, m, ex.Case.Sent, exp) // body attributes arrive as the lab's codec delivers them (multipart.go)
	}
	want := rt.NormKeys(exp)
	got := ex.StubIn.Payload
	prt, _ := sp.Resolve(m.Payload.Type)
	if prt == nil {
		prt = m.Payload.Type
	}
	for _, d := range vtree.DiffS(want, got) {
		attr := topAttr(d.Path)
		loc := "body"
		kind := kindOf(sp, m.Payload.Type)
		if prt.Kind == spec.Object {
			for _, a := range prt.Attrs {
				if spec.Norm(a.Name) == attr {
					loc = locName(cases.LocOf(m.HTTP, a.Name))
					kind = kindOf(sp, a.Type)
					if a.HasDef {
						kind += "+default"
					}
					if a.Sec != "" {
						kind += "+sec"
					}
				}
			}
		} else if m.HTTP != nil {
			switch {
			case len(m.HTTP.Path) > 0:
				loc = "path"
			case len(m.HTTP.Query) > 0:
				loc = "query"
			case len(m.HTTP.Headers) > 0:
				loc = "header"
			}
		}
		nested := ""
		if strings.Count(d.Path, ".")+strings.Count(d.Path, "[")+strings.Count(d.Path, "{") > 1 {
			nested = ":nested"
		}
		tags := Explain(sp, m, ex.Case.Sent)
		if ex.Case.Raw != nil && strings.Contains(d.Path, ".$value.") {
			// a hand-encoded request spells the members of a user type alternative by their design names inside the
			// union's Value text (union.go): the difference lies inside such a value
			tags = append(tags, "union-usertype-value-design-names")
		}
		if diffClass(d) == "lost" && lostInLaterDeclaredType(sp, d.Path) {
			// listed goa defect (found by C01): a user type declared after a type that inherits, through Reference, an
			// attribute reaching it is emitted as an EMPTY struct in the service package; when the code still compiles
			// its attributes are silently dropped
			tags = append(tags, "reference-inherits-type-declared-later")
		}
		v.add(mkKey("mismatch", "payload-mismatch", fmt.Sprintf("%s:%s%s:%s:%s", loc, kind, nested, diffClass(d), valClass(d.Want)), tags), "payload attribute differs at %s", d.String())
	}
	return v
}

// pickResponse returns the response the design selects for a result value.
func pickResponse(m *spec.Method, result any) *spec.HTTPResponse {
	if m.HTTP == nil {
		return nil
	}
	ro, _ := result.(map[string]any)
	var untagged *spec.HTTPResponse
	for _, r := range m.HTTP.Responses {
		if r.TagAttr == "" {
			if untagged == nil {
				untagged = r
			}
			continue
		}
		if ro != nil {
			if tv, ok := ro[r.TagAttr]; ok && vtree.Kind(tv) == "s" && vtree.Text(tv) == r.TagValue {
				return r
			}
		}
	}
	return untagged
}

// ExpectedStatus returns the status the design assigns for a result (0 = goa default: 200 with body, 204 without).
func ExpectedStatus(sp *spec.Spec, m *spec.Method, result any) []int {
	r := pickResponse(m, result)
	if r != nil {
		return []int{r.Status}
	}
	if m.Result == nil {
		return []int{204}
	}
	return []int{200}
}

// C03 judges result delivery (streaming endpoints: stream.go).
func C03(sp *spec.Spec, ex *rt.Exchange) *Verdict {
	v := &Verdict{}
	sv, m := sp.FindMethod(ex.Case.Svc, ex.Case.Method)
	if m == nil {
		v.Inconclusive = "unknown method"
		return v
	}
	if m.Stream != "" && m.HTTP != nil {
		return StreamC03(sp, sv, m, ex)
	}
	if ex.BuildErr != "" {
		v.Inconclusive = "value builder: " + ex.BuildErr
		return v
	}
	if ex.StubErr != "" {
		v.Inconclusive = "result builder: " + ex.StubErr
		return v
	}
	if ex.StubIn == nil {
		v.Inconclusive = "request did not reach the stub (C02/C04)"
		return v
	}
	if isViewed(sp, m) && ex.Panic != "" {
		v.Inconclusive = "viewed result (C08)"
		return v
	}
	if ex.Panic != "" {
		tags := Explain(sp, m, ex.Case.Sent)
		if ex.Case.Outcome != nil {
			tags = append(tags, ExplainResult(sp, m, ex.Case.Outcome.Result)...)
		}
		v.add(mkKey("panic", "panic:"+panicSite(ex.Panic), "", tags), "panic while delivering a valid result: %s", firstLine(ex.Panic))
		return v
	}
	oc := ex.Case.Outcome
	if oc == nil || oc.Kind != "result" {
		v.Inconclusive = "not a result outcome"
		return v
	}
	if ex.WireResp == nil || (ex.ClientOut == nil && ex.Case.Raw == nil) {
		v.Inconclusive = "no response recorded"
		return v
	}
	if m.Result != nil {
		var viol []Violation
		var und []string
		Validate(sp, m.Result.Type, m.Result.Val, oc.Result, "", &viol, &und, 0)
		if len(viol) > 0 || len(und) > 0 {
			v.Inconclusive = "case generator produced a result that does not satisfy the design"
			return v
		}
	}
	// status
	okStatus := false
	want := ExpectedStatus(sp, m, oc.Result)
	for _, s := range want {
		if ex.WireResp.Status == s {
			okStatus = true
		}
	}
	if !okStatus {
		tagged := ""
		if r := pickResponse(m, oc.Result); r != nil && r.TagAttr != "" {
			tagged = ":tagged"
		}
		v.add(fmt.Sprintf("result-status%s:want-%d:got-%d", tagged, want[0], ex.WireResp.Status), "response status %d, design assigns %v (body %s)", ex.WireResp.Status, want, trunc(string(ex.WireResp.Body), 200))
	}
	if ex.WireResp.WriteHeaders != 1 && !(ex.WireResp.WriteHeaders == 0 && ex.WireResp.Status == 200) {
		v.add("write-header-calls", "WriteHeader called %d times", ex.WireResp.WriteHeaders)
	}
	if ex.Case.Raw != nil {
		// hand-encoded request: there is no generated client on the way back; judge the wire only
		if m.Result != nil && !isViewed(sp, m) {
			ResponsePlacement(sp, m, ex, v)
		}
		return v
	}
	if ex.ClientOut.Err != nil {
		v.add(mkKey("refused:"+ex.ClientOut.Err.Name, "valid-result-refused-by-client:"+ex.ClientOut.Err.Name, "", ExplainResult(sp, m, oc.Result)), "client returned an error for a valid result %s: [%s] %s", vtree.Show(oc.Result), ex.ClientOut.Err.GoType, trunc(ex.ClientOut.Err.Message, 300))
		return v
	}
	if m.Result == nil {
		if ex.ClientOut.HasRes {
			v.add("spurious-result", "client returned a result for a method without result")
		}
		return v
	}
	for _, l := range ex.LateChange {
		if strings.HasPrefix(l, "client_out:") {
			v.add("result-changed-after-return:"+kindOf(sp, m.Result.Type), "the result returned by the generated client changed after the call returned (memory shared with later responses): %s", l)
		}
	}
	resp := pickResponse(m, oc.Result)
	if resp != nil && resp.ContentType != "" && len(ex.WireResp.Body) > 0 {
		// a content type fixed in the design is the one the response announces (parameters and case aside)
		want := strings.ToLower(strings.TrimSpace(strings.SplitN(resp.ContentType, ";", 2)[0]))
		got := strings.ToLower(strings.TrimSpace(strings.SplitN(strings.Join(ex.WireResp.Header["Content-Type"], ","), ";", 2)[0]))
		if got != want {
			v.add("result-content-type:designed-not-announced", "response announces Content-Type %q, the design fixes %q", got, resp.ContentType)
		}
	}
	locOf := func(a string) valgen.Loc { return cases.RespLocOf(resp, a) }
	if !isViewed(sp, m) {
		ResponsePlacement(sp, m, ex, v)
	}
	if isViewed(sp, m) {
		// projection is C08's business: C03 only judges non-viewed results
		return v
	}
	expected := Expect(sp, m.Result.Type, oc.Result, locOf, nil, 0)
	rrt, _ := sp.Resolve(m.Result.Type)
	if rrt == nil {
		rrt = m.Result.Type
	}
	if eo, ok := expected.(map[string]any); ok && rrt.Kind == spec.Object && resp != nil {
		// a response with an explicit body carries only part of the result: what it does not carry cannot arrive
		for _, a := range rrt.Attrs {
			if !cases.RespCarried(resp, a.Name) {
				delete(eo, a.Name)
			}
		}
	}
	wantTree := rt.NormKeys(expected)
	for _, d := range vtree.DiffS(wantTree, ex.ClientOut.Result) {
		attr := topAttr(d.Path)
		loc, kind := "body", kindOf(sp, m.Result.Type)
		if rrt.Kind == spec.Object {
			for _, a := range rrt.Attrs {
				if spec.Norm(a.Name) == attr {
					loc = locName(cases.RespLocOf(resp, a.Name))
					if resp != nil && resp.Body == "attr:"+a.Name {
						loc = "explicit-body" // the attribute IS the body of the selected response (Body("attr"))
					}
					kind = kindOf(sp, a.Type)
					if a.HasDef {
						kind += "+default"
					}
				}
			}
		}
		nested := ""
		if strings.Count(d.Path, ".")+strings.Count(d.Path, "[")+strings.Count(d.Path, "{") > 1 {
			nested = ":nested"
		}
		cls := "mismatch"
		if loc == "header" && strings.HasPrefix(kind, "array") {
			cls = "mismatch:header-array"
		}
		v.add(mkKey(cls, "result-mismatch", fmt.Sprintf("%s:%s%s:%s:%s", loc, kind, nested, diffClass(d), valClass(d.Want)), ExplainResult(sp, m, oc.Result)), "result attribute differs at %s", d.String())
	}
	return v
}

func isViewed(sp *spec.Spec, m *spec.Method) bool {
	if m.Result == nil {
		return false
	}
	t := m.Result.Type
	if t.Kind == spec.Array && t.Collection {
		t = t.Elem.Type
	}
	_, ut := sp.Resolve(t)
	return ut != nil && ut.Kind == "result"
}

func firstLine(s string) string { return strings.SplitN(strings.TrimSpace(s), "\n", 2)[0] }

func panicSite(stack string) string {
	lines := strings.Split(stack, "\n")
	seen := false
	for _, l := range lines {
		if strings.HasPrefix(l, "panic(") {
			seen = true
			continue
		}
		if !seen || !strings.HasPrefix(l, "\t") {
			continue
		}
		l = strings.TrimSpace(l)
		if i := strings.Index(l, " +0x"); i > 0 {
			l = l[:i]
		}
		if strings.Contains(l, "/runtime/") {
			continue
		}
		// strip scratch prefixes: keep from "gen/" or the repo-relative path
		for _, mark := range []string{"/gen/", "/repo/"} {
			if i := strings.Index(l, mark); i >= 0 {
				l = l[i+1:]
			}
		}
		// abstract service dir and line for generated files
		return FileRoleLine(l)
	}
	return "unknown"
}

// FileRoleLine abstracts service names in generated paths, drops line numbers of generated files.
func FileRoleLine(l string) string {
	path, line := l, ""
	if i := strings.LastIndex(l, ":"); i > 0 {
		path, line = l[:i], l[i+1:]
	}
	if strings.HasPrefix(path, "gen/") {
		parts := strings.Split(path, "/")
		for i := range parts {
			if i > 0 && (parts[i-1] == "http" || parts[i-1] == "grpc" || parts[i-1] == "gen") && !strings.Contains(parts[i], ".") && parts[i] != "http" && parts[i] != "grpc" {
				parts[i] = "<svc>"
			}
		}
		return strings.Join(parts, "/")
	}
	return path + ":" + line
}

// Explain returns tags naming known trigger classes present in a payload; they
// make the keys of "not delivered"/panic findings specific to the failing input class.
func Explain(sp *spec.Spec, m *spec.Method, sent any) []string {
	tags := map[string]bool{}
	if m.Payload == nil {
		return nil
	}
	prt, _ := sp.Resolve(m.Payload.Type)
	if prt == nil {
		prt = m.Payload.Type
	}
	so, _ := sent.(map[string]any)
	if h := m.HTTP; h != nil {
		for _, l := range h.Path {
			var v any = sent
			if l.Attr != "" && so != nil {
				v = so[l.Attr]
			}
			isCatchAll := false
			for _, r := range h.Routes {
				if strings.Contains(r.Path, "{*"+l.WireName()+"}") {
					isCatchAll = true
				}
			}
			if vtree.Kind(v) == "s" && strings.Contains(vtree.Text(v), "/") && !isCatchAll {
				tags["path-value-with-slash"] = true
			}
		}
		if strings.HasPrefix(h.Body, "attr:") && so != nil {
			if _, ok := so[strings.TrimPrefix(h.Body, "attr:")]; !ok {
				tags["body-attr-absent"] = true
			}
		}
		if strings.HasPrefix(h.Body, "attr:") && prt.Kind == spec.Object {
			if a := prt.Attr(strings.TrimPrefix(h.Body, "attr:")); a != nil && a.Type.Kind == spec.Union {
				// Body("x") with x a OneOf attribute: neither generated half moves the union between payload and body (listed finding)
				tags["body-is-union"] = true
			}
		}
		// a required map-typed query parameter is absent while the query string carries other parameters: the
		// generated decoder tests whether the WHOLE query string is empty (listed finding)
		if prt, _ := sp.Resolve(m.Payload.Type); prt != nil && prt.Kind == spec.Object && so != nil {
			others := 0
			var absentMaps []string
			for _, l := range h.Query {
				a := prt.Attr(l.Attr)
				if a == nil {
					continue
				}
				v, present := so[l.Attr]
				if present && v != nil && !vtree.Empty(vtree.Norm(v)) {
					others++
					continue
				}
				if at, _ := sp.Resolve(a.Type); at != nil && at.Kind == spec.Map && prt.IsRequired(l.Attr) {
					absentMaps = append(absentMaps, l.Attr)
				}
			}
			if len(absentMaps) > 0 && others > 0 {
				tags["required-query-map-absent"] = true
			}
		}
	}
	var walk func(t *spec.Type, v any, depth int)
	walk = func(t *spec.Type, v any, depth int) {
		rt, _ := sp.Resolve(t)
		if rt == nil || depth > 30 {
			return
		}
		switch rt.Kind {
		case spec.Object:
			o, _ := v.(map[string]any)
			if o == nil {
				return
			}
			for _, a := range rt.Attrs {
				av, present := o[a.Name]
				at, _ := sp.Resolve(a.Type)
				if at == nil {
					continue
				}
				if (at.Kind == spec.Array || at.Kind == spec.Map || at.Kind == spec.Bytes) && (!present || vtree.Empty(vtree.Norm(av))) && !rt.IsRequired(a.Name) {
					mv := mergeAll(valgen.AllVals(sp, a.Type, a.Val))
					if mv.MinLen != nil && *mv.MinLen >= 1 {
						tags["absent-collection-minlen"] = true
					}
				}
				if present {
					walk(a.Type, av, depth+1)
				}
			}
		case spec.Array:
			arr, _ := v.([]any)
			for _, e := range arr {
				walk(rt.Elem.Type, e, depth+1)
			}
		case spec.Map:
			if mm, ok := vtree.IsMap(v); ok {
				for _, e := range mm {
					walk(rt.Elem.Type, e, depth+1)
				}
			}
		}
	}
	walk(m.Payload.Type, sent, 0)
	var out []string
	for t := range tags {
		out = append(out, t)
	}
	sortStrings(out)
	return out
}

func mergeAll(vs []*spec.Val) *spec.Val {
	out := &spec.Val{}
	for _, v := range vs {
		if v != nil && v.MinLen != nil && (out.MinLen == nil || *v.MinLen > *out.MinLen) {
			out.MinLen = v.MinLen
		}
	}
	return out
}

func sortStrings(s []string) {
	for i := range s {
		for j := i + 1; j < len(s); j++ {
			if s[j] < s[i] {
				s[i], s[j] = s[j], s[i]
			}
		}
	}
}

func tagSuffix(tags []string) string {
	if len(tags) == 0 {
		return ""
	}
	return ":" + strings.Join(tags, "+")
}

// ExplainResult returns trigger-class tags for a result value (see Explain).
func ExplainResult(sp *spec.Spec, m *spec.Method, result any) []string {
	if m.Result == nil {
		return nil
	}
	fake := &spec.Method{Name: m.Name, Payload: m.Result}
	tags := Explain(sp, fake, result)
	if resp := pickResponse(m, result); resp != nil {
		ro, _ := result.(map[string]any)
		if rrt, _ := sp.Resolve(m.Result.Type); rrt != nil && rrt.Kind == spec.Object {
			for _, h := range resp.Headers {
				a := rrt.Attr(h.Attr)
				if a == nil {
					continue
				}
				if at, _ := sp.Resolve(a.Type); at != nil && at.Kind == spec.Array {
					// arrays in response headers do not round trip (listed finding): joined with ", " by the
					// server, read as one element by the client; an absent array is written as an empty header
					arr, _ := ro[h.Attr].([]any)
					if len(arr) != 1 {
						tags = append(tags, "header-array-multi")
						break
					}
				}
			}
		}
		if strings.HasPrefix(resp.Body, "attr:") {
			// Body("attr") with the optional attribute left unset: the generated constructors take its value without a
			// nil check (listed finding, the response side of body-attr-absent)
			if v, ok := ro[strings.TrimPrefix(resp.Body, "attr:")]; !ok || v == nil {
				tags = append(tags, "body-attr-absent")
			}
		}
		if resp.TagAttr != "" {
			// tagged responses write their headers without a nil check (listed finding)
			for _, h := range resp.Headers {
				if h.Attr == resp.TagAttr {
					continue
				}
				if v, ok := ro[h.Attr]; !ok || v == nil {
					tags = append(tags, "tagged-response-header-absent")
					break
				}
			}
		}
	}
	sortStrings(tags)
	return tags
}

func notDeliveredName(ex *rt.Exchange) string {
	if ex.WireResp != nil {
		return errorNameOf(ex.WireResp)
	}
	return "none"
}

func payloadKind(sp *spec.Spec, m *spec.Method) string {
	if m.Payload == nil {
		return "none"
	}
	return kindOf(sp, m.Payload.Type)
}

// lostInLaterDeclaredType reports whether the design holds the trigger of the listed "empty struct of a later declared
// type" defect (a Reference-inherited attribute whose type reaches a user type declared later) AND the last step of
// path names an attribute of one of the later declared types so reached.
func lostInLaterDeclaredType(sp *spec.Spec, path string) bool {
	last := path
	if i := strings.LastIndex(path, "."); i >= 0 {
		last = path[i+1:]
	}
	if j := strings.IndexAny(last, "[{"); j >= 0 {
		last = last[:j]
	}
	pos := map[string]int{}
	for i, t := range sp.Types {
		pos[t.Name] = i
	}
	later := map[string]bool{}
	var reach func(t *spec.Type, after int, seen map[string]bool)
	reach = func(t *spec.Type, after int, seen map[string]bool) {
		if t == nil {
			return
		}
		if t.Kind == spec.Ref {
			if seen[t.Ref] {
				return
			}
			seen[t.Ref] = true
			if pos[t.Ref] > after {
				later[t.Ref] = true
			}
			if ut := sp.Type(t.Ref); ut != nil {
				reach(ut.Def, after, seen)
			}
			return
		}
		for _, a := range t.Attrs {
			reach(a.Type, after, seen)
		}
		if t.Elem != nil {
			reach(t.Elem.Type, after, seen)
		}
		if t.Key != nil {
			reach(t.Key.Type, after, seen)
		}
	}
	for i, t := range sp.Types {
		if t.Def == nil {
			continue
		}
		for _, a := range t.Def.Attrs {
			if a.Inherit == "reference" {
				reach(a.Type, i, map[string]bool{})
			}
		}
	}
	for name := range later {
		if ut := sp.Type(name); ut != nil && ut.Def != nil {
			for _, a := range ut.Def.Attrs {
				if spec.Norm(a.Name) == spec.Norm(last) {
					return true
				}
			}
		}
	}
	return false
}
