package oracle

import (
	"fmt"
	"sort"
	"strings"

	"verif.local/lab/cases"
	"verif.local/lab/rt"
	"verif.local/lab/spec"
	"verif.local/lab/vtree"
)

func credClass(s string) string {
	switch {
	case s == "":
		return "empty"
	case strings.HasPrefix(strings.ToLower(s), "bearer ") || strings.HasPrefix(strings.ToLower(s), "basic "):
		return "scheme-prefix"
	case strings.Contains(s, " "):
		return "blank"
	case strings.Contains(s, ":"):
		return "colon"
	case !isASCII(s):
		return "nonascii"
	case strings.ContainsAny(s, "/?&=+%"):
		return "reserved"
	}
	return "token"
}

func sameSet(a, b []string) bool {
	x := append([]string{}, a...)
	y := append([]string{}, b...)
	sort.Strings(x)
	sort.Strings(y)
	return strings.Join(x, "\x00") == strings.Join(y, "\x00")
}

// C06 judges the security clauses.
func C06(sp *spec.Spec, ex *rt.Exchange) *Verdict {
	v := &Verdict{}
	sv, m := sp.FindMethod(ex.Case.Svc, ex.Case.Method)
	if m == nil {
		v.Inconclusive = "unknown method"
		return v
	}
	c := ex.Case
	if ex.BuildErr != "" {
		v.Inconclusive = "value builder: " + firstLine(ex.BuildErr)
		return v
	}
	if ex.StubErr != "" {
		v.Inconclusive = "result builder: " + firstLine(ex.StubErr)
		return v
	}
	if ex.Panic != "" && ex.StubIn == nil {
		v.add(mkKey("panic", "panic:"+panicSite(ex.Panic), "", Explain(sp, m, c.Sent)), "panic: %s", firstLine(ex.Panic))
		return v
	}
	reqs := sp.EffectiveSecurity(sv, m)
	if len(reqs) == 0 {
		if len(ex.Auth) > 0 {
			kind := "unsecured"
			if m.NoSec {
				kind = "nosecurity"
			}
			v.add("auth-callback-on-"+kind+"-method", "authorization callback %v invoked for a method without requirements", ex.Auth[0])
		}
		if ex.StubIn == nil && ex.WireResp != nil && ex.WireResp.Status < 400 {
			v.Inconclusive = "no stub"
		}
		return v
	}
	// the request must have passed decoding for the security clauses to be observable
	if ex.StubIn == nil && len(ex.Auth) == 0 {
		if ex.WireResp != nil && ex.WireResp.Status >= 400 {
			name := errorNameOf(ex.WireResp)
			if name == "missing_field" || strings.HasPrefix(name, "invalid_") || name == "fault" {
				v.Inconclusive = "rejected before authorization: " + name + " (C02/C04)"
				return v
			}
		}
		v.Inconclusive = "no callback observed and no stub"
		return v
	}
	sent, _ := c.Sent.(map[string]any)
	prt, _ := sp.Resolve(m.Payload.Type)
	credOf := func(sec string) (string, bool) {
		for _, a := range prt.Attrs {
			if a.Sec == sec {
				if x, ok := sent[a.Name]; ok && x != nil {
					return vtree.Text(x), true
				}
				return "", false
			}
		}
		return "", false
	}
	locOfSec := func(sec string) string {
		for _, a := range prt.Attrs {
			if a.Sec == sec {
				return locName(cases.LocOf(m.HTTP, a.Name))
			}
		}
		return "?"
	}
	// which requirement-level scopes may a callback see: those of any requirement containing the scheme
	reqScopes := func(scheme string) [][]string {
		var out [][]string
		for _, r := range reqs {
			for _, s := range r.Schemes {
				if s == scheme {
					out = append(out, r.Scopes)
				}
			}
		}
		return out
	}
	accepted := map[string]bool{}
	var rejectKinds []string
	for _, ev := range ex.Auth {
		sc := sp.Scheme(ev.Scheme)
		if sc == nil {
			v.add("auth-callback-unknown-scheme", "callback for unknown scheme %q", ev.Scheme)
			continue
		}
		if ev.Verdict == "accept" {
			accepted[rt.AuthKey(ev.Scheme, ev.Required)] = true
		} else {
			rejectKinds = append(rejectKinds, ev.Verdict)
		}
		// scopes
		if !sameSet(ev.Scopes, sc.Scopes) {
			v.add("auth-scheme-scopes:"+sc.Kind, "callback of scheme %q saw scopes %v, scheme declares %v", ev.Scheme, ev.Scopes, sc.Scopes)
		}
		okReq := false
		for _, rs := range reqScopes(ev.Scheme) {
			if sameSet(ev.Required, rs) {
				okReq = true
			}
		}
		if !okReq {
			v.add("auth-required-scopes:"+sc.Kind, "callback of scheme %q saw required scopes %v, requirements give %v", ev.Scheme, ev.Required, reqScopes(ev.Scheme))
		}
		// credentials
		switch sc.Kind {
		case "basic":
			u, hasU := credOf("username")
			p, hasP := credOf("password")
			if len(ev.Creds) != 2 {
				v.add("auth-credential-count:basic", "basic callback saw %d credentials", len(ev.Creds))
				break
			}
			if (hasU && ev.Creds[0] != u) || (!hasU && ev.Creds[0] != "") {
				v.add(fmt.Sprintf("auth-credential-altered:basic-user:%s", credClass(u)), "basic user: client supplied %q, callback received %q", u, ev.Creds[0])
			}
			if (hasP && ev.Creds[1] != p) || (!hasP && ev.Creds[1] != "") {
				v.add(fmt.Sprintf("auth-credential-altered:basic-pass:%s", credClass(p)), "basic password: client supplied %q, callback received %q", p, ev.Creds[1])
			}
		default:
			sec := map[string]string{"jwt": "token", "oauth2": "accesstoken"}[sc.Kind]
			if sc.Kind == "apikey" {
				sec = "apikey:" + sc.Name
			}
			want, has := credOf(sec)
			if len(ev.Creds) != 1 {
				v.add("auth-credential-count:"+sc.Kind, "callback saw %d credentials", len(ev.Creds))
				break
			}
			got := ev.Creds[0]
			okc := got == want
			// a credential that already carries the scheme prefix: prefix removal is the documented behaviour
			if !okc && has && (sc.Kind == "jwt" || sc.Kind == "oauth2") {
				lw := strings.ToLower(want)
				if strings.HasPrefix(lw, "bearer ") && got == want[len("bearer "):] {
					okc = true
				}
			}
			if !has && got == "" {
				okc = true
			}
			if !okc {
				// where the design sends the credential: an unmapped credential travels in the Authorization header
				where := locOfSec(sec)
				if where == "body" || where == "?" {
					where = "header"
				}
				v.add(fmt.Sprintf("auth-credential-altered:%s:%s:%s", sc.Kind, where, credClass(want)), "%s credential (sent in the %s): client supplied %q, callback received %q", sc.Kind, where, want, got)
			}
		}
	}
	// any-requirement / all-schemes over the scripted vector: a requirement is satisfied when every
	// one of its schemes has verdict accept (in the script) — callbacks not invoked cannot have accepted
	satisfiedByScript := false
	for _, r := range reqs {
		all := true
		for _, s := range r.Schemes {
			verdict := c.Auth[s]
			if sv, ok := c.Auth[rt.AuthKey(s, r.Scopes)]; ok {
				verdict = sv
			}
			if verdict != "accept" {
				all = false
			}
		}
		if all {
			satisfiedByScript = true
		}
	}
	satisfiedObserved := false
	for _, r := range reqs {
		all := true
		for _, s := range r.Schemes {
			// the callback of scheme s invoked for THIS requirement (its required scopes) accepted
			if !accepted[rt.AuthKey(s, r.Scopes)] {
				all = false
			}
		}
		if all {
			satisfiedObserved = true
		}
	}
	ran := ex.StubIn != nil
	switch {
	case ran && !satisfiedObserved:
		v.add(fmt.Sprintf("method-ran-without-satisfied-requirement:reqs-%d", len(reqs)), "service method ran although no requirement had all its callbacks accept (vector %v, events %v)", c.Auth, ex.Auth)
	case !ran && satisfiedByScript:
		// every callback of some requirement would accept: the method must run (unless decoding rejected the request)
		if ex.WireResp != nil && ex.WireResp.Status >= 400 && len(ex.Auth) == 0 {
			v.Inconclusive = "rejected before authorization"
			return v
		}
		v.add(fmt.Sprintf("method-not-run-although-requirement-satisfiable:reqs-%d:%s", len(reqs), c.Class), "a requirement is fully accepted by the script %v but the method did not run (events %v, status %d)", c.Auth, ex.Auth, statusOfEx(ex))
	}
	if !ran && !satisfiedByScript {
		// the caller receives the callback's error
		if ex.ClientOut == nil || ex.ClientOut.Err == nil {
			v.add("auth-failure-returned-result", "all requirements failed but the client got a result")
			return v
		}
		ce := ex.ClientOut.Err
		ok := false
		for _, rk := range rejectKinds {
			p := strings.SplitN(rk, ":", 3)
			switch {
			case len(p) >= 3 && p[1] == "declared":
				if ce.Name == p[2] {
					ok = true
				}
			case len(p) >= 2 && p[1] == "service":
				// undeclared service error: an error response carrying name and flags (status 503: temporary)
				if ex.WireResp != nil && ex.WireResp.Status == 503 {
					if eb := DecodeErrBody(ex.WireResp.Body); eb != nil && eb.Name == "auth_rejected" && eb.Temporary {
						ok = true
					}
				}
			default:
				if ex.WireResp != nil && ex.WireResp.Status == 500 {
					ok = true
				}
			}
		}
		if !ok {
			v.add("auth-error-not-the-callbacks", "client received %s %q (status %d); scripted callback errors: %v", ce.GoType, ce.Name, statusOfEx(ex), rejectKinds)
		}
	}
	return v
}

func statusOfEx(ex *rt.Exchange) int {
	if ex.WireResp != nil {
		return ex.WireResp.Status
	}
	return 0
}

var _ = spec.Norm
