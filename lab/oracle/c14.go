package oracle

import (
	"bytes"
	"context"
	"encoding/json"
	"fmt"
	"io"
	"net/http"
	"os"
	"path/filepath"
	"regexp"
	"strings"
	"sync"

	"github.com/getkin/kin-openapi/openapi3"
	"github.com/getkin/kin-openapi/openapi3filter"
	"github.com/getkin/kin-openapi/routers"
	"github.com/getkin/kin-openapi/routers/legacy"

	"verif.local/lab/rt"
	"verif.local/lab/spec"
)

// schemaJudge evaluates requests/responses against the generated OpenAPI 3 document
// (kin-openapi's openapi3filter: an implementation that shares no code with goa).
type schemaJudge struct {
	oa     *oaDoc
	doc    *openapi3.T
	router routers.Router
	err    string
	notes  []string
}

var (
	judgeMu   sync.Mutex
	judges    = map[string]*schemaJudge{}
	designDir = map[string]string{}
)

// RegisterDesign tells the oracles where the generated tree of a design lives.
func RegisterDesign(id, dir string) {
	judgeMu.Lock()
	designDir[id] = dir
	delete(judges, id)
	judgeMu.Unlock()
}

// fixExclusive rewrites numeric exclusiveMinimum/exclusiveMaximum (JSON-Schema draft 6 form, a listed C07
// finding: invalid in OpenAPI 3.0) into the OpenAPI 3.0 form so that the rest of the document can be used.
func fixExclusive(v any) (any, int) {
	n := 0
	switch x := v.(type) {
	case map[string]any:
		for k, e := range x {
			fe, c := fixExclusive(e)
			x[k] = fe
			n += c
		}
		for _, p := range [][2]string{{"exclusiveMinimum", "minimum"}, {"exclusiveMaximum", "maximum"}} {
			if f, ok := x[p[0]].(float64); ok {
				if _, has := x[p[1]]; !has {
					x[p[1]] = f
					x[p[0]] = true
				} else {
					// both an inclusive and an exclusive bound: keep the stricter one
					inc, _ := x[p[1]].(float64)
					if (p[1] == "minimum" && f >= inc) || (p[1] == "maximum" && f <= inc) {
						x[p[1]] = f
						x[p[0]] = true
					} else {
						delete(x, p[0])
					}
				}
				n++
			}
		}
		return x, n
	case []any:
		for i := range x {
			fe, c := fixExclusive(x[i])
			x[i] = fe
			n += c
		}
		return x, n
	}
	return v, 0
}

func judgeFor(id string) *schemaJudge {
	judgeMu.Lock()
	defer judgeMu.Unlock()
	if j, ok := judges[id]; ok {
		return j
	}
	j := &schemaJudge{}
	judges[id] = j
	dir := designDir[id]
	raw, err := os.ReadFile(filepath.Join(dir, "gen", "http", "openapi3.json"))
	if err != nil {
		j.err = "openapi3.json missing"
		return j
	}
	oa, err := loadOADoc(raw)
	if err != nil {
		j.err = "openapi3.json does not parse"
		return j
	}
	j.oa = oa
	var tree any
	if err := json.Unmarshal(raw, &tree); err != nil {
		j.err = "openapi3.json does not parse"
		return j
	}
	tree, fixed := fixExclusive(tree)
	if fixed > 0 {
		j.notes = append(j.notes, "numeric-exclusive-bounds-rewritten")
	}
	raw, _ = json.Marshal(tree)
	loader := openapi3.NewLoader()
	doc, err := loader.LoadFromData(raw)
	if err != nil {
		j.err = "openapi3.json does not load (C07): " + firstLine(err.Error())
		return j
	}
	doc.Servers = nil
	for _, item := range doc.Paths.Map() {
		item.Servers = nil
		for _, op := range item.Operations() {
			op.Servers = nil
		}
	}
	r, err := legacy.NewRouter(doc)
	if err != nil {
		j.err = "router: " + firstLine(err.Error())
		return j
	}
	j.doc, j.router = doc, r
	return j
}

func httpReqOf(w *rt.WireReq) (*http.Request, error) {
	req, err := http.NewRequest(w.Method, w.URL, bytes.NewReader(w.Body))
	if err != nil {
		return nil, err
	}
	for k, vs := range w.Header {
		for _, v := range vs {
			req.Header.Add(k, v)
		}
	}
	return req, nil
}

// C14 compares the server's accept/reject decision with the verdict of the OpenAPI 3 schemas on the
// exact request exchanged, and checks success/declared-error responses against the documented response.
// The decider is the lab's own evaluator (oaeval.go); kin-openapi's openapi3filter is run as a cross-check
// whose agreement is counted (notes), not judged.
func C14(sp *spec.Spec, ex *rt.Exchange) *Verdict {
	v := &Verdict{}
	_, m := sp.FindMethod(ex.Case.Svc, ex.Case.Method)
	if m == nil {
		v.Inconclusive = "unknown method"
		return v
	}
	c := ex.Case
	if ex.BuildErr != "" {
		v.Inconclusive = "value builder: " + firstLine(ex.BuildErr)
		return v
	}
	if ex.WireReq == nil || ex.WireResp == nil {
		v.Inconclusive = "no wire exchange"
		return v
	}
	if ex.Panic != "" {
		v.Inconclusive = "panic (reported by C02-C05)"
		return v
	}
	j := judgeFor(ex.Design)
	if j.oa == nil {
		v.Inconclusive = j.err
		return v
	}
	if ex.StubIn == nil && len(ex.Auth) > 0 {
		v.Inconclusive = "rejected by an authorization callback"
		return v
	}
	matched, errs, amb := j.oa.judgeRequest(ex.WireReq)
	if amb != "" {
		v.Inconclusive = amb
		return v
	}
	site := noteStr(c, "site")
	if strings.HasPrefix(c.Class, "result-probe:") || strings.HasPrefix(c.Class, "declared:") {
		site = ""
	}
	loc, kind := "body", "?"
	if site != "" && m.Payload != nil {
		loc, kind = siteLocKind(sp, m, m.Payload, site, nil, false)
	}
	tags := mergeTags(Explain(sp, m, c.Sent), siteTags(sp, m, m.Payload, site, true))
	serverMsg := ""
	if eb := DecodeErrBody(ex.WireResp.Body); eb != nil {
		serverMsg = eb.Message
	}
	tags = mergeTags(tags, c14Tags(sp, m, errs, serverMsg))
	if !matched {
		if ex.WireResp.Status == 404 || ex.WireResp.Status == 405 {
			return v
		}
		v.add(mkKey("rejected:fault", "request-served-but-no-documented-operation-matches", "", tags), "the server answered %d for %s %s but no documented operation matches", ex.WireResp.Status, ex.WireReq.Method, ex.WireReq.URL)
		return v
	}
	schemaOK := len(errs) == 0
	serverAccepted := ex.StubIn != nil
	serverRejected := ex.StubIn == nil && ex.WireResp.Status >= 400 && ex.WireResp.Status < 500
	// cross-check with kin-openapi (counted only)
	if j.router != nil {
		if req, err := httpReqOf(ex.WireReq); err == nil {
			if route, pp, err := j.router.FindRoute(req); err == nil {
				in := &openapi3filter.RequestValidationInput{Request: req, PathParams: pp, Route: route,
					Options: &openapi3filter.Options{AuthenticationFunc: func(context.Context, *openapi3filter.AuthenticationInput) error { return nil }}}
				kinOK := openapi3filter.ValidateRequest(context.Background(), in) == nil
				if kinOK == schemaOK {
					v.Notes = append(v.Notes, "kin-openapi-agrees")
				} else {
					v.Notes = append(v.Notes, "kin-openapi-disagrees")
				}
			}
		}
	}
	switch {
	case schemaOK && serverRejected:
		name := errorNameOf(ex.WireResp)
		v.add(mkKey("rejected:"+name, "schema-accepts-server-rejects:"+name, fmt.Sprintf("%s:%s:%s", siteClass(site), loc, kind), tags),
			"the documented schemas accept this request but the server rejects it (%d %s: %s): %s %s body=%s", ex.WireResp.Status, name, trunc(string(ex.WireResp.Body), 160), ex.WireReq.Method, ex.WireReq.URL, trunc(string(ex.WireReq.Body), 200))
	case !schemaOK && serverAccepted:
		v.add(mkKey("leaked", "schema-rejects-server-accepts:"+strings.Join(classesOf(errs), "+"), fmt.Sprintf("%s:%s:%s", siteClass(site), loc, kind), tags),
			"the documented schemas reject this request (%s) but the server ran the method: %s %s body=%s", trunc(strings.Join(errs, "; "), 200), ex.WireReq.Method, ex.WireReq.URL, trunc(string(ex.WireReq.Body), 200))
	}
	// ---- response conformance: success and declared-error responses produced from VALID values only
	oc := c.Outcome
	if ex.StubIn == nil || oc == nil || ex.StubErr != "" {
		return v
	}
	cls := ""
	switch {
	case oc.Kind == "result":
		if m.Result != nil {
			var viol []Violation
			var und []string
			Validate(sp, m.Result.Type, m.Result.Val, oc.Result, "", &viol, &und, 0)
			if len(viol) > 0 || len(und) > 0 {
				return v // the service returned a value that violates the design: not a server-produced contract breach
			}
		}
		cls = "result"
		if isViewed(sp, m) {
			cls = "viewed-result"
		}
	case strings.HasSuffix(oc.Kind, "declared"):
		cls = "declared-error"
		if oc.Custom {
			cls += ":custom-type"
		}
	default:
		return v
	}
	rerrs, und := j.oa.judgeResponse(ex.WireReq, ex.WireResp)
	if und != "" {
		return v
	}
	if len(rerrs) > 0 {
		rtags := ExplainResult(sp, m, oc.Result)
		kcls := strings.Join(classesOf(rerrs), "+")
		where := ""
		for _, e := range rerrs {
			if strings.Contains(e, "@header:set-cookie") {
				where = ":set-cookie"
			} else if strings.Contains(e, "@header:") && where == "" {
				where = ":header"
			}
		}
		v.add(mkKey("refused:"+kcls, fmt.Sprintf("response-not-conforming:%s:%s%s", cls, kcls, where), "", rtags),
			"the %d response does not conform to the documented response: %s | content-type=%s body=%s", ex.WireResp.Status, trunc(strings.Join(rerrs, "; "), 300), first(headerVals(ex.WireResp.Header, "Content-Type")), trunc(string(ex.WireResp.Body), 200))
	}
	return v
}

func schemaErrClass(err error) string {
	s := err.Error()
	switch {
	case strings.Contains(s, "doesn't match any schema") || strings.Contains(s, "response status"):
		return "status-not-documented"
	case strings.Contains(s, "number must be at most") || strings.Contains(s, "number must be at least") || strings.Contains(s, "number must be less than") || strings.Contains(s, "number must be more than"):
		return "range"
	case strings.Contains(s, "minimum string length") || strings.Contains(s, "maximum string length") || strings.Contains(s, "minimum number of items") || strings.Contains(s, "maximum number of items") || strings.Contains(s, "number of properties"):
		return "length"
	case strings.Contains(s, "is not one of the allowed values"):
		return "enum"
	case strings.Contains(s, "doesn't match the regular expression"):
		return "pattern"
	case strings.Contains(s, "doesn't match the format") || strings.Contains(s, "format"):
		return "format"
	case strings.Contains(s, "property") && strings.Contains(s, "is missing"):
		return "required"
	case strings.Contains(s, "must have a value") || strings.Contains(s, "value is required"):
		return "required"
	case strings.Contains(s, "header Content-Type has unexpected value") || strings.Contains(s, "content type"):
		return "content-type"
	case strings.Contains(s, "must be a") || strings.Contains(s, "Value must be") || strings.Contains(s, "value must be") || strings.Contains(s, "failed to decode") || strings.Contains(s, "cannot be parsed") || strings.Contains(s, "an invalid"):
		return "type"
	case strings.Contains(s, "unsupported"):
		return "unsupported"
	}
	return "other"
}

var _ = io.EOF

// c14Tags names the known schema/validation drift classes that account for a disagreement. They are
// derived from the evidence of the disagreement itself (the schema's error paths, or the attribute the
// server's error message names), not from the mere presence of such attributes in the design.
func c14Tags(sp *spec.Spec, m *spec.Method, schemaErrs []string, serverMsg string) []string {
	var tags []string
	if m.Payload == nil {
		return nil
	}
	kindAt := func(path string) (string, *spec.Attr) {
		path = strings.TrimPrefix(path, "body")
		a := attrAt(sp, m.Payload, path)
		if a == nil {
			return "", nil
		}
		rt, _ := sp.Resolve(a.Type)
		if rt == nil {
			return "", a
		}
		return rt.Kind, a
	}
	// schema rejects: every error is a length error on a bytes attribute
	if len(schemaErrs) > 0 {
		all := true
		for _, e := range schemaErrs {
			j := strings.Index(e, "@")
			k := strings.Index(e, ": ")
			if j < 0 || k < j || e[:j] != "length" {
				all = false
				break
			}
			p := e[j+1 : k]
			p = regexp.MustCompile(`\{[^}]*\}`).ReplaceAllString(p, "{x}")
			if kind, _ := kindAt(p); kind != spec.Bytes {
				all = false
				break
			}
		}
		if all {
			tags = append(tags, "schema:bytes-length-on-base64-text")
		}
		onlyNullBody := len(schemaErrs) == 1 && strings.HasPrefix(schemaErrs[0], "type@body: null")
		if onlyNullBody {
			tags = append(tags, "schema:null-body")
		}
		if len(schemaErrs) == 1 && schemaErrs[0] == "required@body: missing" {
			tags = append(tags, "schema:request-body-documented-required")
		}
	}
	// server rejects: which attribute does its message name?
	if mm := regexp.MustCompile(`(?:length of |value of |^|; )(body[A-Za-z0-9_.\[\]]*|[a-z_0-9]+) must`).FindStringSubmatch(serverMsg); mm != nil {
		p := mm[1]
		if strings.Contains(p, "[key]") || strings.Contains(p, ".key") {
			tags = append(tags, "schema:map-key-elem-validation-not-documented")
		} else {
			if !strings.HasPrefix(p, "body") {
				p = "." + p
			}
			switch kind, _ := kindAt(p); kind {
			case spec.Map:
				tags = append(tags, "schema:map-length-not-documented")
			case spec.Bytes:
				tags = append(tags, "schema:bytes-length-on-base64-text")
			}
		}
	}
	return tags
}
