package oracle

import (
	"bytes"
	"context"
	"encoding/json"
	"fmt"
	"net/http"
	"os"
	"path/filepath"
	"regexp"
	"strings"
	"sync"

	"github.com/getkin/kin-openapi/openapi3"
	"github.com/getkin/kin-openapi/openapi3filter"
	"github.com/getkin/kin-openapi/routers"
	"github.com/getkin/kin-openapi/routers/legacy"

	"verif.local/lab/cases"
	"verif.local/lab/rt"
	"verif.local/lab/spec"
)

// schemaJudge evaluates requests/responses against the generated OpenAPI 3 document
// (kin-openapi's openapi3filter: an implementation that shares no code with goa).
type schemaJudge struct {
	oa     *oaDoc
	doc    *openapi3.T
	router routers.Router
	err    string
	notes  []string
}

var (
	judgeMu   sync.Mutex
	judges    = map[string]*schemaJudge{}
	designDir = map[string]string{}
)

// RegisterDesign tells the oracles where the generated tree of a design lives.
func RegisterDesign(id, dir string) {
	judgeMu.Lock()
	designDir[id] = dir
	delete(judges, id)
	judgeMu.Unlock()
}

// fixExclusive rewrites numeric exclusiveMinimum/exclusiveMaximum (JSON-Schema draft 6 form, a listed C07
// finding: invalid in OpenAPI 3.0) into the OpenAPI 3.0 form so that the rest of the document can be used.
func fixExclusive(v any) (any, int) {
	n := 0
	switch x := v.(type) {
	case map[string]any:
		for k, e := range x {
			fe, c := fixExclusive(e)
			x[k] = fe
			n += c
		}
		for _, p := range [][2]string{{"exclusiveMinimum", "minimum"}, {"exclusiveMaximum", "maximum"}} {
			if f, ok := x[p[0]].(float64); ok {
				if _, has := x[p[1]]; !has {
					x[p[1]] = f
					x[p[0]] = true
				} else {
					// both an inclusive and an exclusive bound: keep the stricter one
					inc, _ := x[p[1]].(float64)
					if (p[1] == "minimum" && f >= inc) || (p[1] == "maximum" && f <= inc) {
						x[p[1]] = f
						x[p[0]] = true
					} else {
						delete(x, p[0])
					}
				}
				n++
			}
		}
		return x, n
	case []any:
		for i := range x {
			fe, c := fixExclusive(x[i])
			x[i] = fe
			n += c
		}
		return x, n
	}
	return v, 0
}

func judgeFor(id string) *schemaJudge {
	judgeMu.Lock()
	defer judgeMu.Unlock()
	if j, ok := judges[id]; ok {
		return j
	}
	j := &schemaJudge{}
	judges[id] = j
	dir := designDir[id]
	raw, err := os.ReadFile(filepath.Join(dir, "gen", "http", "openapi3.json"))
	if err != nil {
		j.err = "openapi3.json missing"
		return j
	}
	oa, err := loadOADoc(raw)
	if err != nil {
		j.err = "openapi3.json does not parse"
		return j
	}
	j.oa = oa
	var tree any
	if err := json.Unmarshal(raw, &tree); err != nil {
		j.err = "openapi3.json does not parse"
		return j
	}
	tree, fixed := fixExclusive(tree)
	if fixed > 0 {
		j.notes = append(j.notes, "numeric-exclusive-bounds-rewritten")
	}
	raw, _ = json.Marshal(tree)
	loader := openapi3.NewLoader()
	doc, err := loader.LoadFromData(raw)
	if err != nil {
		j.err = "openapi3.json does not load (C07): " + firstLine(err.Error())
		return j
	}
	doc.Servers = nil
	for _, item := range doc.Paths.Map() {
		item.Servers = nil
		for _, op := range item.Operations() {
			op.Servers = nil
		}
	}
	r, err := legacy.NewRouter(doc)
	if err != nil {
		j.err = "router: " + firstLine(err.Error())
		return j
	}
	j.doc, j.router = doc, r
	return j
}

func httpReqOf(w *rt.WireReq) (*http.Request, error) {
	req, err := http.NewRequest(w.Method, w.URL, bytes.NewReader(w.Body))
	if err != nil {
		return nil, err
	}
	for k, vs := range w.Header {
		for _, v := range vs {
			req.Header.Add(k, v)
		}
	}
	return req, nil
}

// C14 compares the server's accept/reject decision with the verdict of the OpenAPI 3 schemas on the
// exact request exchanged, and checks success/declared-error responses against the documented response.
// The decider is the lab's own evaluator (oaeval.go); kin-openapi's openapi3filter is run as a cross-check
// whose agreement is counted (notes), not judged.
func C14(sp *spec.Spec, ex *rt.Exchange) *Verdict {
	v := &Verdict{}
	sv, m := sp.FindMethod(ex.Case.Svc, ex.Case.Method)
	if m == nil {
		v.Inconclusive = "unknown method"
		return v
	}
	if isMultipart(m) {
		// the evaluator reads JSON bodies only (stated in C14's assumptions): a multipart exchange is not decided here
		v.Inconclusive = "multipart request body (outside the JSON schema evaluator)"
		return v
	}
	c := ex.Case
	if m.HTTP != nil && sv != nil {
		// goa accepts designs in which two methods declare the same verb and path; the document then holds one
		// operation for both (the last one): the operation found for the request may be another method's
		claims := routeClaims(sp)
		for ri, r := range m.HTTP.Routes {
			if claims[claimKey(r.Verb, cases.FullPath(sp, sv, m, ri))] > 1 {
				v.Inconclusive = "route declared by several methods of the design"
				return v
			}
		}
	}
	if ex.BuildErr != "" {
		v.Inconclusive = "value builder: " + firstLine(ex.BuildErr)
		return v
	}
	if ex.WireReq == nil || ex.WireResp == nil {
		v.Inconclusive = "no wire exchange"
		return v
	}
	if ex.Panic != "" {
		v.Inconclusive = "panic (reported by C02-C05)"
		return v
	}
	j := judgeFor(ex.Design)
	if j.oa == nil {
		v.Inconclusive = j.err
		return v
	}
	if ex.StubIn == nil && len(ex.Auth) > 0 {
		v.Inconclusive = "rejected by an authorization callback"
		return v
	}
	matched, errs, amb := j.oa.judgeRequest(ex.WireReq)
	if amb != "" {
		v.Inconclusive = amb
		return v
	}
	site := noteStr(c, "site")
	if strings.HasPrefix(c.Class, "result-probe:") || strings.HasPrefix(c.Class, "declared:") {
		site = ""
	}
	loc, kind := "body", "?"
	if site != "" && m.Payload != nil {
		loc, kind = siteLocKind(sp, m, m.Payload, site, nil, false)
	}
	tags := mergeTags(Explain(sp, m, c.Sent), siteTags(sp, m, m.Payload, site, true))
	serverMsg := ""
	if eb := DecodeErrBody(ex.WireResp.Body); eb != nil {
		serverMsg = eb.Message
	}
	tags = mergeTags(tags, c14Tags(j.oa, m, ex.WireReq, site, loc, errs, serverMsg))
	if !matched {
		if ex.WireResp.Status == 404 || ex.WireResp.Status == 405 {
			return v
		}
		if j.oa.catchAllSpansSegments(ex.WireReq) {
			tags = mergeTags(tags, []string{"doc:catch-all-path-spans-segments"})
		}
		v.add(mkKey("rejected:fault", "request-served-but-no-documented-operation-matches", "", tags), "the server answered %d for %s %s but no documented operation matches", ex.WireResp.Status, ex.WireReq.Method, ex.WireReq.URL)
		return v
	}
	schemaOK := len(errs) == 0
	serverAccepted := ex.StubIn != nil
	serverRejected := ex.StubIn == nil && ex.WireResp.Status >= 400 && ex.WireResp.Status < 500
	// cross-check with kin-openapi (counted only)
	if j.router != nil {
		if req, err := httpReqOf(ex.WireReq); err == nil {
			if route, pp, err := j.router.FindRoute(req); err == nil {
				in := &openapi3filter.RequestValidationInput{Request: req, PathParams: pp, Route: route,
					Options: &openapi3filter.Options{AuthenticationFunc: func(context.Context, *openapi3filter.AuthenticationInput) error { return nil }}}
				kinOK := openapi3filter.ValidateRequest(context.Background(), in) == nil
				if kinOK == schemaOK {
					v.Notes = append(v.Notes, "kin-openapi-agrees")
				} else {
					v.Notes = append(v.Notes, "kin-openapi-disagrees")
				}
			}
		}
	}
	switch {
	case schemaOK && serverRejected:
		name := errorNameOf(ex.WireResp)
		v.add(mkKey("rejected:"+name, "schema-accepts-server-rejects:"+name, fmt.Sprintf("%s:%s:%s", siteClass(site), loc, kind), tags),
			"the documented schemas accept this request but the server rejects it (%d %s: %s): %s %s body=%s", ex.WireResp.Status, name, trunc(string(ex.WireResp.Body), 160), ex.WireReq.Method, ex.WireReq.URL, trunc(string(ex.WireReq.Body), 200))
	case !schemaOK && serverAccepted:
		v.add(mkKey("leaked", "schema-rejects-server-accepts:"+strings.Join(classesOf(errs), "+"), fmt.Sprintf("%s:%s:%s", siteClass(site), loc, kind), tags),
			"the documented schemas reject this request (%s) but the server ran the method: %s %s body=%s", trunc(strings.Join(errs, "; "), 200), ex.WireReq.Method, ex.WireReq.URL, trunc(string(ex.WireReq.Body), 200))
	}
	// ---- response conformance: success and declared-error responses produced from VALID values only
	oc := c.Outcome
	if ex.StubIn == nil || oc == nil || ex.StubErr != "" {
		return v
	}
	if strings.HasPrefix(c.Class, "result-probe:") && invalidSide(c.Class[strings.LastIndex(c.Class, ":")+1:]) {
		// the stub was scripted to return a value on the violating side of a rule (for MinLength(1) that is an
		// explicitly empty collection, which the tree comparison treats like an absent one): whatever the server
		// wrote is the service's breach, not the document's
		return v
	}
	cls := ""
	var mapped []spec.Loc // attributes of the returned value written to headers/cookies of this response
	switch {
	case oc.Kind == "result":
		if m.Result != nil {
			var viol []Violation
			var und []string
			Validate(sp, m.Result.Type, m.Result.Val, oc.Result, "", &viol, &und, 0)
			if len(viol) > 0 || len(und) > 0 {
				return v // the service returned a value that violates the design: not a server-produced contract breach
			}
		}
		cls = "result"
		if isViewed(sp, m) {
			cls = "viewed-result"
		}
		if resp := pickResponse(m, oc.Result); resp != nil {
			mapped = append(append(mapped, resp.Headers...), resp.Cookies...)
		}
	case strings.HasSuffix(oc.Kind, "declared"):
		cls = "declared-error"
		if oc.Custom {
			cls += ":custom-type"
			for _, e := range sp.AllErrors(sv, m) {
				if e.Name == oc.ErrName && e.Type != nil {
					var viol []Violation
					var und []string
					Validate(sp, e.Type, nil, oc.ErrTree, "", &viol, &und, 0)
					if len(viol) > 0 || len(und) > 0 {
						return v // the scripted error value itself violates the design (depth cut-off of the value generator)
					}
				}
			}
		}
		if he := sp.HTTPErrorFor(sv, m, oc.ErrName); he != nil {
			mapped = append(mapped, he.Headers...)
		}
	default:
		return v
	}
	meant := ""
	if cls == "declared-error" {
		meant = "application/vnd.goa.error" // errors of the default type are documented under the ErrorResult identifier
	}
	rerrs, und := j.oa.judgeResponse(ex.WireReq, ex.WireResp, meant)
	if und != "" {
		return v
	}
	if len(rerrs) == 0 {
		return v
	}
	// how many declared outcomes of the method share this status (the document has ONE response per status)
	sharing := 0
	if m.HTTP != nil {
		for _, r := range m.HTTP.Responses {
			if r.Status == ex.WireResp.Status {
				sharing++
			}
		}
		if len(m.HTTP.Responses) == 0 && ((m.Result == nil && ex.WireResp.Status == 204) || (m.Result != nil && ex.WireResp.Status == 200)) {
			sharing++
		}
		for _, e := range sp.AllErrors(sv, m) {
			if he := sp.HTTPErrorFor(sv, m, e.Name); he != nil && he.Status == ex.WireResp.Status {
				sharing++
			}
		}
	}
	// one finding per root cause: every schema error is attributed to the known class its own text gives evidence for
	groups := map[string][]string{}
	var order []string
	for _, e := range rerrs {
		tag := ""
		switch {
		case strings.HasPrefix(e, "content-type@header: application/json served, documented application/vnd.goa.error") && !oc.Custom:
			tag = "doc:error-media-type"
		case strings.HasPrefix(e, "content-type@") && sharing > 1:
			tag = "doc:responses-sharing-status"
		case strings.Contains(e, "@header:set-cookie"):
			tag = "doc:set-cookie-header-schema"
		case strings.HasPrefix(e, "length@") && strings.Contains(e, "[text of a "):
			tag = "schema:bytes-length-on-base64-text"
		case strings.HasPrefix(e, "required@body") && cls == "viewed-result" && memberOutsideView(sp, m, e, oc.View, first(headerVals(ex.WireResp.Header, "Goa-View"))):
			tag = "doc:viewed-result-requires-attribute-outside-view"
		case strings.HasPrefix(e, "required@body: member "):
			for _, l := range mapped {
				if strings.Contains(e, fmt.Sprintf("member %q missing", l.Attr)) {
					tag = "doc:header-mapped-attribute-in-body-schema"
				}
			}
			if tag == "" && sharing > 1 {
				tag = "doc:responses-sharing-status"
			}
		case strings.Contains(e, "@body") && sharing > 1:
			tag = "doc:responses-sharing-status"
		}
		if _, ok := groups[tag]; !ok {
			order = append(order, tag)
		}
		groups[tag] = append(groups[tag], e)
	}
	for _, tag := range order {
		errs := groups[tag]
		tags := []string{tag}
		if tag == "" {
			tags = ExplainResult(sp, m, oc.Result)
		}
		kcls := strings.Join(classesOf(errs), "+")
		where := ""
		for _, e := range errs {
			if strings.Contains(e, "@header:") {
				where = ":header"
			}
		}
		v.add(mkKey("refused:"+kcls, fmt.Sprintf("response-not-conforming:%s:%s%s", cls, kcls, where), "", tags),
			"the %d response does not conform to the documented response: %s | content-type=%s body=%s", ex.WireResp.Status, trunc(strings.Join(errs, "; "), 300), first(headerVals(ex.WireResp.Header, "Content-Type")), trunc(string(ex.WireResp.Body), 200))
	}
	return v
}

func schemaErrClass(err error) string {
	s := err.Error()
	switch {
	case strings.Contains(s, "doesn't match any schema") || strings.Contains(s, "response status"):
		return "status-not-documented"
	case strings.Contains(s, "number must be at most") || strings.Contains(s, "number must be at least") || strings.Contains(s, "number must be less than") || strings.Contains(s, "number must be more than"):
		return "range"
	case strings.Contains(s, "minimum string length") || strings.Contains(s, "maximum string length") || strings.Contains(s, "minimum number of items") || strings.Contains(s, "maximum number of items") || strings.Contains(s, "number of properties"):
		return "length"
	case strings.Contains(s, "is not one of the allowed values"):
		return "enum"
	case strings.Contains(s, "doesn't match the regular expression"):
		return "pattern"
	case strings.Contains(s, "doesn't match the format") || strings.Contains(s, "format"):
		return "format"
	case strings.Contains(s, "property") && strings.Contains(s, "is missing"):
		return "required"
	case strings.Contains(s, "must have a value") || strings.Contains(s, "value is required"):
		return "required"
	case strings.Contains(s, "header Content-Type has unexpected value") || strings.Contains(s, "content type"):
		return "content-type"
	case strings.Contains(s, "must be a") || strings.Contains(s, "Value must be") || strings.Contains(s, "value must be") || strings.Contains(s, "failed to decode") || strings.Contains(s, "cannot be parsed") || strings.Contains(s, "an invalid"):
		return "type"
	case strings.Contains(s, "unsupported"):
		return "unsupported"
	}
	return "other"
}

// c14Tags names the known schema/validation drift classes that account for a request-side disagreement. They
// are derived from the evidence of the disagreement itself: the schema's own error texts, the Go value the
// server's error message prints, and what the documented schema says about the location the probe mutated
// (site) -- not from the mere presence of such attributes in the design.
func c14Tags(d *oaDoc, m *spec.Method, w *rt.WireReq, site, loc string, schemaErrs []string, serverMsg string) []string {
	var tags []string
	if m.Payload == nil {
		return nil
	}
	// ---- the schema rejects
	if len(schemaErrs) > 0 {
		all := true
		for _, e := range schemaErrs {
			if !(strings.HasPrefix(e, "length@") && strings.Contains(e, "[text of a ")) {
				all = false
				break
			}
		}
		if all {
			tags = append(tags, "schema:bytes-length-on-base64-text")
		}
		if len(schemaErrs) == 1 && strings.HasPrefix(schemaErrs[0], "type@body: null") {
			tags = append(tags, "schema:null-body")
		}
		if len(schemaErrs) == 1 && schemaErrs[0] == "required@body: missing" {
			tags = append(tags, "schema:request-body-documented-required")
		}
		return tags
	}
	// ---- the server rejects: what does its message talk about?
	if strings.HasPrefix(serverMsg, "length of ") && strings.Contains(serverMsg, "(nil) (len=0)") {
		// the collection is ABSENT and the server still applies its minimum length: C04's absent-collection-minlen,
		// a defect of the validation code and not of the schema
		return nil
	}
	// what does the documented body schema say about the mutated location?
	var node map[string]any
	stop := "unknown"
	p := strings.SplitN(site, ":", 3)
	if len(p) == 3 && loc == "body" && d != nil && w != nil {
		path := p[2]
		if m.HTTP != nil && strings.HasPrefix(m.HTTP.Body, "attr:") {
			path = strings.TrimPrefix(path, "."+strings.TrimPrefix(m.HTTP.Body, "attr:"))
		}
		node, stop = d.walk(d.requestBodySchema(w), path)
	}
	switch {
	case strings.Contains(serverMsg, ".key must") || strings.Contains(serverMsg, "[key] must") || stop == "map-key":
		// OpenAPI 3.0 schemas cannot constrain the keys of a map
		tags = append(tags, "schema:map-key-elem-validation-not-documented")
	case stop == "free-form":
		// the probe is inside a map documented as additionalProperties: true (non-string keys)
		tags = append(tags, "schema:non-string-key-map-is-free-form")
	case strings.HasPrefix(serverMsg, "length of ") && strings.Contains(serverMsg, "but got value map["):
		tags = append(tags, "schema:map-length-not-documented")
	case strings.HasPrefix(serverMsg, "length of ") && (strings.Contains(serverMsg, "but got value []byte{") || strings.Contains(serverMsg, "but got value []uint8{")):
		tags = append(tags, "schema:bytes-length-on-base64-text")
	case strings.Contains(serverMsg, "[key] must") || strings.Contains(serverMsg, "[key]."):
		tags = append(tags, "schema:non-string-key-map-is-free-form")
	case node != nil && p[0] == "length":
		if _, isMap := node["additionalProperties"]; isMap {
			tags = append(tags, "schema:map-length-not-documented")
		}
	}
	return tags
}

var memberRe = regexp.MustCompile(`^required@body(\[\d+\])?: member "([^"]+)" missing`)

// memberOutsideView reports whether a "required member missing" complaint about the top level of a viewed result
// (or of an element of a collection of them) names an attribute that the view used for the response does not have.
func memberOutsideView(sp *spec.Spec, m *spec.Method, e, scripted, header string) bool {
	mm := memberRe.FindStringSubmatch(e)
	if mm == nil || m.Result == nil {
		return false
	}
	t := m.Result.Type
	if t.Kind == spec.Array && t.Collection && t.Elem != nil {
		t = t.Elem.Type
	}
	_, ut := sp.Resolve(t)
	if ut == nil || ut.Kind != "result" {
		return false
	}
	view := header
	if view == "" {
		view = scripted
	}
	if view == "" {
		view = "default"
	}
	for _, v := range ut.Views {
		if v.Name != view {
			continue
		}
		for _, a := range v.Attrs {
			if a.Name == mm[2] {
				return false
			}
		}
		return true
	}
	return false
}

// invalidSide reports whether a probe side names the violating side of its rule.
func invalidSide(side string) bool {
	switch side {
	case "non-member", "no-match", "malformed", "missing", "minlen-below", "maxlen-above", "min-below", "max-above",
		"exclmin-on", "exclmin-below", "exclmax-on", "exclmax-above":
		return true
	}
	return false
}
