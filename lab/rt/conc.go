package rt

// RunConcurrent drives the cases from several client goroutines (C20). Filled in later.
func (dr *Driver) RunConcurrent(cases []*Case, workers int, seed uint64) {
	for _, c := range cases {
		dr.Log(dr.Run(c))
	}
}
