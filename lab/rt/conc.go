package rt

import (
	"encoding/json"
	"runtime"
	"sort"
	"sync"
	"sync/atomic"
	"time"

	"verif.local/lab/vc"
)

// concState tracks overlap between in-flight exchanges.
type concState struct {
	inFlight   atomic.Int64
	maxFlight  atomic.Int64
	mu         sync.Mutex
	active     map[*Exchange]string // exchange -> class
	overlaps   map[string]int       // "classA|classB" -> count (observed at stub entry)
	stubOverlp atomic.Int64
}

func classOf(c *Case) string {
	cls := c.Class
	for i := 0; i < len(cls); i++ {
		if cls[i] == ':' {
			cls = cls[:i]
			break
		}
	}
	if c.Outcome != nil && c.Outcome.Kind != "result" {
		cls += "/" + c.Outcome.Kind
	}
	return cls
}

// RunConcurrent drives the cases from `workers` client goroutines, `rounds` times each, with PRNG-chosen
// yields and short sleeps inside the stub (between decode and encode) so that requests overlap (records
// with Note["phase"]="concurrent"), and afterwards runs every case once sequentially (baseline records,
// Note["phase"]="baseline"). A summary record reports the overlap actually observed.
func (dr *Driver) RunConcurrent(cases []*Case, workers int, seed uint64) {
	// ---- phase 1: concurrent (first, so that lazily initialised shared state is still cold)
	st := &concState{active: map[*Exchange]string{}, overlaps: map[string]int{}}
	dr.StubHook = func(ex *Exchange, args []any) {
		st.mu.Lock()
		me := classOf(ex.Case)
		for other, oc := range st.active {
			if other != ex {
				k := []string{me, oc}
				sort.Strings(k)
				st.overlaps[k[0]+"|"+k[1]]++
			}
		}
		st.mu.Unlock()
		// widen the window between decode and encode: the program's natural suspension point
		r := vc.NewRand(seed, uint64(ex.Case.ID), uint64(len(ex.Seq)))
		switch r.Intn(4) {
		case 0:
			runtime.Gosched()
		case 1:
			time.Sleep(time.Duration(r.Intn(200)) * time.Microsecond)
		case 2:
			for i := 0; i < r.Intn(5); i++ {
				runtime.Gosched()
			}
		}
	}
	rounds := 3
	type job struct {
		c     *Case
		round int
	}
	jobs := make(chan job, 256)
	var wg sync.WaitGroup
	for w := 0; w < workers; w++ {
		wg.Add(1)
		go func(w int) {
			defer wg.Done()
			for j := range jobs {
				cc := cloneCase(j.c)
				cc.Note["phase"] = "concurrent"
				cc.Note["worker"] = w
				cc.Note["round"] = j.round
				n := st.inFlight.Add(1)
				for {
					m := st.maxFlight.Load()
					if n <= m || st.maxFlight.CompareAndSwap(m, n) {
						break
					}
				}
				ex := dr.runConc(cc, st)
				st.inFlight.Add(-1)
				dr.Log(ex)
			}
		}(w)
	}
	order := vc.NewRand(seed, 4242)
	for r := 0; r < rounds; r++ {
		perm := order.Perm(len(cases))
		for _, i := range perm {
			jobs <- job{cases[i], r}
		}
	}
	close(jobs)
	wg.Wait()
	dr.StubHook = nil
	// ---- phase 2: sequential baseline of the same cases
	for _, c := range cases {
		cc := cloneCase(c)
		cc.Note["phase"] = "baseline"
		dr.Log(dr.Run(cc))
	}
	sum := map[string]any{"design": dr.DesignID, "conc_summary": true, "workers": workers, "rounds": rounds,
		"max_in_flight": st.maxFlight.Load(), "overlap_pairs": st.overlaps}
	b, _ := json.Marshal(sum)
	dr.outMu.Lock()
	dr.out.Write(b)
	dr.out.WriteByte('\n')
	dr.outMu.Unlock()
}

func cloneCase(c *Case) *Case {
	cc := *c
	cc.Note = map[string]any{}
	for k, v := range c.Note {
		cc.Note[k] = v
	}
	return &cc
}

// runConc is Run without the process-global "current exchange" (the exchange travels in contexts only).
func (dr *Driver) runConc(c *Case, st *concState) *Exchange {
	ex := dr.runWith(c, false, func(ex *Exchange) {
		st.mu.Lock()
		st.active[ex] = classOf(ex.Case)
		st.mu.Unlock()
	})
	st.mu.Lock()
	delete(st.active, ex)
	st.mu.Unlock()
	return ex
}
