// Package rt is the runtime driver library linked with generated code: it
// builds and reads generated Go values by reflection, hosts the taps and writes
// the exchange log. It only records; oracles run offline (package oracle).
package rt

import (
	"encoding/base64"
	"encoding/json"
	"fmt"
	"math"
	"reflect"
	"sort"
	"strconv"
	"strings"

	"verif.local/lab/spec"
	"verif.local/lab/vtree"
)

// fieldIndex maps normalised field names to struct field indices.
func fieldIndex(t reflect.Type) map[string]int {
	m := map[string]int{}
	for i := 0; i < t.NumField(); i++ {
		f := t.Field(i)
		if !f.IsExported() {
			continue
		}
		m[spec.Norm(f.Name)] = i
	}
	return m
}

// UnionHook, when set, builds the value of a union attribute (an interface-typed struct field with
// methods) from a {"$union": alternative, "$value": v} node. The gRPC driver and the HTTP driver (union.go) set
// it (they know the Go types of the alternatives from their registries); when nil unions are refused.
var UnionHook func(dst reflect.Value, field, alt string, val any) error

// Build constructs a value of type t from a canonical tree.
func Build(t reflect.Type, tree any) (v reflect.Value, err error) {
	defer func() {
		if x := recover(); x != nil {
			err = fmt.Errorf("build %s: %v", t, x)
		}
	}()
	v = reflect.New(t).Elem()
	if tree == nil {
		return v, nil
	}
	if err := build(v, tree); err != nil {
		return v, err
	}
	return v, nil
}

func build(dst reflect.Value, tree any) error {
	if tree == nil {
		return nil
	}
	t := dst.Type()
	switch t.Kind() {
	case reflect.Ptr:
		nv := reflect.New(t.Elem())
		if err := build(nv.Elem(), tree); err != nil {
			return err
		}
		dst.Set(nv)
		return nil
	case reflect.Interface:
		// `any` attribute, or a union interface
		if name, uv, ok := vtree.IsUnion(tree); ok {
			return fmt.Errorf("union %s=%v not supported by the value builder", name, uv)
		}
		if vtree.Kind(tree) == "a" {
			var x any
			if err := json.Unmarshal([]byte(vtree.Text(tree)), &x); err != nil {
				return err
			}
			if x != nil {
				dst.Set(reflect.ValueOf(x))
			}
			return nil
		}
		// other leaves into any
		x := leafToAny(tree)
		if x != nil {
			dst.Set(reflect.ValueOf(x))
		}
		return nil
	case reflect.Struct:
		obj, ok := tree.(map[string]any)
		if !ok {
			return fmt.Errorf("want object for %s, got %T", t, tree)
		}
		idx := fieldIndex(t)
		for k, e := range obj {
			i, ok := idx[spec.Norm(k)]
			if !ok {
				return fmt.Errorf("no field for attribute %q in %s", k, t)
			}
			if f := dst.Field(i); UnionHook != nil && f.Kind() == reflect.Interface && f.Type().NumMethod() > 0 {
				if alt, uv, ok := vtree.IsUnion(e); ok {
					if err := UnionHook(f, t.Field(i).Name, alt, uv); err != nil {
						return fmt.Errorf("%s: %w", k, err)
					}
					continue
				}
			}
			if err := build(dst.Field(i), e); err != nil {
				return fmt.Errorf("%s: %w", k, err)
			}
		}
		return nil
	case reflect.Slice:
		if t.Elem().Kind() == reflect.Uint8 {
			if vtree.Kind(tree) != "y" {
				return fmt.Errorf("want bytes leaf for %s, got %v", t, tree)
			}
			b, err := base64.StdEncoding.DecodeString(vtree.Text(tree))
			if err != nil {
				return err
			}
			dst.Set(reflect.ValueOf(b).Convert(t))
			return nil
		}
		arr, ok := tree.([]any)
		if !ok {
			return fmt.Errorf("want array for %s, got %T", t, tree)
		}
		s := reflect.MakeSlice(t, len(arr), len(arr))
		for i := range arr {
			if err := build(s.Index(i), arr[i]); err != nil {
				return err
			}
		}
		dst.Set(s)
		return nil
	case reflect.Map:
		m, ok := vtree.IsMap(tree)
		if !ok {
			return fmt.Errorf("want map for %s, got %v", t, tree)
		}
		mv := reflect.MakeMapWithSize(t, len(m))
		for k, e := range m {
			kv := reflect.New(t.Key()).Elem()
			if err := build(kv, k); err != nil {
				return err
			}
			ev := reflect.New(t.Elem()).Elem()
			if err := build(ev, e); err != nil {
				return err
			}
			mv.SetMapIndex(kv, ev)
		}
		dst.Set(mv)
		return nil
	}
	// primitives
	kind, text := vtree.Kind(tree), vtree.Text(tree)
	switch t.Kind() {
	case reflect.Bool:
		if kind != "b" {
			return fmt.Errorf("want bool leaf, got %v", tree)
		}
		dst.SetBool(text == "true")
	case reflect.Int, reflect.Int8, reflect.Int16, reflect.Int32, reflect.Int64:
		if kind != "i" && kind != "u" {
			return fmt.Errorf("want int leaf for %s, got %v", t, tree)
		}
		n, err := strconv.ParseInt(text, 10, 64)
		if err != nil {
			return err
		}
		if dst.OverflowInt(n) {
			return fmt.Errorf("%d overflows %s", n, t)
		}
		dst.SetInt(n)
	case reflect.Uint, reflect.Uint8, reflect.Uint16, reflect.Uint32, reflect.Uint64:
		if kind != "i" && kind != "u" {
			return fmt.Errorf("want uint leaf for %s, got %v", t, tree)
		}
		n, err := strconv.ParseUint(text, 10, 64)
		if err != nil {
			return err
		}
		if dst.OverflowUint(n) {
			return fmt.Errorf("%d overflows %s", n, t)
		}
		dst.SetUint(n)
	case reflect.Float32, reflect.Float64:
		if kind != "f" && kind != "f32" && kind != "i" && kind != "u" {
			return fmt.Errorf("want float leaf for %s, got %v", t, tree)
		}
		f, err := strconv.ParseFloat(text, 64)
		if err != nil {
			return err
		}
		dst.SetFloat(f)
	case reflect.String:
		if kind != "s" {
			return fmt.Errorf("want string leaf for %s, got %v", t, tree)
		}
		dst.SetString(text)
	default:
		return fmt.Errorf("unsupported kind %s", t.Kind())
	}
	return nil
}

func leafToAny(tree any) any {
	switch vtree.Kind(tree) {
	case "b":
		return vtree.Text(tree) == "true"
	case "i", "u", "f", "f32":
		f, _ := strconv.ParseFloat(vtree.Text(tree), 64)
		return f
	case "s":
		return vtree.Text(tree)
	}
	return nil
}

// Canon turns a generated Go value into a canonical tree. Object keys are
// normalised Go field names.
func Canon(x any) any {
	if x == nil {
		return nil
	}
	return canon(reflect.ValueOf(x), 0)
}

func canon(v reflect.Value, depth int) any {
	if depth > 60 {
		return "s:<too deep>"
	}
	if !v.IsValid() {
		return nil
	}
	switch v.Kind() {
	case reflect.Ptr:
		if v.IsNil() {
			return nil
		}
		return canon(v.Elem(), depth+1)
	case reflect.Interface:
		if v.IsNil() {
			return nil
		}
		e := v.Elem()
		// `any` attribute: JSON-native value
		if v.Type().NumMethod() == 0 {
			return vtree.A(jsonable(e.Interface()))
		}
		// union interface: wrapper type
		return map[string]any{"$union": e.Type().String(), "$value": canon(e, depth+1)}
	case reflect.Struct:
		o := map[string]any{}
		t := v.Type()
		for i := 0; i < t.NumField(); i++ {
			f := t.Field(i)
			if !f.IsExported() {
				continue
			}
			c := canon(v.Field(i), depth+1)
			if fv := v.Field(i); UnionAltHook != nil && fv.Kind() == reflect.Interface && fv.Type().NumMethod() > 0 && !fv.IsNil() {
				// a union attribute: name the alternative (design attribute name), not the Go type (union.go)
				if alt := UnionAltHook(f.Name, fv.Elem().Type()); alt != "" {
					c = map[string]any{"$union": alt, "$value": canon(fv.Elem(), depth+1)}
				}
			}
			if c != nil {
				o[spec.Norm(f.Name)] = c
			}
		}
		return o
	case reflect.Slice:
		if v.IsNil() {
			return nil
		}
		if v.Type().Elem().Kind() == reflect.Uint8 {
			return vtree.Y(v.Bytes())
		}
		if v.Len() == 0 {
			return nil
		}
		a := make([]any, v.Len())
		for i := range a {
			a[i] = canon(v.Index(i), depth+1)
		}
		return a
	case reflect.Map:
		if v.IsNil() || v.Len() == 0 {
			return nil
		}
		m := map[string]any{}
		for _, k := range v.MapKeys() {
			ks, _ := canon(k, depth+1).(string)
			m[ks] = canon(v.MapIndex(k), depth+1)
		}
		return vtree.MkMap(m)
	case reflect.Bool:
		return vtree.B(v.Bool())
	case reflect.Int, reflect.Int8, reflect.Int16, reflect.Int32, reflect.Int64:
		return vtree.I(v.Int())
	case reflect.Uint, reflect.Uint8, reflect.Uint16, reflect.Uint32, reflect.Uint64:
		return vtree.U(v.Uint())
	case reflect.Float32:
		return vtree.F32(float32(v.Float()))
	case reflect.Float64:
		return vtree.F(v.Float())
	case reflect.String:
		return vtree.S(v.String())
	}
	return "s:<" + v.Kind().String() + ">"
}

// jsonable normalises decoded JSON so that it marshals deterministically.
func jsonable(x any) any {
	switch y := x.(type) {
	case map[any]any:
		o := map[string]any{}
		for k, e := range y {
			o[fmt.Sprint(k)] = jsonable(e)
		}
		return o
	case map[string]any:
		o := map[string]any{}
		for k, e := range y {
			o[k] = jsonable(e)
		}
		return o
	case []any:
		o := make([]any, len(y))
		for i := range y {
			o[i] = jsonable(y[i])
		}
		return o
	case json.Number:
		// the JSON-native number of an untyped value is a float64: any other Go type is a retyped value
		return map[string]any{"$gotype": "json.Number", "v": string(y)}
	case int, int8, int16, int32, int64, uint, uint8, uint16, uint32, uint64, float32:
		return map[string]any{"$gotype": fmt.Sprintf("%T", x), "v": fmt.Sprint(x)}
	case float64:
		if math.IsNaN(y) || math.IsInf(y, 0) {
			return fmt.Sprint(y)
		}
	case []byte:
		return base64.StdEncoding.EncodeToString(y)
	}
	return x
}

// NormKeys normalises object keys (design attribute names) of a tree so that it
// can be compared with Canon output.
func NormKeys(tree any) any {
	switch x := tree.(type) {
	case []any:
		o := make([]any, len(x))
		for i := range x {
			o[i] = NormKeys(x[i])
		}
		return o
	case map[string]any:
		if m, ok := vtree.IsMap(tree); ok {
			o := map[string]any{}
			for k, e := range m {
				o[k] = NormKeys(e)
			}
			return vtree.MkMap(o)
		}
		if alts, ok := x["$alt"].([]any); ok {
			o := make([]any, len(alts))
			for i := range alts {
				o[i] = NormKeys(alts[i])
			}
			return map[string]any{"$alt": o}
		}
		o := map[string]any{}
		for k, e := range x {
			if strings.HasPrefix(k, "$") {
				o[k] = NormKeys(e)
			} else {
				o[spec.Norm(k)] = NormKeys(e)
			}
		}
		return o
	}
	return tree
}

// sortedKeys returns the keys of a map sorted.
func sortedKeys[V any](m map[string]V) []string {
	ks := make([]string, 0, len(m))
	for k := range m {
		ks = append(ks, k)
	}
	sort.Strings(ks)
	return ks
}
