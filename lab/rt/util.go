package rt

import (
	"bytes"
	"io"
	"reflect"
	"verif.local/lab/vtree"
)

func bytesReader(b []byte) io.Reader { return bytes.NewReader(b) }

func mapT() map[string]reflect.Type { return map[string]reflect.Type{} }

// RunConcurrent is implemented in conc.go.

func vtreeA(x any) string { return vtree.A(x) }
