package rt

import (
	"bufio"
	"bytes"
	"context"
	"encoding/json"
	"errors"
	"fmt"
	"io"
	"net/http"
	"net/http/httptest"
	"os"
	"reflect"
	"runtime/debug"
	"sort"
	"strings"
	"sync"
	"sync/atomic"

	goahttp "goa.design/goa/v3/http"
	goa "goa.design/goa/v3/pkg"
	"goa.design/goa/v3/security"

	"verif.local/lab/spec"
)

// ---------------------------------------------------------------- registry (filled by generated zz/main.go)

// Svc describes the generated packages of one service (all values are passed
// untyped and used through reflection).
type Svc struct {
	Name         string
	NewEndpoints any // func(Service) *Endpoints
	ServerNew    any // httpserver.New
	ServerMount  any // httpserver.Mount
	ClientNew    any // httpclient.NewClient
	Stub         func(h *Hooks) any
	MethodNames  []string // design names in interface order
	GoNames      []string // Go method names in interface order
	ErrorTypes   map[string]any
	NewViewed    map[string]any // result type name -> NewViewedX func (unused for now)
	// UnionTypes are the Go types of gen/<svc> that implement a union marker method (alternatives of OneOf
	// attributes): the value builder picks the alternative's type among them (union.go)
	UnionTypes []reflect.Type
}

// Design is the registry of one generated design.
type Design struct {
	Services []*Svc
}

// ---------------------------------------------------------------- exchange log

type WireReq struct {
	Method  string              `json:"method"`
	URL     string              `json:"url"`
	Path    string              `json:"path"`
	RawPath string              `json:"raw_path,omitempty"`
	Query   string              `json:"query,omitempty"`
	Header  map[string][]string `json:"header"`
	Body    []byte              `json:"body,omitempty"`
}

type WireResp struct {
	Status       int                 `json:"status"`
	Header       map[string][]string `json:"header"`
	Body         []byte              `json:"body,omitempty"`
	WriteHeaders int                 `json:"write_header_calls"`
	Writes       int                 `json:"writes"`
}

type AuthEvent struct {
	Kind     string   `json:"kind"` // basic apikey jwt oauth2
	Scheme   string   `json:"scheme"`
	Creds    []string `json:"creds"`
	Scopes   []string `json:"scopes,omitempty"`
	Required []string `json:"required_scopes,omitempty"`
	Verdict  string   `json:"verdict"` // accept | reject:<kind>
}

type StubIn struct {
	GoMethod   string `json:"go_method"`
	Payload    any    `json:"payload"`
	HasPayload bool   `json:"has_payload"`
}

type ErrInfo struct {
	GoType    string `json:"go_type"`
	Name      string `json:"name,omitempty"` // GoaErrorName if implemented
	Message   string `json:"message"`
	Tree      any    `json:"tree,omitempty"`
	IsService bool   `json:"is_service_error,omitempty"`
	ID        string `json:"id,omitempty"`
	Timeout   bool   `json:"timeout,omitempty"`
	Temporary bool   `json:"temporary,omitempty"`
	Fault     bool   `json:"fault,omitempty"`
}

type ClientOut struct {
	Result any      `json:"result,omitempty"`
	HasRes bool     `json:"has_result"`
	Err    *ErrInfo `json:"err,omitempty"`
}

// Outcome scripts what the stub does.
type Outcome struct {
	Kind string `json:"kind"` // result | declared | service | plain | wrapped-declared | wrapped-service | joined
	// result
	Result any    `json:"result,omitempty"`
	View   string `json:"view,omitempty"`
	// errors
	ErrName   string `json:"err_name,omitempty"`
	ErrTree   any    `json:"err_tree,omitempty"` // custom error value
	Custom    bool   `json:"custom,omitempty"`   // the error uses a custom (non ErrorResult) type
	ErrMsg    string `json:"err_msg,omitempty"`
	ErrID     string `json:"err_id,omitempty"`
	Timeout   bool   `json:"timeout,omitempty"`
	Temporary bool   `json:"temporary,omitempty"`
	Fault     bool   `json:"fault,omitempty"`
	// StreamResults are the messages the stub sends on a streaming endpoint (server and bidi streams), in
	// order; Result is the final result of a client stream; View is set on the stream before the first Send.
	StreamResults []any `json:"stream_results,omitempty"`
}

// RawReq is a hand-encoded request (raw mode).
type RawReq struct {
	Method string              `json:"method"`
	URL    string              `json:"url"`
	Header map[string][]string `json:"header,omitempty"`
	Body   []byte              `json:"body,omitempty"`
}

// Case is one scripted exchange.
type Case struct {
	ID      int      `json:"id"`
	Class   string   `json:"class"` // label of the value class
	Svc     string   `json:"svc"`
	Method  string   `json:"method"`
	Sent    any      `json:"sent,omitempty"` // payload tree (design attribute names)
	NoPay   bool     `json:"no_payload,omitempty"`
	Raw     *RawReq  `json:"raw,omitempty"`
	Outcome *Outcome `json:"outcome,omitempty"`
	// Auth vector: scheme name -> "accept" | "reject:declared:<name>" | "reject:service" | "reject:plain"
	Auth map[string]string `json:"auth,omitempty"`
	// RespRewrite rewrites response headers at the tap (C08 view relabelling)
	RespHeader map[string]string `json:"resp_header,omitempty"`
	Accept     string            `json:"accept,omitempty"`
	Note       map[string]any    `json:"note,omitempty"`
	// Stream scripts a streaming (websocket) exchange (stream.go); nil for plain request/response cases.
	Stream *StreamScript `json:"stream,omitempty"`
}

// Exchange is the record of one case.
type Exchange struct {
	Design    string      `json:"design"`
	Case      *Case       `json:"case"`
	ClientIn  any         `json:"client_in,omitempty"`
	BuildErr  string      `json:"build_err,omitempty"`
	WireReq   *WireReq    `json:"wire_req,omitempty"`
	Auth      []AuthEvent `json:"auth,omitempty"`
	StubIn    *StubIn     `json:"stub_in,omitempty"`
	StubCalls int         `json:"stub_calls"`
	StubErr   string      `json:"stub_err,omitempty"` // stub could not build the scripted outcome
	WireResp  *WireResp   `json:"wire_resp,omitempty"`
	ClientOut *ClientOut  `json:"client_out,omitempty"`
	Panic     string      `json:"panic,omitempty"`
	Seq       []string    `json:"seq,omitempty"` // order of taps
	// LateChange lists values that changed AFTER they were handed over (the result the client endpoint
	// returned, the payload the service method received): the retained Go values are canonicalised again
	// after later exchanges ran and compared with what was recorded at hand-over time.
	LateChange []string `json:"late_change,omitempty"`

	// Stream is the record of a streaming exchange (stream.go).
	Stream *StreamRec `json:"stream_rec,omitempty"`

	mu   sync.Mutex
	kept []keptVal
	ws   *wsState // live state of a streaming exchange (never logged)
}

// keptVal is a Go value retained after it was handed over, with its canonical form at that time.
type keptVal struct {
	tap  string
	val  any
	t    reflect.Type
	snap []byte
}

func (e *Exchange) retain(tap string, val any, t reflect.Type, tree any) {
	if val == nil {
		return
	}
	b, err := json.Marshal(tree)
	if err != nil {
		return
	}
	e.mu.Lock()
	e.kept = append(e.kept, keptVal{tap: tap, val: val, t: t, snap: b})
	e.mu.Unlock()
}

// recheck canonicalises the retained values again and records those that moved.
func (e *Exchange) recheck() {
	e.mu.Lock()
	kept := e.kept
	e.kept = nil
	e.mu.Unlock()
	for _, k := range kept {
		var now []byte
		func() {
			defer func() {
				if x := recover(); x != nil {
					now = []byte(fmt.Sprintf("\"panic while reading the retained value: %v\"", x))
				}
			}()
			now, _ = json.Marshal(canonTyped(k.val, k.t))
		}()
		if !bytes.Equal(now, k.snap) {
			e.mu.Lock()
			e.LateChange = append(e.LateChange, fmt.Sprintf("%s: handed over as %s, later reads %s", k.tap, clip(string(k.snap), 300), clip(string(now), 300)))
			e.mu.Unlock()
		}
	}
}

func clip(s string, n int) string {
	if len(s) > n {
		return s[:n] + "..."
	}
	return s
}

func (e *Exchange) tap(name string) {
	e.mu.Lock()
	e.Seq = append(e.Seq, name)
	e.mu.Unlock()
}

// ---------------------------------------------------------------- hooks (called by generated stubs)

type ctxKey int

const exKey ctxKey = 1

// Hooks is handed to the generated stubs.
type Hooks struct {
	d   *Driver
	svc *svcState
}

// Out carries pointers to the named results of a stub method.
type Out struct {
	Res  any // pointer to the result variable (nil when the method has none)
	View *string
	Err  *error
}

func (h *Hooks) exchange(ctx context.Context) *Exchange {
	if ex, ok := ctx.Value(exKey).(*Exchange); ok && ex != nil {
		return ex
	}
	return h.d.current.Load()
}

// Invoke is called by every generated stub method.
func (h *Hooks) Invoke(ctx context.Context, goMethod string, args []any, out Out) {
	ex := h.exchange(ctx)
	if ex == nil {
		*out.Err = errors.New("lab: no current exchange")
		return
	}
	ex.mu.Lock()
	ex.StubCalls++
	si := &StubIn{GoMethod: goMethod}
	dn := h.svc.byGo[goMethod]
	var stream any
	if h.svc.streamT[dn] != nil && len(args) > 0 {
		// the last argument of a streaming method is the server stream, not a payload
		stream, args = args[len(args)-1], args[:len(args)-1]
	}
	if len(args) > 0 {
		si.HasPayload = true
		si.Payload = canonTyped(args[0], h.svc.payloadT[dn])
		defer ex.retain("stub_in", args[0], h.svc.payloadT[dn], si.Payload)
	}
	ex.StubIn = si
	ex.Seq = append(ex.Seq, "stub_in")
	oc := ex.Case.Outcome
	ex.mu.Unlock()
	if h.d.StubHook != nil {
		h.d.StubHook(ex, args)
	}
	if oc == nil {
		oc = &Outcome{Kind: "result"}
	}
	if h.d.Echo != nil {
		oc = h.d.Echo(ex, si)
	}
	if stream != nil {
		h.serveStream(ex, reflect.ValueOf(stream), oc, out)
		return
	}
	if err := h.apply(oc, out); err != nil {
		ex.mu.Lock()
		ex.StubErr = err.Error()
		ex.mu.Unlock()
		*out.Err = goa.PermanentError("lab_stub_failure", "%s", err.Error())
	}
}

func (h *Hooks) apply(oc *Outcome, out Out) error {
	switch oc.Kind {
	case "result":
		if out.Res != nil && oc.Result != nil {
			rv := reflect.ValueOf(out.Res).Elem()
			v, err := Build(rv.Type(), NormKeys(oc.Result))
			if err != nil {
				return fmt.Errorf("cannot build scripted result: %w", err)
			}
			rv.Set(v)
		}
		if out.View != nil {
			*out.View = oc.View
		}
		return nil
	case "service", "wrapped-service":
		se := &goa.ServiceError{Name: oc.ErrName, ID: oc.ErrID, Message: oc.ErrMsg, Timeout: oc.Timeout, Temporary: oc.Temporary, Fault: oc.Fault}
		var err error = se
		if oc.Kind == "wrapped-service" {
			err = fmt.Errorf("wrapped: %w", se)
		}
		*out.Err = err
		return nil
	case "plain":
		*out.Err = errors.New(oc.ErrMsg)
		return nil
	case "declared", "wrapped-declared", "joined-declared":
		var err error
		if !oc.Custom {
			// default ErrorResult type
			err = &goa.ServiceError{Name: oc.ErrName, ID: oc.ErrID, Message: oc.ErrMsg, Timeout: oc.Timeout, Temporary: oc.Temporary, Fault: oc.Fault}
		} else {
			proto, ok := h.svc.svc.ErrorTypes[oc.ErrName]
			if !ok {
				return fmt.Errorf("no Go type registered for custom error %q", oc.ErrName)
			}
			t := reflect.TypeOf(proto)
			tree := NormKeys(oc.ErrTree)
			if tree == nil && t.Kind() == reflect.Ptr {
				tree = map[string]any{}
			}
			v, e := Build(t, tree)
			if e != nil {
				return fmt.Errorf("cannot build scripted error: %w", e)
			}
			if v.Kind() == reflect.Ptr && v.IsNil() {
				v = reflect.New(t.Elem())
			}
			er, ok := v.Interface().(error)
			if !ok {
				return fmt.Errorf("custom error type %s does not implement error", t)
			}
			err = er
		}
		switch oc.Kind {
		case "wrapped-declared":
			err = fmt.Errorf("ctx: %w", err)
		case "joined-declared":
			err = errors.Join(err)
		}
		*out.Err = err
		return nil
	}
	return fmt.Errorf("unknown outcome kind %q", oc.Kind)
}

// Auth is called by the generated Auther stub methods.
func (h *Hooks) Auth(ctx context.Context, kind string, creds []string, scheme any) (context.Context, error) {
	ex := h.exchange(ctx)
	ev := AuthEvent{Kind: kind, Creds: creds}
	switch s := scheme.(type) {
	case *security.BasicScheme:
		ev.Scheme, ev.Scopes, ev.Required = s.Name, s.Scopes, s.RequiredScopes
	case *security.APIKeyScheme:
		ev.Scheme, ev.Scopes, ev.Required = s.Name, s.Scopes, s.RequiredScopes
	case *security.JWTScheme:
		ev.Scheme, ev.Scopes, ev.Required = s.Name, s.Scopes, s.RequiredScopes
	case *security.OAuth2Scheme:
		ev.Scheme, ev.Scopes, ev.Required = s.Name, s.Scopes, s.RequiredScopes
	}
	verdict := "accept"
	if ex != nil && ex.Case.Auth != nil {
		if v, ok := ex.Case.Auth[ev.Scheme]; ok {
			verdict = v
		}
		// a verdict scripted for this scheme under these required scopes only
		if v, ok := ex.Case.Auth[AuthKey(ev.Scheme, ev.Required)]; ok {
			verdict = v
		}
	}
	ev.Verdict = verdict
	if ex != nil {
		ex.mu.Lock()
		ex.Auth = append(ex.Auth, ev)
		ex.Seq = append(ex.Seq, "auth:"+ev.Scheme)
		ex.mu.Unlock()
	}
	if verdict == "accept" {
		return ctx, nil
	}
	parts := strings.SplitN(verdict, ":", 3)
	switch {
	case len(parts) >= 2 && parts[1] == "service":
		return ctx, &goa.ServiceError{Name: "auth_rejected", ID: "authid", Message: "rejected by " + ev.Scheme, Temporary: true}
	case len(parts) >= 3 && parts[1] == "declared":
		return ctx, &goa.ServiceError{Name: parts[2], ID: "authid", Message: "rejected by " + ev.Scheme}
	}
	return ctx, errors.New("rejected by " + ev.Scheme)
}

// AuthKey names a scripted verdict that applies to one scheme only when its callback
// is invoked with exactly these required scopes.
func AuthKey(scheme string, required []string) string {
	r := append([]string(nil), required...)
	sort.Strings(r)
	return scheme + "|" + strings.Join(r, ",")
}

// Assign sets *dst from an untyped value (used by generated stubs).
func Assign[T any](dst *T, v any) {
	if v == nil {
		return
	}
	if t, ok := v.(T); ok {
		*dst = t
	}
}

// ---------------------------------------------------------------- driver

type svcState struct {
	svc      *Svc
	spec     *spec.Service
	stub     any
	mux      goahttp.ResolverMuxer
	client   reflect.Value // *httpclient.Client
	handler  http.Handler
	streamT  map[string]reflect.Type // design method name -> server stream interface (streaming methods only)
	ts       *httptest.Server        // real loopback server of the mounted muxer (started by the first streaming case)
	tsOnce   sync.Once
	payloadT map[string]reflect.Type // design method name -> payload type (nil if none)
	resT     map[string]reflect.Type // design method name -> result type (nil if none)
	byGo     map[string]string       // Go method name -> design name
	hasRes   map[string]bool
	goName   map[string]string
	mounted  [][2]string
}

// Driver drives the generated code of one design.
type Driver struct {
	Spec     *spec.Spec
	DesignID string
	svcs     map[string]*svcState
	current  atomic.Pointer[Exchange]
	out      *bufio.Writer
	outMu    sync.Mutex
	pending  []*Exchange // finished exchanges waiting for their late re-read
	// Echo, when set, computes the outcome from the received payload (C20 echo discipline).
	Echo func(ex *Exchange, si *StubIn) *Outcome
	// StubHook runs inside the stub between decode and encode (delay injection).
	StubHook func(ex *Exchange, args []any)
	// NilFormatter passes a nil formatter to the generated server (what `goa example` does).
	NilFormatter bool
	// Wrap wraps the mounted handler (e.g. counting ResponseWriter is always applied inside).
	SetupErr map[string]string
}

// recordingMuxer records the patterns the generated Mount registers.
type recordingMuxer struct {
	goahttp.ResolverMuxer
	st *svcState
}

func (m *recordingMuxer) Handle(method, pattern string, handler http.HandlerFunc) {
	m.st.mounted = append(m.st.mounted, [2]string{method, pattern})
	m.ResolverMuxer.Handle(method, pattern, handler)
}

func (dr *Driver) setup(st *svcState) (err error) {
	defer func() {
		if x := recover(); x != nil {
			err = fmt.Errorf("setup panic: %v\n%s", x, debug.Stack())
		}
	}()
	sv := st.svc
	h := &Hooks{d: dr, svc: st}
	st.stub = sv.Stub(h)
	stubT := reflect.TypeOf(st.stub)
	for i, gn := range sv.GoNames {
		dn := sv.MethodNames[i]
		st.goName[dn] = gn
		m, ok := stubT.MethodByName(gn)
		if !ok {
			return fmt.Errorf("stub lacks method %s", gn)
		}
		// receiver, ctx, [payload], [stream]
		if m.Type.NumIn() >= 3 {
			pt := m.Type.In(2)
			// a streaming interface is not a payload
			if !(pt.Kind() == reflect.Interface && pt.NumMethod() > 0) {
				st.payloadT[dn] = pt
			}
		}
		if st.streamT == nil {
			st.streamT = map[string]reflect.Type{}
		}
		if n := m.Type.NumIn(); n >= 3 && isStreamType(m.Type.In(n-1)) {
			st.streamT[dn] = m.Type.In(n - 1)
		}
		st.hasRes[dn] = m.Type.NumOut() >= 2
		if st.resT == nil {
			st.resT = map[string]reflect.Type{}
			st.byGo = map[string]string{}
		}
		st.byGo[gn] = dn
		if m.Type.NumOut() >= 2 {
			st.resT[dn] = m.Type.Out(0)
		}
	}
	if sv.ServerNew == nil {
		return nil
	}
	// endpoints
	eps := reflect.ValueOf(sv.NewEndpoints).Call([]reflect.Value{reflect.ValueOf(st.stub)})[0]
	st.mux = goahttp.NewMuxer()
	rec := &recordingMuxer{ResolverMuxer: st.mux, st: st}
	// server.New(e, mux, decoder, encoder, errhandler, formatter, ...)
	newT := reflect.TypeOf(sv.ServerNew)
	args := make([]reflect.Value, newT.NumIn())
	errh := func(ctx context.Context, w http.ResponseWriter, err error) {}
	var formatter func(ctx context.Context, err error) goahttp.Statuser
	if !dr.NilFormatter {
		formatter = goahttp.NewErrorResponse
	}
	for i := 0; i < newT.NumIn(); i++ {
		pt := newT.In(i)
		switch {
		case i == 0:
			args[i] = eps
		case pt == reflect.TypeOf((*goahttp.Muxer)(nil)).Elem():
			args[i] = reflect.ValueOf(rec).Convert(pt)
		case pt == reflect.TypeOf(goahttp.RequestDecoder):
			args[i] = reflect.ValueOf(goahttp.RequestDecoder)
		case pt == reflect.TypeOf(goahttp.ResponseEncoder):
			args[i] = reflect.ValueOf(goahttp.ResponseEncoder)
		case pt == reflect.TypeOf(errh):
			args[i] = reflect.ValueOf(errh)
		case pt == reflect.TypeOf(formatter):
			args[i] = reflect.ValueOf(formatter)
		case pt == reflect.TypeOf((*goahttp.Upgrader)(nil)).Elem():
			args[i] = reflect.ValueOf(newUpgrader()).Convert(pt) // a real gorilla upgrader (stream.go)
		case isMultipartDecoderT(pt):
			args[i] = multipartDecoder(pt) // the lab's user decoder of a MultipartRequest() endpoint (multipart.go)
		default:
			args[i] = reflect.Zero(pt) // configurer ...
		}
	}
	server := reflect.ValueOf(sv.ServerNew).Call(args)[0]
	mountT := reflect.TypeOf(sv.ServerMount)
	margs := []reflect.Value{reflect.ValueOf(rec).Convert(mountT.In(0)), server}
	reflect.ValueOf(sv.ServerMount).Call(margs)
	st.handler = st.mux
	// client
	cnT := reflect.TypeOf(sv.ClientNew)
	cargs := make([]reflect.Value, cnT.NumIn())
	doer := &tapDoer{d: dr, st: st}
	for i := 0; i < cnT.NumIn(); i++ {
		pt := cnT.In(i)
		switch {
		case i == 0:
			cargs[i] = reflect.ValueOf("http")
		case i == 1:
			cargs[i] = reflect.ValueOf("lab.local")
		case pt == reflect.TypeOf((*goahttp.Doer)(nil)).Elem():
			cargs[i] = reflect.ValueOf(doer).Convert(pt)
		case pt == reflect.TypeOf((*goahttp.Dialer)(nil)).Elem():
			cargs[i] = reflect.ValueOf(&tapDialer{d: dr, st: st}).Convert(pt) // tap in front of a real websocket dial (stream.go)
		case pt == reflect.TypeOf(goahttp.RequestEncoder):
			cargs[i] = reflect.ValueOf(goahttp.RequestEncoder)
		case pt == reflect.TypeOf(goahttp.ResponseDecoder):
			cargs[i] = reflect.ValueOf(goahttp.ResponseDecoder)
		case pt.Kind() == reflect.Bool:
			cargs[i] = reflect.ValueOf(false)
		default:
			cargs[i] = reflect.Zero(pt)
		}
	}
	st.client = reflect.ValueOf(sv.ClientNew).Call(cargs)[0]
	return nil
}

// Mounted returns the (verb, pattern) pairs registered by the generated Mount of a service.
func (dr *Driver) Mounted(svc string) [][2]string {
	if st := dr.svcs[svc]; st != nil {
		return st.mounted
	}
	return nil
}

// PayloadType returns the Go payload type of a method (nil if none).
func (dr *Driver) PayloadType(svc, method string) reflect.Type {
	if st := dr.svcs[svc]; st != nil {
		return st.payloadT[method]
	}
	return nil
}

// countingWriter counts WriteHeader calls.
type countingWriter struct {
	http.ResponseWriter
	headers, writes int
}

func (c *countingWriter) WriteHeader(code int) {
	c.headers++
	c.ResponseWriter.WriteHeader(code)
}
func (c *countingWriter) Write(b []byte) (int, error) {
	c.writes++
	return c.ResponseWriter.Write(b)
}

// tapDoer is the client-side transport: records the wire request, replays it
// through a serialise/parse cycle (as a socket would) into the mounted muxer,
// records the wire response.
type tapDoer struct {
	d  *Driver
	st *svcState
}

func (t *tapDoer) Do(req *http.Request) (*http.Response, error) {
	ex, _ := req.Context().Value(exKey).(*Exchange)
	if ex == nil {
		ex = t.d.current.Load()
	}
	return t.d.roundTrip(t.st, ex, req)
}

func (dr *Driver) roundTrip(st *svcState, ex *Exchange, req *http.Request) (*http.Response, error) {
	var body []byte
	if req.Body != nil {
		body, _ = io.ReadAll(req.Body)
		req.Body.Close()
	}
	wr := &WireReq{Method: req.Method, URL: req.URL.String(), Path: req.URL.Path, RawPath: req.URL.RawPath, Query: req.URL.RawQuery,
		Header: map[string][]string{}, Body: body}
	for k, v := range req.Header {
		wr.Header[k] = append([]string(nil), v...)
	}
	if ex != nil {
		if ex.Case.Accept != "" {
			req.Header.Set("Accept", ex.Case.Accept)
			wr.Header["Accept"] = []string{ex.Case.Accept}
		}
		ex.mu.Lock()
		ex.WireReq = wr
		ex.Seq = append(ex.Seq, "wire_req")
		ex.mu.Unlock()
	}
	// serialise and re-parse, as the wire does
	var buf bytes.Buffer
	out := req.Clone(req.Context())
	out.Body = io.NopCloser(bytes.NewReader(body))
	out.ContentLength = int64(len(body))
	if out.URL.Host == "" {
		out.URL.Host = "lab.local"
	}
	if err := out.Write(&buf); err != nil {
		return nil, fmt.Errorf("lab: cannot serialise request: %w", err)
	}
	sreq, err := http.ReadRequest(bufio.NewReader(&buf))
	if err != nil {
		return nil, fmt.Errorf("lab: request does not parse on the server side: %w", err)
	}
	if ex != nil {
		sreq = sreq.WithContext(context.WithValue(context.Background(), exKey, ex))
	}
	rec := httptest.NewRecorder()
	cw := &countingWriter{ResponseWriter: rec}
	func() {
		defer func() {
			if x := recover(); x != nil {
				if ex != nil {
					ex.mu.Lock()
					ex.Panic = fmt.Sprintf("server panic: %v\n%s", x, debug.Stack())
					ex.mu.Unlock()
				}
				rec.Code = 599
			}
		}()
		st.handler.ServeHTTP(cw, sreq)
	}()
	res := rec.Result()
	rbody, _ := io.ReadAll(res.Body)
	wresp := &WireResp{Status: res.StatusCode, Header: map[string][]string{}, Body: rbody, WriteHeaders: cw.headers, Writes: cw.writes}
	for k, v := range res.Header {
		wresp.Header[k] = append([]string(nil), v...)
	}
	if ex != nil {
		ex.mu.Lock()
		ex.WireResp = wresp
		ex.Seq = append(ex.Seq, "wire_resp")
		ex.mu.Unlock()
		for k, v := range ex.Case.RespHeader {
			if v == "" {
				res.Header.Del(k)
			} else {
				res.Header.Set(k, v)
			}
		}
	}
	res.Body = io.NopCloser(bytes.NewReader(rbody))
	res.Request = req
	return res, nil
}

// Run executes one case and returns its record.
func (dr *Driver) Run(c *Case) *Exchange { return dr.runWith(c, true, nil) }

// runWith executes one case. useGlobal publishes the exchange as the process-wide current exchange
// (sequential driving only); the exchange always travels in the client and server contexts.
func (dr *Driver) runWith(c *Case, useGlobal bool, onStart func(*Exchange)) *Exchange {
	ex := &Exchange{Design: dr.DesignID, Case: c}
	st := dr.svcs[c.Svc]
	if st == nil || st.client.Kind() == reflect.Invalid {
		ex.BuildErr = "service not mounted: " + dr.SetupErr[c.Svc]
		return ex
	}
	if useGlobal {
		dr.current.Store(ex)
		defer dr.current.Store(nil)
	}
	if onStart != nil {
		onStart(ex)
	}
	ctx := context.WithValue(context.Background(), exKey, ex)
	func() {
		defer func() {
			if x := recover(); x != nil {
				ex.mu.Lock()
				ex.Panic += fmt.Sprintf("client panic: %v\n%s", x, debug.Stack())
				ex.mu.Unlock()
			}
		}()
		if c.Stream != nil {
			dr.runStream(st, ex, ctx)
			return
		}
		if c.Raw != nil {
			dr.runRaw(st, ex, ctx)
			return
		}
		gn := st.goName[c.Method]
		m := st.client.MethodByName(gn)
		if !m.IsValid() {
			ex.BuildErr = "client lacks method " + gn
			return
		}
		ep, ok := dr.clientEndpoint(st, c.Method, m) // multipart.go (endpoints taking a user encoder are built once)
		if !ok {
			ex.BuildErr = "client method does not return a goa.Endpoint"
			return
		}
		var payload any
		if pt := st.payloadT[c.Method]; pt != nil && !c.NoPay {
			v, err := Build(pt, NormKeys(c.Sent))
			if err != nil {
				ex.BuildErr = err.Error()
				return
			}
			if v.Kind() == reflect.Ptr && v.IsNil() {
				v = reflect.New(pt.Elem())
			}
			payload = v.Interface()
			ex.ClientIn = canonTyped(payload, pt)
		}
		ex.tap("client_in")
		res, err := ep(ctx, payload)
		co := &ClientOut{}
		if err != nil {
			co.Err = errInfo(err)
		} else if res != nil {
			co.HasRes = true
			co.Result = canonTyped(res, st.resT[c.Method])
			ex.retain("client_out", res, st.resT[c.Method], co.Result)
		}
		ex.mu.Lock()
		ex.ClientOut = co
		ex.Seq = append(ex.Seq, "client_out")
		ex.mu.Unlock()
	}()
	return ex
}

func (dr *Driver) runRaw(st *svcState, ex *Exchange, ctx context.Context) {
	r := ex.Case.Raw
	req, err := http.NewRequestWithContext(ctx, r.Method, r.URL, bytes.NewReader(r.Body))
	if err != nil {
		ex.BuildErr = "raw request: " + err.Error()
		return
	}
	for k, vs := range r.Header {
		for _, v := range vs {
			req.Header.Add(k, v)
		}
	}
	if _, err := dr.roundTrip(st, ex, req); err != nil {
		ex.BuildErr = err.Error()
	}
}

func errInfo(err error) *ErrInfo {
	ei := &ErrInfo{GoType: fmt.Sprintf("%T", err), Message: err.Error()}
	if n, ok := err.(goa.GoaErrorNamer); ok {
		ei.Name = n.GoaErrorName()
	}
	var se *goa.ServiceError
	if errors.As(err, &se) {
		ei.IsService = true
		ei.ID, ei.Timeout, ei.Temporary, ei.Fault = se.ID, se.Timeout, se.Temporary, se.Fault
		if ei.Name == "" {
			ei.Name = se.Name
		}
		ei.Message = se.Message
	} else {
		ei.Tree = Canon(err)
	}
	return ei
}

// lateWindow is the number of exchanges that run before a finished exchange's retained values are read again.
const lateWindow = 12

// Log queues an exchange record; it is written once lateWindow later exchanges have been queued (or at
// CloseLog), after its retained values were canonicalised again (Exchange.LateChange).
func (dr *Driver) Log(ex *Exchange) {
	dr.outMu.Lock()
	dr.pending = append(dr.pending, ex)
	var due *Exchange
	if len(dr.pending) > lateWindow {
		due = dr.pending[0]
		dr.pending = dr.pending[1:]
	}
	dr.outMu.Unlock()
	if due != nil {
		due.recheck()
		dr.write(due)
	}
}

func (dr *Driver) write(ex *Exchange) {
	dr.outMu.Lock()
	defer dr.outMu.Unlock()
	if dr.out == nil {
		return
	}
	ex.mu.Lock()
	b, err := json.Marshal(ex)
	ex.mu.Unlock()
	if err != nil {
		b, _ = json.Marshal(map[string]any{"design": ex.Design, "marshal_error": err.Error()})
	}
	dr.out.Write(b)
	dr.out.WriteByte('\n')
}

// OpenLog opens the JSONL output.
func (dr *Driver) OpenLog(path string) error {
	f, err := os.Create(path)
	if err != nil {
		return err
	}
	dr.out = bufio.NewWriterSize(f, 1<<20)
	return nil
}

func (dr *Driver) CloseLog() {
	dr.outMu.Lock()
	rest := dr.pending
	dr.pending = nil
	dr.outMu.Unlock()
	for _, ex := range rest {
		ex.recheck()
		dr.write(ex)
	}
	if dr.out != nil {
		dr.out.Flush()
	}
}

// canonTyped canonicalises x whose static type is t (an `any`-typed value keeps its JSON form).
func canonTyped(x any, t reflect.Type) any {
	if t != nil && t.Kind() == reflect.Interface && t.NumMethod() == 0 {
		if x == nil {
			return nil
		}
		return vtreeA(jsonable(x))
	}
	return Canon(x)
}
