package rt

// Streaming (websocket) endpoints at run time.
//
// The generated server gets a real gorilla Upgrader and the generated client a tap Dialer. For a
// streaming case the mounted muxer is served on a real loopback socket (httptest.Server): the tap dialer
// records the handshake request the generated client produced (the wire_req tap: URL with path and query,
// headers), dials the loopback server instead of the design's host and adds a correlation header; a
// wrapper in front of the muxer strips that header and puts the *Exchange into the request context, so
// that the stub finds its exchange exactly as it does for in-process requests.
//
// Both ends follow a deterministic script (Case.Stream, Outcome.StreamResults) that cannot deadlock:
//
//	server stream   stub: Send all, Close                      client: Recv until io.EOF
//	client stream   client: Send all, CloseAndRecv (or Close)  stub: Recv until io.EOF, SendAndClose (or Close)
//	bidi phased     client: Send N, Recv until io.EOF, Close   stub: Recv N, Send M, Close
//	bidi ping-pong  client: (Send 1, Recv 1) x N, Recv -> EOF, Close   stub: (Recv 1, Send 1) x N, Close
//
// Every step is recorded in Exchange.Stream in order. The whole exchange runs under a generous watchdog;
// when it fires the connection is torn down, the exchange is marked and the oracles call it inconclusive.

import (
	"bufio"
	"bytes"
	"context"
	"errors"
	"fmt"
	"io"
	"net"
	"net/http"
	"net/http/httptest"
	"net/url"
	"os"
	"reflect"
	"runtime"
	"runtime/debug"
	"strconv"
	"strings"
	"sync"
	"sync/atomic"
	"time"

	"github.com/gorilla/websocket"
	goa "goa.design/goa/v3/pkg"
)

// StreamScript scripts the client end of a streaming exchange (the stub's end is in Outcome).
type StreamScript struct {
	Kind  string `json:"kind"`            // server | client | bidi
	Proto string `json:"proto,omitempty"` // bidi: phased | pingpong
	// Send lists the messages the client streams (trees with design attribute names).
	Send []any `json:"send,omitempty"`
	// RawClient selects the lab's own websocket client: it dials Case.Raw (URL and headers built from the
	// spec), writes RawFrames (JSON texts built from the spec's attribute names) and reads the server's
	// frames as generic JSON. The generated client is not involved.
	RawClient bool     `json:"raw_client,omitempty"`
	RawFrames []string `json:"raw_frames,omitempty"`
}

// StreamRec is what both ends of a streaming exchange observed, in order.
type StreamRec struct {
	Handshake  int      `json:"handshake,omitempty"`     // status of the handshake response (101 = upgraded)
	ClientSent []any    `json:"client_sent,omitempty"`   // messages handed to the generated client stream's Send
	StubRecv   []any    `json:"stub_recv,omitempty"`     // messages the stub's Recv returned
	StubSent   []any    `json:"stub_sent,omitempty"`     // messages the stub handed to Send successfully
	ClientRecv []any    `json:"client_recv,omitempty"`   // messages the client stream's Recv returned
	RawRecv    []string `json:"raw_recv,omitempty"`      // raw client: text frames read from the server
	RawSent    int      `json:"raw_sent,omitempty"`      // raw client: frames written
	ClientOpen string   `json:"client_open,omitempty"`   // "stream" when the client endpoint returned a stream
	SendErr    string   `json:"send_err,omitempty"`      // first error of the client's Send
	RecvEnd    string   `json:"recv_end,omitempty"`      // what ended the client's reading: "eof" or the error text
	CloseErr   string   `json:"close_err,omitempty"`     // error of the client's Close / CloseAndRecv
	StubEnd    string   `json:"stub_recv_end,omitempty"` // what ended the stub's reading: "eof", "count" or the error text
	// StubEndName / RecvEndName: goa error name when the error that ended reading is a goa.ServiceError
	StubEndName string `json:"stub_recv_end_name,omitempty"`
	RecvEndName string `json:"recv_end_name,omitempty"`
	StubSndErr  string `json:"stub_send_err,omitempty"`
	StubClsErr  string `json:"stub_close_err,omitempty"`
	StubView    string `json:"stub_view,omitempty"` // view handed to SetView
	StubDone    bool   `json:"stub_done,omitempty"` // the service method returned
	// WireC2S / WireS2C are the websocket frames seen on the server's side of the socket, in order: the
	// payload of text frames verbatim, other frames as "<close 1000 reason>", "<binary n bytes>", ...
	WireC2S []string `json:"wire_c2s,omitempty"`
	WireS2C []string `json:"wire_s2c,omitempty"`
	// ConnLeftOpen: the generated handler returned (the service method failed after the upgrade) without closing
	// the hijacked connection; the loopback server then closes it, as the peer would be left hanging otherwise.
	ConnLeftOpen bool   `json:"conn_left_open,omitempty"`
	Watchdog     string `json:"watchdog,omitempty"` // non-empty: the watchdog fired (what was pending)
	// Deadlock is set when both ends were blocked in a receive with nothing in flight (a logical state, not a
	// timeout): the description of that state
	Deadlock string   `json:"deadlock,omitempty"`
	Steps    []string `json:"steps,omitempty"` // interleaving of the four streams' events
}

// wsState is the live state of a streaming exchange.
type wsState struct {
	id          string
	conns       []net.Conn    // raw connections to tear down when the watchdog fires
	handlerIn   atomic.Bool   // the server handler was entered
	handlerDone chan struct{} // closed when the server handler returned
	tap         *tapConn      // the hijacked server connection (nil until the upgrade)
	ctap        *tapConn      // the client's end of the socket
	reqBytes    atomic.Int64  // bytes of the handshake request (read by net/http before the server's tap exists)
	// what each end is blocked in ("" = not blocked in a receive): both ends waiting to receive while every byte
	// written by either end has been read by the other is a deadlock, decided on that logical state
	clientWait atomic.Value // string
	stubWait   atomic.Value // string
}

const (
	corrHeader    = "X-Lab-Exchange"
	streamWatch   = 25 * time.Second
	maxStreamMsgs = 1000
)

var streamMethodNames = []string{"Send", "Recv", "Close", "SendAndClose", "CloseAndRecv"}

// isStreamType reports whether t is a generated stream interface.
func isStreamType(t reflect.Type) bool {
	if t == nil || t.Kind() != reflect.Interface || t.NumMethod() == 0 {
		return false
	}
	for _, n := range streamMethodNames {
		if _, ok := t.MethodByName(n); ok {
			return true
		}
	}
	return false
}

// newUpgrader returns the real upgrader handed to the generated server. Its own buffers (instead of the
// hijacked bufio pair) make every byte pass through the net.Conn the hijack returns: the frame tap.
func newUpgrader() *websocket.Upgrader {
	return &websocket.Upgrader{HandshakeTimeout: streamWatch, ReadBufferSize: 4096, WriteBufferSize: 4096}
}

// hijackTap lets the upgrade hijack a connection whose traffic is recorded.
type hijackTap struct {
	http.ResponseWriter
	ex *Exchange
}

func (h *hijackTap) Hijack() (net.Conn, *bufio.ReadWriter, error) {
	hj, ok := h.ResponseWriter.(http.Hijacker)
	if !ok {
		return nil, nil, errors.New("lab: response writer cannot be hijacked")
	}
	c, brw, err := hj.Hijack()
	if err != nil {
		return c, brw, err
	}
	t := &tapConn{Conn: c}
	h.ex.mu.Lock()
	h.ex.ws.tap = t
	h.ex.mu.Unlock()
	return t, brw, nil
}

// tapConn records the bytes read from and written to the server's end of the socket.
type tapConn struct {
	net.Conn
	mu       sync.Mutex
	in, outb []byte
	closed   bool
	nIn      atomic.Int64 // bytes read from the socket
	nOut     atomic.Int64 // bytes written to the socket
}

func (t *tapConn) Close() error {
	t.mu.Lock()
	t.closed = true
	t.mu.Unlock()
	return t.Conn.Close()
}

func (t *tapConn) Read(p []byte) (int, error) {
	n, err := t.Conn.Read(p)
	if n > 0 {
		t.nIn.Add(int64(n))
		t.mu.Lock()
		if len(t.in) < 8<<20 {
			t.in = append(t.in, p[:n]...)
		}
		t.mu.Unlock()
	}
	return n, err
}

func (t *tapConn) Write(p []byte) (int, error) {
	n, err := t.Conn.Write(p)
	if n > 0 {
		t.nOut.Add(int64(n))
		t.mu.Lock()
		if len(t.outb) < 8<<20 {
			t.outb = append(t.outb, p[:n]...)
		}
		t.mu.Unlock()
	}
	return n, err
}

// wsFrames splits a byte stream into websocket frames (RFC 6455 §5.2) and renders them.
func wsFrames(b []byte) []string {
	var out []string
	for len(b) >= 2 {
		op := b[0] & 0x0f
		masked := b[1]&0x80 != 0
		n := uint64(b[1] & 0x7f)
		off := 2
		switch n {
		case 126:
			if len(b) < 4 {
				return append(out, "<truncated frame>")
			}
			n = uint64(b[2])<<8 | uint64(b[3])
			off = 4
		case 127:
			if len(b) < 10 {
				return append(out, "<truncated frame>")
			}
			n = 0
			for i := 2; i < 10; i++ {
				n = n<<8 | uint64(b[i])
			}
			off = 10
		}
		var key []byte
		if masked {
			if len(b) < off+4 {
				return append(out, "<truncated frame>")
			}
			key = b[off : off+4]
			off += 4
		}
		if uint64(len(b)-off) < n {
			return append(out, "<truncated frame>")
		}
		pl := append([]byte(nil), b[off:off+int(n)]...)
		for i := range pl {
			if masked {
				pl[i] ^= key[i%4]
			}
		}
		switch op {
		case 1:
			out = append(out, string(pl))
		case 8:
			code := 0
			if len(pl) >= 2 {
				code = int(pl[0])<<8 | int(pl[1])
				pl = pl[2:]
			}
			out = append(out, fmt.Sprintf("<close %d %s>", code, pl))
		case 0:
			out = append(out, fmt.Sprintf("<continuation %d bytes>", len(pl)))
		case 2:
			out = append(out, fmt.Sprintf("<binary %d bytes>", len(pl)))
		default:
			out = append(out, fmt.Sprintf("<opcode %d %d bytes>", op, len(pl)))
		}
		b = b[off+int(n):]
	}
	if len(b) > 0 {
		out = append(out, "<truncated frame>")
	}
	return out
}

// collectFrames moves what the frame tap saw into the record.
func (ex *Exchange) collectFrames() {
	ex.mu.Lock()
	t := ex.ws.tap
	ex.mu.Unlock()
	if t == nil {
		return
	}
	t.mu.Lock()
	in, outb := append([]byte(nil), t.in...), append([]byte(nil), t.outb...)
	t.mu.Unlock()
	// the server first writes the handshake response (HTTP text), then frames
	if i := bytes.Index(outb, []byte("\r\n\r\n")); i >= 0 && bytes.HasPrefix(outb, []byte("HTTP/")) {
		outb = outb[i+4:]
	}
	ex.sUpd("", func(r *StreamRec) { r.WireC2S, r.WireS2C = wsFrames(in), wsFrames(outb) })
}

func (ex *Exchange) srec() *StreamRec {
	if ex.Stream == nil {
		ex.Stream = &StreamRec{}
	}
	return ex.Stream
}

// sUpd updates the stream record under the exchange lock.
func (ex *Exchange) sUpd(step string, f func(r *StreamRec)) {
	ex.mu.Lock()
	r := ex.srec()
	if f != nil {
		f(r)
	}
	if step != "" {
		r.Steps = append(r.Steps, step)
	}
	ex.mu.Unlock()
}

func errText(err error) string {
	if err == nil {
		return ""
	}
	if err == io.EOF {
		return "eof"
	}
	return err.Error()
}

func svcErrName(err error) string {
	var se *goa.ServiceError
	if errors.As(err, &se) {
		return se.Name
	}
	return ""
}

func asErr(v reflect.Value) error {
	if !v.IsValid() || v.IsNil() {
		return nil
	}
	e, _ := v.Interface().(error)
	return e
}

// ---------------------------------------------------------------- server side

var wsExchanges sync.Map // correlation id -> *Exchange
var wsFired sync.Map     // "svc.method" -> number of watchdog firings
var wsSeq atomic.Int64

// streamServer returns the loopback server of a service, starting it on first use.
func (dr *Driver) streamServer(st *svcState) *httptest.Server {
	st.tsOnce.Do(func() {
		st.ts = httptest.NewServer(http.HandlerFunc(func(w http.ResponseWriter, r *http.Request) {
			id := r.Header.Get(corrHeader)
			r.Header.Del(corrHeader) // goa never sees the correlation header
			var ex *Exchange
			if v, ok := wsExchanges.Load(id); ok {
				ex = v.(*Exchange)
			}
			if ex == nil {
				http.Error(w, "lab: request without exchange", http.StatusTeapot)
				return
			}
			ws := ex.ws
			ws.handlerIn.Store(true)
			defer close(ws.handlerDone)
			defer func() {
				if x := recover(); x != nil {
					ex.mu.Lock()
					ex.Panic += fmt.Sprintf("server panic: %v\n%s", x, debug.Stack())
					ex.mu.Unlock()
				}
			}()
			st.handler.ServeHTTP(&hijackTap{ResponseWriter: w, ex: ex}, r.WithContext(context.WithValue(r.Context(), exKey, ex)))
			// a hijacked connection the generated code did not close is nobody's any more: close it, and say so
			ex.mu.Lock()
			t := ws.tap
			ex.mu.Unlock()
			if t != nil {
				t.mu.Lock()
				open := !t.closed
				t.mu.Unlock()
				if open {
					ex.sUpd("conn_left_open", func(r *StreamRec) { r.ConnLeftOpen = true })
					t.Close()
				}
			}
		}))
	})
	return st.ts
}

// serveStream is the stub's end of a streaming exchange.
func (h *Hooks) serveStream(ex *Exchange, stream reflect.Value, oc *Outcome, out Out) {
	defer ex.sUpd("stub_done", func(r *StreamRec) { r.StubDone = true })
	fail := func(err error) {
		ex.mu.Lock()
		ex.StubErr = err.Error()
		ex.mu.Unlock()
		*out.Err = goa.PermanentError("lab_stub_failure", "%s", err.Error())
	}
	if oc.Kind != "result" {
		// errors returned before the first Send/Recv are encoded as plain HTTP responses
		if err := h.apply(oc, out); err != nil {
			fail(err)
		}
		return
	}
	sc := ex.Case.Stream
	if sc == nil {
		sc = &StreamScript{}
	}
	recv, send := stream.MethodByName("Recv"), stream.MethodByName("Send")
	recvOne := func() (bool, error) {
		ex.ws.stubWait.Store("Recv")
		r := recv.Call(nil)
		ex.ws.stubWait.Store("")
		if err := asErr(r[1]); err != nil {
			ex.sUpd("stub_recv_end", func(s *StreamRec) { s.StubEnd, s.StubEndName = errText(err), svcErrName(err) })
			return false, err
		}
		c := canonTyped(r[0].Interface(), recv.Type().Out(0))
		ex.sUpd("stub_recv", func(s *StreamRec) { s.StubRecv = append(s.StubRecv, boxNil(c)) })
		return true, nil
	}
	sendOne := func(tree any) bool {
		v, err := buildArg(send.Type().In(0), tree)
		if err != nil {
			fail(fmt.Errorf("cannot build scripted stream result: %w", err))
			return false
		}
		if err := asErr(send.Call([]reflect.Value{v})[0]); err != nil {
			ex.sUpd("stub_send_err", func(s *StreamRec) { s.StubSndErr = err.Error() })
			return false
		}
		c := canonTyped(v.Interface(), send.Type().In(0))
		ex.sUpd("stub_send", func(s *StreamRec) { s.StubSent = append(s.StubSent, boxNil(c)) })
		return true
	}
	closeWith := func(name string, args []reflect.Value) {
		m := stream.MethodByName(name)
		if !m.IsValid() {
			return
		}
		r := m.Call(args)
		if err := asErr(r[len(r)-1]); err != nil {
			ex.sUpd("stub_close_err", func(s *StreamRec) { s.StubClsErr = err.Error() })
			return
		}
		ex.sUpd("stub_close", nil)
	}
	if sv := stream.MethodByName("SetView"); sv.IsValid() && oc.View != "" {
		sv.Call([]reflect.Value{reflect.ValueOf(oc.View)})
		ex.sUpd("", func(s *StreamRec) { s.StubView = oc.View })
	}
	switch {
	case recv.IsValid() && send.IsValid() && sc.Proto == "pingpong":
		for i := 0; i < len(sc.Send) && i < len(oc.StreamResults); i++ {
			if ok, _ := recvOne(); !ok {
				break
			}
			if !sendOne(oc.StreamResults[i]) {
				break
			}
		}
		closeWith("Close", nil)
	case recv.IsValid() && send.IsValid():
		// phased: exactly as many messages as the client was scripted to send, then answer
		complete := true
		for i := 0; i < len(sc.Send); i++ {
			if ok, _ := recvOne(); !ok {
				complete = false
				break
			}
		}
		if complete {
			ex.sUpd("", func(s *StreamRec) { s.StubEnd = "count" })
		}
		for _, tr := range oc.StreamResults {
			if !sendOne(tr) {
				break
			}
		}
		closeWith("Close", nil)
	case recv.IsValid():
		// client stream: read until the client says it is done
		for n := 0; n < maxStreamMsgs; n++ {
			ok, err := recvOne()
			if !ok {
				if err != io.EOF {
					*out.Err = err
					return
				}
				break
			}
		}
		if sac := stream.MethodByName("SendAndClose"); sac.IsValid() {
			v, err := buildArg(sac.Type().In(0), oc.Result)
			if err != nil {
				fail(fmt.Errorf("cannot build scripted result: %w", err))
				return
			}
			c := canonTyped(v.Interface(), sac.Type().In(0))
			ex.sUpd("", func(s *StreamRec) { s.StubSent = append(s.StubSent, boxNil(c)) })
			closeWith("SendAndClose", []reflect.Value{v})
			return
		}
		closeWith("Close", nil)
	case send.IsValid():
		for _, tr := range oc.StreamResults {
			if !sendOne(tr) {
				break
			}
		}
		closeWith("Close", nil)
	default:
		fail(errors.New("stream value has neither Send nor Recv"))
	}
}

// buildArg builds the Go value of a stream message from a tree (a nil pointer becomes an empty struct).
func buildArg(t reflect.Type, tree any) (reflect.Value, error) {
	v, err := Build(t, NormKeys(tree))
	if err != nil {
		return v, err
	}
	if v.Kind() == reflect.Ptr && v.IsNil() {
		v = reflect.New(t.Elem())
	}
	return v, nil
}

// boxNil keeps an absent/empty message distinguishable from "no message" inside a JSON array.
func boxNil(c any) any {
	if c == nil {
		return map[string]any{}
	}
	return c
}

// ---------------------------------------------------------------- client side

// tapDialer is the goahttp.Dialer handed to the generated client.
type tapDialer struct {
	d  *Driver
	st *svcState
}

func (t *tapDialer) DialContext(ctx context.Context, rawurl string, h http.Header) (*websocket.Conn, *http.Response, error) {
	ex, _ := ctx.Value(exKey).(*Exchange)
	if ex == nil {
		ex = t.d.current.Load()
	}
	if ex == nil || ex.ws == nil {
		return nil, nil, errors.New("lab: websocket dial outside a streaming exchange")
	}
	return t.d.dialWS(t.st, ex, ctx, rawurl, h)
}

// dialWS records the handshake request, dials the loopback server in place of the design's host and
// records the handshake response.
func (dr *Driver) dialWS(st *svcState, ex *Exchange, ctx context.Context, rawurl string, h http.Header) (*websocket.Conn, *http.Response, error) {
	u, err := url.Parse(rawurl)
	if err != nil {
		return nil, nil, fmt.Errorf("lab: client produced an unparsable URL %q: %w", rawurl, err)
	}
	wr := &WireReq{Method: "GET", URL: rawurl, Path: u.Path, RawPath: u.RawPath, Query: u.RawQuery, Header: map[string][]string{}}
	for k, v := range h {
		wr.Header[k] = append([]string(nil), v...)
	}
	ex.mu.Lock()
	ex.WireReq = wr
	ex.Seq = append(ex.Seq, "wire_req")
	ex.mu.Unlock()
	ts := dr.streamServer(st)
	tu, _ := url.Parse(ts.URL)
	u.Scheme, u.Host = "ws", tu.Host
	hh := http.Header{}
	for k, v := range h {
		hh[k] = append([]string(nil), v...)
	}
	hh.Set(corrHeader, ex.ws.id)
	d := &websocket.Dialer{HandshakeTimeout: streamWatch, NetDialContext: func(ctx context.Context, network, addr string) (net.Conn, error) {
		c, err := (&net.Dialer{}).DialContext(ctx, network, addr)
		if err == nil {
			t := &tapConn{Conn: c}
			ex.mu.Lock()
			ex.ws.conns = append(ex.ws.conns, c)
			ex.ws.ctap = t
			ex.mu.Unlock()
			return t, nil
		}
		return c, err
	}}
	conn, resp, err := d.DialContext(ctx, u.String(), hh)
	ex.mu.Lock()
	if ct := ex.ws.ctap; ct != nil {
		// the client cannot have written anything but the handshake request yet
		ex.ws.reqBytes.Store(ct.nOut.Load())
	}
	ex.mu.Unlock()
	if resp != nil {
		var body []byte
		if resp.Body != nil && err != nil {
			body, _ = io.ReadAll(io.LimitReader(resp.Body, 1<<20))
			resp.Body.Close()
			resp.Body = io.NopCloser(bytes.NewReader(body))
		}
		wresp := &WireResp{Status: resp.StatusCode, Header: map[string][]string{}, Body: body, WriteHeaders: 1}
		for k, v := range resp.Header {
			wresp.Header[k] = append([]string(nil), v...)
		}
		ex.mu.Lock()
		ex.WireResp = wresp
		ex.srec().Handshake = resp.StatusCode
		ex.Seq = append(ex.Seq, "wire_resp")
		ex.mu.Unlock()
	}
	return conn, resp, err
}

// runStream drives the client end of a streaming case under the watchdog.
func (dr *Driver) runStream(st *svcState, ex *Exchange, ctx context.Context) {
	// a method whose exchanges keep hanging is not given the full watchdog over and over
	wkey := ex.Case.Svc + "." + ex.Case.Method
	if n, _ := wsFired.Load(wkey); n != nil && n.(int) >= 2 {
		ex.Stream = &StreamRec{Watchdog: "skipped: the watchdog fired twice for this method already"}
		return
	}
	defer func() {
		if ex.Stream != nil && ex.Stream.Watchdog != "" {
			n, _ := wsFired.Load(wkey)
			k, _ := n.(int)
			wsFired.Store(wkey, k+1)
		}
	}()
	ex.ws = &wsState{id: strconv.FormatInt(wsSeq.Add(1), 10), handlerDone: make(chan struct{})}
	ex.Stream = &StreamRec{}
	wsExchanges.Store(ex.ws.id, ex)
	defer wsExchanges.Delete(ex.ws.id)
	ctx, cancel := context.WithCancel(ctx)
	defer cancel()
	done := make(chan struct{})
	go func() {
		defer close(done)
		defer func() {
			if x := recover(); x != nil {
				ex.mu.Lock()
				ex.Panic += fmt.Sprintf("client panic: %v\n%s", x, debug.Stack())
				ex.mu.Unlock()
			}
		}()
		if ex.Case.Stream.RawClient {
			dr.rawStreamClient(st, ex, ctx)
		} else {
			dr.genStreamClient(st, ex, ctx)
		}
	}()
	deadline := time.Now().Add(streamWatch)
	fired := func(what string) {
		ex.sUpd("watchdog", func(r *StreamRec) { r.Watchdog = what })
		cancel()
		ex.mu.Lock()
		conns := append([]net.Conn(nil), ex.ws.conns...)
		ex.mu.Unlock()
		for _, c := range conns {
			c.Close()
		}
	}
	// quiescent reports the logical deadlock state: both ends blocked in a receive and every byte either end wrote
	// has been read by the other end (nothing in flight, nobody left to send)
	quiescent := func() (bool, string) {
		cw, _ := ex.ws.clientWait.Load().(string)
		sw, _ := ex.ws.stubWait.Load().(string)
		if cw == "" || sw == "" {
			return false, ""
		}
		ex.mu.Lock()
		ct, st := ex.ws.ctap, ex.ws.tap
		ex.mu.Unlock()
		if ct == nil || st == nil {
			return false, ""
		}
		if ct.nOut.Load()-ex.ws.reqBytes.Load() != st.nIn.Load() || st.nOut.Load() != ct.nIn.Load() {
			return false, ""
		}
		return true, fmt.Sprintf("client blocked in %s, service method blocked in %s, %d bytes client->server and %d bytes server->client all read", cw, sw, ct.nOut.Load(), st.nOut.Load())
	}
	// wait waits for ch until the deadline; past it the connections are torn down and ch gets a last chance.
	// While waiting, the deadlock state is sampled: it must hold on 60 consecutive samples (the state is logical,
	// the sampling only gives the ends time to leave it if they can)
	wait := func(ch <-chan struct{}, what string) {
		t := time.NewTimer(time.Until(deadline))
		defer t.Stop()
		tick := time.NewTicker(5 * time.Millisecond)
		defer tick.Stop()
		stable, last := 0, ""
		for {
			select {
			case <-ch:
				return
			case <-tick.C:
				if q, desc := quiescent(); q && (last == "" || desc == last) {
					stable, last = stable+1, desc
				} else {
					stable, last = 0, ""
				}
				if stable >= 60 {
					if os.Getenv("VERIF_DEBUG_STACKS") != "" {
						buf := make([]byte, 1<<20)
						fmt.Fprintf(os.Stderr, "DEADLOCK %s\n%s\n", last, buf[:runtime.Stack(buf, true)])
					}
					ex.sUpd("deadlock", func(r *StreamRec) { r.Deadlock = last })
					cancel()
					ex.mu.Lock()
					conns := append([]net.Conn(nil), ex.ws.conns...)
					ex.mu.Unlock()
					for _, c := range conns {
						c.Close()
					}
					select {
					case <-ch:
					case <-time.After(5 * time.Second):
					}
					return
				}
			case <-t.C:
				fired(what)
				select {
				case <-ch:
				case <-time.After(5 * time.Second):
				}
				return
			}
		}
	}
	wait(done, "client end still running")
	// the client end is finished (returned, or panicked: then it never closed its connection): it waits for nothing
	ex.ws.clientWait.Store("")
	// the service method may still be on its way out; when the client end is gone without closing (a panic in
	// the generated client), its process would be gone too: the socket is closed for it after a short grace
	if ex.ws.handlerIn.Load() {
		select {
		case <-ex.ws.handlerDone:
		case <-time.After(200 * time.Millisecond):
			ex.mu.Lock()
			panicked := ex.Panic != ""
			conns := append([]net.Conn(nil), ex.ws.conns...)
			ex.mu.Unlock()
			if panicked {
				for _, c := range conns {
					c.Close()
				}
				ex.sUpd("client_gone", nil)
			}
		}
		wait(ex.ws.handlerDone, "service method still running")
	}
	ex.collectFrames()
}

// genStreamClient: generated client endpoint + generated client stream.
func (dr *Driver) genStreamClient(st *svcState, ex *Exchange, ctx context.Context) {
	c := ex.Case
	gn := st.goName[c.Method]
	m := st.client.MethodByName(gn)
	if !m.IsValid() {
		ex.BuildErr = "client lacks method " + gn
		return
	}
	ep, ok := m.Call(nil)[0].Interface().(goa.Endpoint)
	if !ok {
		ex.BuildErr = "client method does not return a goa.Endpoint"
		return
	}
	var payload any
	if pt := st.payloadT[c.Method]; pt != nil && !c.NoPay {
		v, err := buildArg(pt, c.Sent)
		if err != nil {
			ex.BuildErr = err.Error()
			return
		}
		payload = v.Interface()
		ex.mu.Lock()
		ex.ClientIn = canonTyped(payload, pt)
		ex.mu.Unlock()
	}
	ex.tap("client_in")
	res, err := ep(ctx, payload)
	co := &ClientOut{}
	defer func() {
		ex.mu.Lock()
		ex.ClientOut = co
		ex.Seq = append(ex.Seq, "client_out")
		ex.mu.Unlock()
	}()
	if err != nil {
		co.Err = errInfo(err)
		return
	}
	sv := reflect.ValueOf(res)
	if res == nil || !(sv.MethodByName("Send").IsValid() || sv.MethodByName("Recv").IsValid() || sv.MethodByName("CloseAndRecv").IsValid()) {
		// not a stream: record what came back
		if res != nil {
			co.HasRes = true
			co.Result = Canon(res)
		}
		return
	}
	ex.sUpd("client_open", func(r *StreamRec) { r.ClientOpen = "stream" })
	sc := c.Stream
	send, recv := sv.MethodByName("Send"), sv.MethodByName("Recv")
	sendOne := func(tree any) bool {
		v, err := buildArg(send.Type().In(0), tree)
		if err != nil {
			ex.mu.Lock()
			ex.BuildErr = "stream message: " + err.Error()
			ex.mu.Unlock()
			return false
		}
		cv := canonTyped(v.Interface(), send.Type().In(0))
		if err := asErr(send.Call([]reflect.Value{v})[0]); err != nil {
			ex.sUpd("client_send_err", func(r *StreamRec) { r.SendErr = err.Error() })
			return false
		}
		ex.sUpd("client_send", func(r *StreamRec) { r.ClientSent = append(r.ClientSent, boxNil(cv)) })
		return true
	}
	recvOne := func() bool {
		ex.ws.clientWait.Store("Recv")
		r := recv.Call(nil)
		ex.ws.clientWait.Store("")
		if err := asErr(r[1]); err != nil {
			ex.sUpd("client_recv_end", func(s *StreamRec) { s.RecvEnd, s.RecvEndName = errText(err), svcErrName(err) })
			return false
		}
		cv := canonTyped(r[0].Interface(), recv.Type().Out(0))
		ex.sUpd("client_recv", func(s *StreamRec) { s.ClientRecv = append(s.ClientRecv, boxNil(cv)) })
		return true
	}
	closeIt := func() {
		if cl := sv.MethodByName("Close"); cl.IsValid() {
			if err := asErr(cl.Call(nil)[0]); err != nil {
				ex.sUpd("client_close_err", func(r *StreamRec) { r.CloseErr = err.Error() })
				return
			}
			ex.sUpd("client_close", nil)
		}
	}
	switch {
	case send.IsValid() && recv.IsValid() && sc.Proto == "pingpong":
		ok := true
		for i := 0; i < len(sc.Send) && ok; i++ {
			ok = sendOne(sc.Send[i]) && recvOne()
		}
		if ok {
			recvOne() // the stub closes after the last answer: expected to end the stream
		}
		closeIt()
	case send.IsValid() && recv.IsValid():
		for _, tr := range sc.Send {
			if !sendOne(tr) {
				break
			}
		}
		for n := 0; n < maxStreamMsgs && recvOne(); n++ {
		}
		closeIt()
	case send.IsValid():
		for _, tr := range sc.Send {
			if !sendOne(tr) {
				break
			}
		}
		if car := sv.MethodByName("CloseAndRecv"); car.IsValid() {
			ex.ws.clientWait.Store("CloseAndRecv")
			r := car.Call(nil)
			ex.ws.clientWait.Store("")
			if err := asErr(r[1]); err != nil {
				ex.sUpd("client_close_err", func(s *StreamRec) { s.CloseErr = errText(err) })
				co.Err = errInfo(err)
				return
			}
			ex.sUpd("client_close_and_recv", nil)
			co.HasRes = true
			co.Result = canonTyped(r[0].Interface(), car.Type().Out(0))
			return
		}
		closeIt()
	case recv.IsValid():
		for n := 0; n < maxStreamMsgs && recvOne(); n++ {
		}
	}
}

// rawStreamClient: the lab's own websocket client. It dials the URL built from the spec (Case.Raw), writes
// the JSON frames built from the spec's attribute names and reads the server's frames verbatim.
func (dr *Driver) rawStreamClient(st *svcState, ex *Exchange, ctx context.Context) {
	c := ex.Case
	if c.Raw == nil {
		ex.BuildErr = "raw stream client without a raw request"
		return
	}
	h := http.Header{}
	for k, vs := range c.Raw.Header {
		if strings.EqualFold(k, "Content-Type") {
			continue
		}
		for _, v := range vs {
			h.Add(k, v)
		}
	}
	conn, _, err := dr.dialWS(st, ex, ctx, c.Raw.URL, h)
	if err != nil {
		ex.sUpd("raw_dial_err", func(r *StreamRec) { r.RecvEnd = "dial: " + err.Error() })
		return
	}
	defer conn.Close()
	ex.sUpd("client_open", func(r *StreamRec) { r.ClientOpen = "raw" })
	sc := c.Stream
	write := func(text string) bool {
		if err := conn.WriteMessage(websocket.TextMessage, []byte(text)); err != nil {
			ex.sUpd("client_send_err", func(r *StreamRec) { r.SendErr = err.Error() })
			return false
		}
		return true
	}
	sendOne := func(i int) bool {
		if !write(sc.RawFrames[i]) {
			return false
		}
		ex.sUpd("client_send", func(r *StreamRec) { r.RawSent++ })
		return true
	}
	recvOne := func() bool {
		mt, b, err := conn.ReadMessage()
		if err != nil {
			end := err.Error()
			if websocket.IsCloseError(err, websocket.CloseNormalClosure) {
				end = "eof"
			}
			ex.sUpd("client_recv_end", func(r *StreamRec) { r.RecvEnd = end })
			return false
		}
		if mt != websocket.TextMessage {
			b = []byte(fmt.Sprintf("<frame type %d: %x>", mt, b))
		}
		ex.sUpd("client_recv", func(r *StreamRec) { r.RawRecv = append(r.RawRecv, string(b)) })
		return true
	}
	n := len(sc.RawFrames)
	switch {
	case sc.Kind == "bidi" && sc.Proto == "pingpong":
		ok := true
		for i := 0; i < n && ok; i++ {
			ok = sendOne(i) && recvOne()
		}
		if ok {
			recvOne()
		}
	case sc.Kind == "bidi":
		for i := 0; i < n; i++ {
			if !sendOne(i) {
				break
			}
		}
		for k := 0; k < maxStreamMsgs && recvOne(); k++ {
		}
	case sc.Kind == "client":
		for i := 0; i < n; i++ {
			if !sendOne(i) {
				break
			}
		}
		// end of the client's messages: the JSON text null
		if write("null") {
			ex.sUpd("client_close", nil)
		}
		// the final result (if the method has one), then whatever ends the connection
		for k := 0; k < 2 && recvOne(); k++ {
		}
	default:
		for k := 0; k < maxStreamMsgs && recvOne(); k++ {
		}
	}
}
