package rt

// Record types of the gRPC runtime half of C10 (driver: package rtgrpc, oracle: oracle/c10.go).
// They live here, free of any grpc import, so that the case generators and the
// offline oracles do not link the gRPC runtime.

// GRaw is a hand-built exchange: the stand-in protobuf client is called directly with
// messages and metadata computed by the case generator from the design (goa's
// generated client, its encoders and its client-side checks are bypassed).
type GRaw struct {
	MD     map[string][]string `json:"md,omitempty"`     // outgoing request metadata
	Msg    any                 `json:"msg,omitempty"`    // request message tree (design attribute names); nil = empty message
	Stream []any               `json:"stream,omitempty"` // streamed request message trees
}

// GOutcome scripts the stub.
type GOutcome struct {
	Kind    string `json:"kind"`               // result | error
	Result  any    `json:"result,omitempty"`   // unary / client-streaming result tree
	Stream  []any  `json:"stream,omitempty"`   // messages the stub sends (server / bidi streaming)
	ErrName string `json:"err_name,omitempty"` // declared error name (kind error)
	ErrMsg  string `json:"err_msg,omitempty"`
}

// GCase is one scripted gRPC exchange.
type GCase struct {
	ID     int    `json:"id"`
	Class  string `json:"class"`  // value / probe class (stable across seeds)
	Clause string `json:"clause"` // roundtrip | probe-request | probe-stream | probe-result | error
	Svc    string `json:"svc"`
	Method string `json:"method"`
	Mode   string `json:"mode"` // client (generated goa client) | rawpb (stand-in pb client, hand-built messages)
	// Sent is the payload handed to the generated client (design attribute names); in rawpb mode it is the
	// payload the raw message stands for (what the stub must receive when the message is valid).
	Sent   any   `json:"sent,omitempty"`
	NoPay  bool  `json:"no_payload,omitempty"`
	Stream []any `json:"stream,omitempty"` // streamed payload trees the client sends (what the stub must read)
	Raw    *GRaw `json:"raw,omitempty"`
	// Valid: the reference validator's verdict on the request side of the case as computed when the case was
	// built (the oracle recomputes it; a disagreement makes the exchange inconclusive).
	Outcome *GOutcome      `json:"outcome,omitempty"`
	Note    map[string]any `json:"note,omitempty"`
}

// GTap is one event seen by the loopback tap (wire order).
type GTap struct {
	Kind   string              `json:"kind"` // req_md req resp header trailer status panic
	MD     map[string][]string `json:"md,omitempty"`
	Msg    any                 `json:"msg,omitempty"`      // canonical tree of the protobuf message (Go field names, normalised)
	MsgT   string              `json:"msg_type,omitempty"` // Go type of the message
	Code   string              `json:"code,omitempty"`     // status code name
	Status string              `json:"status,omitempty"`   // status message
	Text   string              `json:"text,omitempty"`     // panic value and stack
}

// GStubIn is what the service stub observed.
type GStubIn struct {
	GoMethod   string `json:"go_method"`
	HasPayload bool   `json:"has_payload"`
	Payload    any    `json:"payload,omitempty"`
	HasStream  bool   `json:"has_stream,omitempty"`
	Recv       []any  `json:"recv,omitempty"`      // streamed messages read by the stub, in order
	RecvEnd    string `json:"recv_end,omitempty"`  // "eof" or the error that ended reading
	Sent       int    `json:"sent"`                // streamed messages the stub sent successfully
	SendErr    string `json:"send_err,omitempty"`  // first send error
	CloseErr   string `json:"close_err,omitempty"` // error of Close / SendAndClose
}

// GClientOut is what the caller of the generated client (or of the raw pb client) got back.
type GClientOut struct {
	HasRes   bool   `json:"has_result"`
	Result   any    `json:"result,omitempty"`
	Err      string `json:"err,omitempty"`      // error text of the call (unary) or of opening the stream
	ErrType  string `json:"err_type,omitempty"` // Go type of the error
	ErrName  string `json:"err_name,omitempty"` // goa error name if the error is a ServiceError
	Code     string `json:"code,omitempty"`     // gRPC status code of Err when it carries one
	Recv     []any  `json:"recv,omitempty"`     // streamed results read by the client, in order
	RecvEnd  string `json:"recv_end,omitempty"` // "eof" or the error that ended reading
	RecvCode string `json:"recv_code,omitempty"`
	Sent     int    `json:"sent"` // streamed payloads sent successfully
	SendErr  string `json:"send_err,omitempty"`
	CloseErr string `json:"close_err,omitempty"`
}

// GExchange is the record of one gRPC case.
type GExchange struct {
	Design    string      `json:"design"`
	Case      *GCase      `json:"case"`
	ClientIn  any         `json:"client_in,omitempty"`
	BuildErr  string      `json:"build_err,omitempty"`
	Taps      []GTap      `json:"taps,omitempty"`
	StubCalls int         `json:"stub_calls"`
	StubIn    *GStubIn    `json:"stub_in,omitempty"`
	StubErr   string      `json:"stub_err,omitempty"` // the stub could not build its scripted outcome
	ClientOut *GClientOut `json:"client_out,omitempty"`
	Panic     string      `json:"panic,omitempty"` // panic on the client side of the exchange (value + stack)
	Seq       []string    `json:"seq,omitempty"`
}
