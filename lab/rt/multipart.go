package rt

import (
	"bytes"
	"encoding/base64"
	"encoding/json"
	"errors"
	"fmt"
	"io"
	"mime"
	"mime/multipart"
	"net/textproto"
	"reflect"
	"strconv"
	"sync"

	goa "goa.design/goa/v3/pkg"

	"verif.local/lab/spec"
)

// MultipartRequest() endpoints: goa generates the plumbing only. The generated server constructor takes, per
// multipart method, a user function `func(*multipart.Reader, **<Payload>) error`; the generated client method
// of such an endpoint takes a user function `func(*multipart.Writer, *<Payload>) error`. The driver recognises
// both by their function TYPES (reflection on the generated constructors, as for every other argument) and
// supplies the lab's own, symmetric codec built with reflect.MakeFunc:
//
//	one part, form name "payload", Content-Type application/json, holding a JSON object whose members are
//	the BODY attributes of the payload (the attributes the design maps to no path/query parameter, header
//	or cookie and that are no credentials), spelled with the design's attribute names at every depth
//	(bytes as base64 text, maps as objects keyed by the key's text).
//
// Decision (DESIGN §13.9): the member names are the design's attribute names, and the codec reads and writes
// the SERVICE payload type directly. `goa example` generates empty user functions ("Add multipart request
// decoder logic here"), the DSL documentation makes the user function wholly responsible for the multipart
// content, and the JSON tags of the generated request body type of such an endpoint are exactly the design's
// attribute names — so both readings of the task give the same wire form; going through the generated body
// types and constructors would put more goa code into the codec the plumbing is judged with. What the codec
// does NOT do is therefore not goa's doing either: it applies no defaults and runs no validations (a user
// decoder written like goa's published example does neither) — the oracles know (oracle/multipart.go).

var (
	mpReaderT = reflect.TypeOf((*multipart.Reader)(nil))
	mpWriterT = reflect.TypeOf((*multipart.Writer)(nil))
	errorT    = reflect.TypeOf((*error)(nil)).Elem()
)

// MultipartPart is the form name of the single part of the lab's multipart codec.
const MultipartPart = "payload"

// isMultipartDecoderT: func(*multipart.Reader, **T) error
func isMultipartDecoderT(t reflect.Type) bool {
	return t.Kind() == reflect.Func && t.NumIn() == 2 && t.NumOut() == 1 && t.In(0) == mpReaderT && t.Out(0) == errorT &&
		t.In(1).Kind() == reflect.Ptr && t.In(1).Elem().Kind() == reflect.Ptr && t.In(1).Elem().Elem().Kind() == reflect.Struct
}

// isMultipartEncoderT: func(*multipart.Writer, *T) error
func isMultipartEncoderT(t reflect.Type) bool {
	return t.Kind() == reflect.Func && t.NumIn() == 2 && t.NumOut() == 1 && t.In(0) == mpWriterT && t.Out(0) == errorT &&
		t.In(1).Kind() == reflect.Ptr && t.In(1).Elem().Kind() == reflect.Struct
}

func errValue(err error) []reflect.Value {
	if err == nil {
		return []reflect.Value{reflect.Zero(errorT)}
	}
	return []reflect.Value{reflect.ValueOf(&err).Elem()}
}

// multipartDecoder builds the user decoder function of type t (a named generated type
// <Svc><Method>DecoderFunc): it needs nothing but the Go payload type.
func multipartDecoder(t reflect.Type) reflect.Value {
	pt := t.In(1).Elem().Elem() // the payload struct
	return reflect.MakeFunc(t, func(args []reflect.Value) []reflect.Value {
		mr, _ := args[0].Interface().(*multipart.Reader)
		pv, err := decodeMultipart(mr, pt)
		if err != nil {
			return errValue(err)
		}
		args[1].Elem().Set(pv)
		return errValue(nil)
	})
}

func decodeMultipart(mr *multipart.Reader, pt reflect.Type) (pv reflect.Value, err error) {
	defer func() {
		if x := recover(); x != nil {
			err = fmt.Errorf("lab multipart decoder: %v", x)
		}
	}()
	if mr == nil {
		return pv, errors.New("lab multipart decoder: no multipart reader")
	}
	var data []byte
	found := 0
	for {
		part, perr := mr.NextPart()
		if perr == io.EOF {
			break
		}
		if perr != nil {
			return pv, fmt.Errorf("lab multipart decoder: %w", perr)
		}
		if part.FormName() != MultipartPart {
			_, _ = io.Copy(io.Discard, part)
			continue
		}
		mt, _, merr := mime.ParseMediaType(part.Header.Get("Content-Type"))
		if merr != nil || mt != "application/json" {
			return pv, fmt.Errorf("lab multipart decoder: part %q is %q, want application/json", MultipartPart, part.Header.Get("Content-Type"))
		}
		if data, perr = io.ReadAll(part); perr != nil {
			return pv, fmt.Errorf("lab multipart decoder: %w", perr)
		}
		found++
	}
	if found != 1 {
		return pv, fmt.Errorf("lab multipart decoder: %d parts named %q, want one", found, MultipartPart)
	}
	dec := json.NewDecoder(bytes.NewReader(data))
	dec.UseNumber()
	var x any
	if derr := dec.Decode(&x); derr != nil {
		return pv, fmt.Errorf("lab multipart decoder: part %q: %w", MultipartPart, derr)
	}
	if dec.More() {
		return pv, fmt.Errorf("lab multipart decoder: part %q: data after the JSON value", MultipartPart)
	}
	if _, ok := x.(map[string]any); !ok {
		return pv, fmt.Errorf("lab multipart decoder: part %q does not hold a JSON object", MultipartPart)
	}
	pv = reflect.New(pt)
	if jerr := jsonInto(pv.Elem(), x, ""); jerr != nil {
		return pv, fmt.Errorf("lab multipart decoder: %w", jerr)
	}
	return pv, nil
}

// jsonInto stores a decoded JSON value (numbers as json.Number) into a generated Go value, as strictly as
// encoding/json would: object members go to the struct field of the same name (case and separators ignored,
// unknown members skipped), a JSON value of another kind than the field's is an error.
func jsonInto(dst reflect.Value, x any, path string) error {
	if x == nil {
		return nil
	}
	t := dst.Type()
	mismatch := func(want string) error {
		return fmt.Errorf("%s: cannot store JSON %T into %s (want %s)", path, x, t, want)
	}
	switch t.Kind() {
	case reflect.Ptr:
		nv := reflect.New(t.Elem())
		if err := jsonInto(nv.Elem(), x, path); err != nil {
			return err
		}
		dst.Set(nv)
		return nil
	case reflect.Interface:
		if t.NumMethod() > 0 {
			return fmt.Errorf("%s: union attributes are outside the lab's multipart codec", path)
		}
		dst.Set(reflect.ValueOf(plainNumbers(x)))
		return nil
	case reflect.Struct:
		o, ok := x.(map[string]any)
		if !ok {
			return mismatch("object")
		}
		idx := fieldIndex(t)
		for _, k := range sortedKeys(o) {
			i, ok := idx[spec.Norm(k)]
			if !ok {
				continue
			}
			if err := jsonInto(dst.Field(i), o[k], path+"."+k); err != nil {
				return err
			}
		}
		return nil
	case reflect.Slice:
		if t.Elem().Kind() == reflect.Uint8 {
			s, ok := x.(string)
			if !ok {
				return mismatch("base64 text")
			}
			b, err := base64.StdEncoding.DecodeString(s)
			if err != nil {
				return fmt.Errorf("%s: %w", path, err)
			}
			dst.Set(reflect.ValueOf(b).Convert(t))
			return nil
		}
		a, ok := x.([]any)
		if !ok {
			return mismatch("array")
		}
		s := reflect.MakeSlice(t, len(a), len(a))
		for i := range a {
			if err := jsonInto(s.Index(i), a[i], fmt.Sprintf("%s[%d]", path, i)); err != nil {
				return err
			}
		}
		dst.Set(s)
		return nil
	case reflect.Map:
		o, ok := x.(map[string]any)
		if !ok {
			return mismatch("object")
		}
		mv := reflect.MakeMapWithSize(t, len(o))
		for _, k := range sortedKeys(o) {
			kv := reflect.New(t.Key()).Elem()
			var kx any = k
			switch t.Key().Kind() {
			case reflect.String:
			case reflect.Bool:
				kx = k == "true"
			default:
				kx = json.Number(k)
			}
			if err := jsonInto(kv, kx, path+"{key}"); err != nil {
				return err
			}
			ev := reflect.New(t.Elem()).Elem()
			if err := jsonInto(ev, o[k], path+"{"+k+"}"); err != nil {
				return err
			}
			mv.SetMapIndex(kv, ev)
		}
		dst.Set(mv)
		return nil
	case reflect.Bool:
		b, ok := x.(bool)
		if !ok {
			return mismatch("boolean")
		}
		dst.SetBool(b)
		return nil
	case reflect.String:
		s, ok := x.(string)
		if !ok {
			return mismatch("string")
		}
		dst.SetString(s)
		return nil
	case reflect.Int, reflect.Int8, reflect.Int16, reflect.Int32, reflect.Int64:
		n, ok := x.(json.Number)
		if !ok {
			return mismatch("number")
		}
		i, err := strconv.ParseInt(n.String(), 10, t.Bits())
		if err != nil {
			return fmt.Errorf("%s: %w", path, err)
		}
		dst.SetInt(i)
		return nil
	case reflect.Uint, reflect.Uint8, reflect.Uint16, reflect.Uint32, reflect.Uint64:
		n, ok := x.(json.Number)
		if !ok {
			return mismatch("number")
		}
		u, err := strconv.ParseUint(n.String(), 10, t.Bits())
		if err != nil {
			return fmt.Errorf("%s: %w", path, err)
		}
		dst.SetUint(u)
		return nil
	case reflect.Float32, reflect.Float64:
		n, ok := x.(json.Number)
		if !ok {
			return mismatch("number")
		}
		f, err := strconv.ParseFloat(n.String(), t.Bits())
		if err != nil {
			return fmt.Errorf("%s: %w", path, err)
		}
		dst.SetFloat(f)
		return nil
	}
	return fmt.Errorf("%s: unsupported Go kind %s", path, t.Kind())
}

// plainNumbers turns json.Number leaves into float64 (what encoding/json stores into an `any`).
func plainNumbers(x any) any {
	switch y := x.(type) {
	case json.Number:
		f, _ := y.Float64()
		return f
	case []any:
		o := make([]any, len(y))
		for i := range y {
			o[i] = plainNumbers(y[i])
		}
		return o
	case map[string]any:
		o := map[string]any{}
		for k, e := range y {
			o[k] = plainNumbers(e)
		}
		return o
	}
	return x
}

// multipartBodyAttrs lists the payload attributes of a multipart method that travel in the part.
func multipartBodyAttrs(sp *spec.Spec, m *spec.Method) []*spec.Attr {
	if m == nil || m.Payload == nil || m.HTTP == nil {
		return nil
	}
	prt, _ := sp.Resolve(m.Payload.Type)
	if prt == nil || prt.Kind != spec.Object {
		return nil
	}
	mapped := map[string]bool{}
	for _, ls := range [][]spec.Loc{m.HTTP.Path, m.HTTP.Query, m.HTTP.Headers, m.HTTP.Cookies} {
		for _, l := range ls {
			mapped[l.Attr] = true
		}
	}
	var out []*spec.Attr
	for _, a := range prt.Attrs {
		if !mapped[a.Name] && a.Sec == "" {
			out = append(out, a)
		}
	}
	return out
}

// multipartEncoder builds the user encoder function of type t for method m: it writes the single part and
// leaves the writer open (closing it is the generated code's business).
func multipartEncoder(t reflect.Type, sp *spec.Spec, m *spec.Method) reflect.Value {
	attrs := multipartBodyAttrs(sp, m)
	return reflect.MakeFunc(t, func(args []reflect.Value) []reflect.Value {
		mw, _ := args[0].Interface().(*multipart.Writer)
		return errValue(encodeMultipart(mw, sp, attrs, args[1]))
	})
}

func encodeMultipart(mw *multipart.Writer, sp *spec.Spec, attrs []*spec.Attr, p reflect.Value) (err error) {
	defer func() {
		if x := recover(); x != nil {
			err = fmt.Errorf("lab multipart encoder: %v", x)
		}
	}()
	if mw == nil {
		return errors.New("lab multipart encoder: no multipart writer")
	}
	if p.Kind() != reflect.Ptr || p.IsNil() {
		return errors.New("lab multipart encoder: nil payload")
	}
	body := map[string]any{}
	idx := fieldIndex(p.Elem().Type())
	for _, a := range attrs {
		i, ok := idx[spec.Norm(a.Name)]
		if !ok {
			return fmt.Errorf("lab multipart encoder: payload type %s has no field for attribute %q", p.Elem().Type(), a.Name)
		}
		if v := goJSON(sp, a.Type, p.Elem().Field(i), 0); v != nil {
			body[a.Name] = v
		}
	}
	b, err := json.Marshal(body)
	if err != nil {
		return fmt.Errorf("lab multipart encoder: %w", err)
	}
	hdr := textproto.MIMEHeader{}
	hdr.Set("Content-Disposition", `form-data; name="`+MultipartPart+`"`)
	hdr.Set("Content-Type", "application/json")
	w, err := mw.CreatePart(hdr)
	if err != nil {
		return fmt.Errorf("lab multipart encoder: %w", err)
	}
	_, err = w.Write(b)
	return err
}

// goJSON turns a generated Go value into a JSON-marshalable value whose object members carry the design's
// attribute names (t is the design type of v). nil = nothing to write (nil pointer, slice, map, interface).
func goJSON(sp *spec.Spec, t *spec.Type, v reflect.Value, depth int) any {
	if depth > 60 {
		panic("value too deep")
	}
	for v.Kind() == reflect.Ptr {
		if v.IsNil() {
			return nil
		}
		v = v.Elem()
	}
	rt, _ := sp.Resolve(t)
	if rt == nil {
		rt = t
	}
	switch v.Kind() {
	case reflect.Interface:
		if v.IsNil() {
			return nil
		}
		if v.Type().NumMethod() > 0 {
			panic("union attributes are outside the lab's multipart codec")
		}
		return v.Interface()
	case reflect.Struct:
		if rt == nil || rt.Kind != spec.Object {
			panic(fmt.Sprintf("Go struct %s for design type %v", v.Type(), rt))
		}
		o := map[string]any{}
		idx := fieldIndex(v.Type())
		for _, a := range rt.Attrs {
			i, ok := idx[spec.Norm(a.Name)]
			if !ok {
				panic(fmt.Sprintf("%s has no field for attribute %q", v.Type(), a.Name))
			}
			if e := goJSON(sp, a.Type, v.Field(i), depth+1); e != nil {
				o[a.Name] = e
			}
		}
		return o
	case reflect.Slice:
		if v.IsNil() {
			return nil
		}
		if v.Type().Elem().Kind() == reflect.Uint8 {
			return base64.StdEncoding.EncodeToString(v.Bytes())
		}
		var et *spec.Type
		if rt != nil && rt.Kind == spec.Array && rt.Elem != nil {
			et = rt.Elem.Type
		}
		a := make([]any, v.Len())
		for i := range a {
			a[i] = goJSON(sp, et, v.Index(i), depth+1)
		}
		return a
	case reflect.Map:
		if v.IsNil() {
			return nil
		}
		var et *spec.Type
		if rt != nil && rt.Kind == spec.Map && rt.Elem != nil {
			et = rt.Elem.Type
		}
		o := map[string]any{}
		for _, k := range v.MapKeys() {
			o[fmt.Sprint(k.Interface())] = goJSON(sp, et, v.MapIndex(k), depth+1)
		}
		return o
	case reflect.Bool:
		return v.Bool()
	case reflect.String:
		return v.String()
	case reflect.Int, reflect.Int8, reflect.Int16, reflect.Int32, reflect.Int64:
		return v.Int()
	case reflect.Uint, reflect.Uint8, reflect.Uint16, reflect.Uint32, reflect.Uint64:
		return v.Uint()
	case reflect.Float32:
		return float32(v.Float())
	case reflect.Float64:
		return v.Float()
	}
	panic("unsupported Go kind " + v.Kind().String())
}

// clientMethodArgs builds the arguments of a generated client method (`func (c *Client) M() goa.Endpoint`; a
// multipart endpoint's takes the user encoder function).
func (dr *Driver) clientMethodArgs(st *svcState, method string, mt reflect.Type) []reflect.Value {
	if mt.NumIn() == 0 {
		return nil
	}
	var m *spec.Method
	if st.spec != nil {
		for _, x := range st.spec.Methods {
			if x.Name == method {
				m = x
			}
		}
	}
	args := make([]reflect.Value, mt.NumIn())
	for i := range args {
		pt := mt.In(i)
		if isMultipartEncoderT(pt) && m != nil {
			args[i] = multipartEncoder(pt, dr.Spec, m)
		} else {
			args[i] = reflect.Zero(pt)
		}
	}
	return args
}

// mpEndpoints holds the client endpoints of multipart methods, keyed by (service state, method).
var mpEndpoints sync.Map

type mpEndpointKey struct {
	st     *svcState
	method string
}

// clientEndpoint returns the goa.Endpoint of a generated client method. A plain method's is built per case,
// as before. The endpoint of a multipart method — the one kind whose constructor takes user code and builds
// per-endpoint state around it (New<Svc><Method>Encoder) — is built ONCE per service and reused by every
// case, as a program using the generated client does (gen/<svc>/client.go keeps the endpoints it was built
// with): state that leaks from one request of the endpoint into the next is then observable.
func (dr *Driver) clientEndpoint(st *svcState, method string, m reflect.Value) (goa.Endpoint, bool) {
	args := dr.clientMethodArgs(st, method, m.Type())
	if len(args) == 0 {
		ep, ok := m.Call(nil)[0].Interface().(goa.Endpoint)
		return ep, ok
	}
	k := mpEndpointKey{st, method}
	if ep, ok := mpEndpoints.Load(k); ok {
		return ep.(goa.Endpoint), true
	}
	ep, ok := m.Call(args)[0].Interface().(goa.Endpoint)
	if !ok {
		return nil, false
	}
	actual, _ := mpEndpoints.LoadOrStore(k, ep)
	return actual.(goa.Endpoint), true
}
