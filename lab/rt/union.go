package rt

import (
	"fmt"
	"reflect"

	"verif.local/lab/spec"
)

// Unions over HTTP: goa represents a OneOf attribute of a service type as an interface-typed field
// (`Choice interface{ choiceVal() }`); the alternatives are the types of the service package that
// implement the marker method: `type ChoiceFirstName string` for a primitive alternative (named after the
// union attribute and the alternative), the user type itself for a user type alternative. The driver
// learns those types from the registry (Svc.UnionTypes, collected by the harness from service.go) and the
// alternatives' names from the design.

// UnionAltHook, when set, names the alternative a union value holds: field is the Go name of the
// interface-typed struct field, dyn the dynamic type found in it. "" = unknown (the Go type is recorded).
var UnionAltHook func(field string, dyn reflect.Type) string

// unionTable indexes the OneOf attributes of a design by their normalised attribute name (the lab's
// generators give every OneOf attribute of a design a name of its own, as goa names the Go types of the
// alternatives after the attribute and the alternative only).
type unionTable map[string]*spec.Type

func collectUnions(sp *spec.Spec) unionTable {
	tab := unionTable{}
	seen := map[string]bool{}
	var walk func(t *spec.Type, depth int)
	walk = func(t *spec.Type, depth int) {
		if t == nil || depth > 20 {
			return
		}
		switch t.Kind {
		case spec.Ref:
			if seen[t.Ref] {
				return
			}
			seen[t.Ref] = true
			if ut := sp.Type(t.Ref); ut != nil {
				walk(ut.Def, depth+1)
			}
		case spec.Array:
			walk(t.Elem.Type, depth+1)
		case spec.Map:
			walk(t.Elem.Type, depth+1)
		case spec.Object:
			for _, a := range t.Attrs {
				if a.Type != nil && a.Type.Kind == spec.Union {
					tab[spec.Norm(a.Name)] = a.Type
					for _, alt := range a.Type.Attrs {
						walk(alt.Type, depth+1)
					}
					continue
				}
				walk(a.Type, depth+1)
			}
		}
	}
	for _, ut := range sp.Types {
		walk(ut.Def, 0)
	}
	for _, sv := range sp.Services {
		for _, m := range sv.Methods {
			for _, a := range []*spec.Attr{m.Payload, m.Result, m.StreamP} {
				if a != nil {
					walk(a.Type, 0)
				}
			}
			for _, e := range m.Errors {
				walk(e.Type, 0)
			}
		}
	}
	return tab
}

func goBase(t reflect.Type) string {
	if t.Kind() == reflect.Ptr {
		t = t.Elem()
	}
	return spec.Norm(t.Name())
}

// matches reports whether the Go type named base (normalised) is the type goa generates for
// alternative alt of the union attribute named field.
func altMatches(field string, alt *spec.Attr, base string) bool {
	if alt.Type.Kind == spec.Ref && base == spec.Norm(alt.Type.Ref) {
		return true
	}
	return base == spec.Norm(field)+spec.Norm(alt.Name)
}

// installUnionHooks makes the value builder build, and the canonicaliser name, the union values of the
// design's HTTP service types.
func installUnionHooks(sp *spec.Spec, d *Design) {
	tab := collectUnions(sp)
	if len(tab) == 0 {
		return
	}
	var types []reflect.Type
	for _, sv := range d.Services {
		types = append(types, sv.UnionTypes...)
	}
	UnionHook = func(dst reflect.Value, field, alt string, val any) error {
		u := tab[spec.Norm(field)]
		if u == nil {
			return fmt.Errorf("no OneOf attribute %q in the design", field)
		}
		a := u.Attr(alt)
		if a == nil {
			for _, x := range u.Attrs {
				if spec.Norm(x.Name) == spec.Norm(alt) {
					a = x
				}
			}
		}
		if a == nil {
			return fmt.Errorf("OneOf %q has no alternative %q", field, alt)
		}
		for _, t := range types {
			if !t.Implements(dst.Type()) || !altMatches(field, a, goBase(t)) {
				continue
			}
			v, err := Build(t, val)
			if err != nil {
				return err
			}
			if v.Kind() == reflect.Ptr && v.IsNil() {
				v = reflect.New(t.Elem())
			}
			dst.Set(v)
			return nil
		}
		return fmt.Errorf("no Go type for alternative %q of union %q", alt, field)
	}
	UnionAltHook = func(field string, dyn reflect.Type) string {
		u := tab[spec.Norm(field)]
		if u == nil {
			return ""
		}
		base := goBase(dyn)
		for _, a := range u.Attrs {
			if altMatches(field, a, base) {
				return a.Name
			}
		}
		return ""
	}
}
