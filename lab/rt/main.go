package rt

import (
	"bufio"
	"encoding/json"
	"flag"
	"fmt"
	"os"

	"verif.local/lab/spec"
)

// Main is the entry point of every generated driver binary.
func Main(d *Design) {
	specPath := flag.String("spec", "", "spec json")
	casesPath := flag.String("cases", "", "cases jsonl")
	outPath := flag.String("out", "", "events jsonl")
	id := flag.String("id", "", "design id")
	withFmt := flag.Bool("formatter", false, "pass goahttp.NewErrorResponse as error formatter to the generated server (default nil, as `goa example` does)")
	mode := flag.String("mode", "seq", "seq | conc | mounts")
	workers := flag.Int("workers", 8, "client goroutines in conc mode")
	seed := flag.Uint64("seed", 1, "seed for delay injection in conc mode")
	flag.Parse()
	sp, err := spec.Load(*specPath)
	if err != nil {
		fmt.Fprintln(os.Stderr, "driver:", err)
		os.Exit(2)
	}
	dr := NewDriver0(d, sp, *id, !*withFmt)
	if err := dr.OpenLog(*outPath); err != nil {
		fmt.Fprintln(os.Stderr, "driver:", err)
		os.Exit(2)
	}
	defer dr.CloseLog()
	// first record: setup report (mounted routes, setup errors)
	setup := map[string]any{"design": *id, "setup": true, "setup_err": dr.SetupErr, "mounted": map[string][][2]string{}}
	for name := range dr.svcs {
		setup["mounted"].(map[string][][2]string)[name] = dr.Mounted(name)
	}
	b, _ := json.Marshal(setup)
	dr.out.Write(b)
	dr.out.WriteByte('\n')
	if *mode == "mounts" || *casesPath == "" {
		return
	}
	f, err := os.Open(*casesPath)
	if err != nil {
		fmt.Fprintln(os.Stderr, "driver:", err)
		os.Exit(2)
	}
	defer f.Close()
	var cases []*Case
	sc := bufio.NewScanner(f)
	sc.Buffer(make([]byte, 1<<20), 64<<20)
	for sc.Scan() {
		var c Case
		dec := json.NewDecoder(bytesReader(sc.Bytes()))
		if err := dec.Decode(&c); err != nil {
			fmt.Fprintln(os.Stderr, "driver: bad case:", err)
			os.Exit(2)
		}
		cases = append(cases, &c)
	}
	switch *mode {
	case "conc":
		dr.RunConcurrent(cases, *workers, *seed)
	default:
		for _, c := range cases {
			// log the case id before running so that a crash names its case
			fmt.Fprintf(os.Stderr, "case %d\n", c.ID)
			ex := dr.Run(c)
			dr.Log(ex)
		}
	}
}

// NewDriver0 builds a driver with options.
func NewDriver0(d *Design, sp *spec.Spec, id string, nilFormatter bool) *Driver {
	dr := &Driver{Spec: sp, DesignID: id, svcs: map[string]*svcState{}, SetupErr: map[string]string{}, NilFormatter: nilFormatter}
	installUnionHooks(sp, d) // OneOf attributes of the service types (union.go)
	for _, sv := range d.Services {
		st := &svcState{svc: sv, payloadT: mapT(), hasRes: map[string]bool{}, goName: map[string]string{}}
		for _, ss := range sp.Services {
			if ss.Name == sv.Name {
				st.spec = ss
			}
		}
		dr.svcs[sv.Name] = st
		if err := dr.setup(st); err != nil {
			dr.SetupErr[sv.Name] = err.Error()
		}
	}
	return dr
}
