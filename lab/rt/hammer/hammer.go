// Package hammer drives the runtime helpers that generated servers share —
// response/error encoders, the muxer after mount (ServeHTTP, Vars,
// ResolvePattern), the pattern validator, the samplers — from many goroutines
// at once under the race detector. Every operation carries its own expected
// result (echo discipline): a result computed from another goroutine's input is
// an isolation violation.
package hammer

import (
	"bytes"
	"context"
	"encoding/json"
	"encoding/xml"
	"errors"
	"flag"
	"fmt"
	"net/http"
	"net/http/httptest"
	"os"
	"regexp"
	"runtime"
	"strings"
	"sync"
	"sync/atomic"

	goahttp "goa.design/goa/v3/http"
	httpmw "goa.design/goa/v3/http/middleware"
	"goa.design/goa/v3/middleware"
	goa "goa.design/goa/v3/pkg"

	"verif.local/lab/vc"
)

type echo struct {
	XMLName xml.Name `json:"-" xml:"echo"`
	Token   string   `json:"token" xml:"token"`
	N       int      `json:"n" xml:"n"`
}

// Result is written as JSON to --out.
type Result struct {
	Ops        int64            `json:"ops"`
	Goroutines int              `json:"goroutines"`
	PerKind    map[string]int64 `json:"per_kind"`
	Violations []Violation      `json:"violations"`
}

type Violation struct {
	Key  string `json:"key"`
	What string `json:"what"`
}

// Main is the entry point of the hammer binary.
func Main() {
	out := flag.String("out", "", "result json")
	workers := flag.Int("workers", 16, "goroutines")
	ops := flag.Int("ops", 2000, "operations per goroutine")
	seed := flag.Uint64("seed", 1, "seed")
	flag.Parse()
	res := run(*workers, *ops, *seed)
	b, _ := json.MarshalIndent(res, "", " ")
	if *out != "" {
		_ = os.WriteFile(*out, b, 0o644)
	} else {
		fmt.Println(string(b))
	}
}

func run(workers, ops int, seed uint64) *Result {
	res := &Result{Goroutines: workers, PerKind: map[string]int64{}}
	var mu sync.Mutex
	viol := func(key, format string, a ...any) {
		mu.Lock()
		if len(res.Violations) < 50 {
			res.Violations = append(res.Violations, Violation{key, fmt.Sprintf(format, a...)})
		}
		mu.Unlock()
	}
	var kinds [8]atomic.Int64
	// goa's request-ID and trace middlewares in front of one handler, built once ("once handlers and middlewares
	// have been mounted"): what they put into the request context is a function of that request alone
	mwHandler := httpmw.RequestID(httpmw.UseXRequestIDHeaderOption(true))(
		httpmw.Trace(httpmw.SamplingPercent(100),
			httpmw.DiscardFromTrace(regexp.MustCompile(`^/healthz(/.*)?$`)),
			httpmw.DiscardFromTrace(regexp.MustCompile(`^/(live|ready)z?/[a-z0-9-]+$`)))(
			http.HandlerFunc(func(w http.ResponseWriter, r *http.Request) {
				str := func(k any) string { v, _ := r.Context().Value(k).(string); return v }
				b, _ := json.Marshal(map[string]string{"trace": str(middleware.TraceIDKey), "span": str(middleware.TraceSpanIDKey),
					"parent": str(middleware.TraceParentSpanIDKey), "reqid": str(middleware.RequestIDKey), "token": r.Header.Get("X-Token")})
				w.Write(b)
			})))
	// shared state, mounted once before serving
	mux := goahttp.NewMuxer()
	// a pre-routing middleware (as goa's Debug/Trace middlewares are mounted) asks the
	// muxer for the variables and the pattern of a request that has not been routed yet
	mux.Use(func(next http.Handler) http.Handler {
		return http.HandlerFunc(func(w http.ResponseWriter, r *http.Request) {
			vars := mux.Vars(r)
			pat := mux.ResolvePattern(r)
			runtime.Gosched()
			b, _ := json.Marshal(vars)
			w.Header().Set("X-Pre-Vars", string(b))
			w.Header().Set("X-Pre-Pattern", pat)
			next.ServeHTTP(w, r)
		})
	})
	patterns := []string{"/a/{x}", "/b/{x}/c/{y}", "/files/{*path}", "/lit"}
	for _, p := range patterns {
		p := p
		mux.Handle("GET", p, func(w http.ResponseWriter, r *http.Request) {
			vars := mux.Vars(r)
			b, _ := json.Marshal(map[string]any{"pattern": mux.ResolvePattern(r), "vars": vars, "token": r.Header.Get("X-Token")})
			w.Write(b)
		})
	}
	errEncNil := goahttp.ErrorEncoder(goahttp.ResponseEncoder, nil)
	errEncFmt := goahttp.ErrorEncoder(goahttp.ResponseEncoder, goahttp.NewErrorResponse)
	fixed := middleware.NewFixedSampler(50)
	adaptive := middleware.NewAdaptiveSampler(100, 10)
	pats := []string{`^[a-z]+$`, `^[0-9]{2,4}$`, `^g[0-9]+-`, `[A-Z][a-z]`, `^(foo|bar)[0-9]?$`}
	var wg sync.WaitGroup
	for g := 0; g < workers; g++ {
		wg.Add(1)
		go func(g int) {
			defer wg.Done()
			r := vc.NewRand(seed, uint64(g))
			for i := 0; i < ops; i++ {
				token := fmt.Sprintf("g%d-%d", g, i)
				switch k := r.Intn(7); k {
				case 0: // muxer dispatch + Vars + ResolvePattern
					kinds[0].Add(1)
					var url, wantPat string
					want := map[string]string{}
					switch r.Intn(4) {
					case 0:
						url, wantPat = "/a/"+token, "/a/{x}"
						want["x"] = token
					case 1:
						url, wantPat = "/b/"+token+"/c/y"+token, "/b/{x}/c/{y}"
						want["x"], want["y"] = token, "y"+token
					case 2:
						url, wantPat = "/files/d/"+token+"/f.txt", "/files/{*path}"
						want["path"] = "d/" + token + "/f.txt"
					case 3:
						url, wantPat = "/lit", "/lit"
					}
					req := httptest.NewRequest("GET", url, nil)
					req.Header.Set("X-Token", token)
					rec := httptest.NewRecorder()
					mux.ServeHTTP(rec, req)
					var got struct {
						Pattern string            `json:"pattern"`
						Vars    map[string]string `json:"vars"`
						Token   string            `json:"token"`
					}
					if err := json.Unmarshal(rec.Body.Bytes(), &got); err != nil || rec.Code != 200 {
						viol("mux:bad-response", "GET %s -> %d %q", url, rec.Code, rec.Body.String())
						continue
					}
					if got.Pattern != wantPat || got.Token != token {
						viol("mux:isolation:pattern-or-token", "GET %s: pattern %q token %q", url, got.Pattern, got.Token)
					}
					for k, v := range want {
						if got.Vars[k] != v {
							viol("mux:isolation:vars", "GET %s: var %s=%q want %q", url, k, got.Vars[k], v)
						}
					}
					pre := map[string]string{}
					_ = json.Unmarshal([]byte(rec.Header().Get("X-Pre-Vars")), &pre)
					if pp := rec.Header().Get("X-Pre-Pattern"); pp != wantPat {
						viol("mux:isolation:pre-routing-pattern", "GET %s: a Use'd middleware resolved pattern %q want %q", url, pp, wantPat)
					}
					if len(pre) != len(want) {
						viol("mux:isolation:pre-routing-vars", "GET %s: a Use'd middleware saw vars %v want %v", url, pre, want)
					}
					for k, v := range want {
						if pre[k] != v {
							viol("mux:isolation:pre-routing-vars", "GET %s: a Use'd middleware saw var %s=%q want %q", url, k, pre[k], v)
						}
					}
				case 1: // response encoder negotiation
					kinds[1].Add(1)
					// vendor types travel both as Accept values (not negotiable verbatim: JSON) and as content
					// types fixed in a design (honoured by their suffix): what one request negotiated must not
					// decide what another request's designed type means
					vendor := []string{"application/vnd.lab.item+xml", "application/vnd.lab.item+json", "application/vnd.lab.item+gob", "application/vnd.lab.item"}
					accept := []string{"", "application/json", "application/xml", "application/gob", "text/plain"}[r.Intn(4)]
					designed := ""
					switch r.Intn(4) {
					case 0:
						accept = vendor[r.Intn(len(vendor))]
					case 1:
						designed = vendor[r.Intn(len(vendor))]
					}
					ctx := context.WithValue(context.Background(), goahttp.AcceptTypeKey, accept)
					if designed != "" {
						ctx = context.WithValue(ctx, goahttp.ContentTypeKey, designed)
					}
					rec := httptest.NewRecorder()
					v := &echo{Token: token, N: i}
					if err := goahttp.ResponseEncoder(ctx, rec).Encode(v); err != nil {
						viol("encoder:error", "accept %q designed %q: %v", accept, designed, err)
						continue
					}
					ct := rec.Header().Get("Content-Type")
					wantCT := "application/json"
					if accept == "application/xml" || accept == "application/gob" {
						wantCT = accept
					}
					if designed != "" {
						wantCT = designed
						// the body is written in the format the designed type names
						body := rec.Body.Bytes()
						switch {
						case strings.HasSuffix(designed, "+xml") && !bytes.HasPrefix(bytes.TrimSpace(body), []byte("<")):
							viol("encoder:isolation:designed-type-format", "designed %q: body %q is not XML", designed, body)
						case (strings.HasSuffix(designed, "+json") || designed == "application/vnd.lab.item") && !bytes.HasPrefix(bytes.TrimSpace(body), []byte("{")):
							viol("encoder:isolation:designed-type-format", "designed %q: body %q is not JSON", designed, body)
						}
					}
					if !strings.HasPrefix(ct, wantCT) {
						viol("encoder:isolation:content-type", "accept %q designed %q negotiated %q", accept, designed, ct)
					}
					if strings.HasSuffix(wantCT, "+gob") {
						wantCT = "application/gob" // the token cannot be searched in a gob body either
					}
					if wantCT != "application/gob" && !bytes.Contains(rec.Body.Bytes(), []byte(token)) {
						viol("encoder:isolation:body", "body %q lacks own token %s", rec.Body.String(), token)
					}
				case 2: // error encoder
					kinds[2].Add(1)
					enc := errEncNil
					if r.Bool() {
						enc = errEncFmt
					}
					rec := httptest.NewRecorder()
					var err error = goa.PermanentError("bad_"+token, "msg %s", token)
					wantStatus := 400
					if r.Bool() {
						err = errors.New("plain " + token)
						wantStatus = 500
					}
					ctx := context.WithValue(context.Background(), goahttp.AcceptTypeKey, "application/json")
					if e := enc(ctx, rec, err); e != nil {
						viol("error-encoder:error", "%v", e)
						continue
					}
					if rec.Code != wantStatus || !bytes.Contains(rec.Body.Bytes(), []byte(token)) {
						viol("error-encoder:isolation", "status %d body %q for own token %s (want %d)", rec.Code, rec.Body.String(), token, wantStatus)
					}
				case 3: // pattern validation through the shared cache
					kinds[3].Add(1)
					p := pats[r.Intn(len(pats))]
					val := []string{token, "abc", "123", "Ab", "foo1", "!"}[r.Intn(6)]
					err := goa.ValidatePattern("v", val, p)
					want := matchRef(p, val)
					if (err == nil) != want {
						viol("validate-pattern:verdict", "pattern %q value %q: got match=%v want %v", p, val, err == nil, want)
					}
				case 4: // samplers
					kinds[4].Add(1)
					_ = fixed.Sample()
					_ = adaptive.Sample()
				case 6: // request-ID + trace middlewares in front of a handler
					kinds[6].Add(1)
					path := "/work/" + token
					discardedPath := false
					switch r.Intn(4) {
					case 0:
						path, discardedPath = "/healthz/"+token, true
					case 1:
						path, discardedPath = "/ready/"+token, true
					}
					req := httptest.NewRequest("GET", path, nil)
					req.Header.Set("X-Token", token)
					inbound := r.Intn(4) == 0
					if inbound {
						req.Header.Set(httpmw.TraceIDHeader, "T"+token)
						req.Header.Set(httpmw.ParentSpanIDHeader, "P"+token)
					}
					trusted := r.Intn(3) == 0
					if trusted {
						req.Header.Set("X-Request-Id", "R"+token)
					}
					rec := httptest.NewRecorder()
					mwHandler.ServeHTTP(rec, req)
					var got map[string]string
					if err := json.Unmarshal(rec.Body.Bytes(), &got); err != nil || got["token"] != token {
						viol("middleware:bad-response", "GET %s -> %d %q", path, rec.Code, rec.Body.String())
						continue
					}
					switch {
					case inbound && (got["trace"] != "T"+token || got["parent"] != "P"+token || got["span"] == ""):
						viol("middleware:isolation:inbound-trace", "GET %s with TraceID T%s: context has trace %q parent %q span %q", path, token, got["trace"], got["parent"], got["span"])
					case !inbound && discardedPath && got["trace"] != "":
						viol("middleware:isolation:discarded-path-traced", "GET %s (discarded from tracing) got trace %q", path, got["trace"])
					case !inbound && !discardedPath && (got["trace"] == "" || got["span"] == ""):
						viol("middleware:isolation:sampled-request-not-traced", "GET %s (sampling 100%%, no discard pattern matches) got trace %q span %q", path, got["trace"], got["span"])
					}
					if trusted && got["reqid"] != "R"+token || !trusted && got["reqid"] == "" {
						viol("middleware:isolation:request-id", "GET %s (X-Request-Id trusted=%v): request ID %q", path, trusted, got["reqid"])
					}
				case 5: // format validators (stateless; must stay so)
					kinds[5].Add(1)
					if err := goa.ValidateFormat("v", "127.0.0.1", goa.FormatIPv4); err != nil {
						viol("validate-format:verdict", "127.0.0.1 rejected: %v", err)
					}
					if err := goa.ValidateFormat("v", token, goa.FormatIPv4); err == nil {
						viol("validate-format:verdict", "%s accepted as ipv4", token)
					}
				}
				atomic.AddInt64(&res.Ops, 1)
			}
		}(g)
	}
	wg.Wait()
	for i, n := range []string{"mux", "response-encoder", "error-encoder", "validate-pattern", "samplers", "validate-format", "http-middlewares"} {
		res.PerKind[n] = kinds[i].Load()
	}
	return res
}
