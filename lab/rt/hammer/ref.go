package hammer

import "regexp"

var refCache = map[string]*regexp.Regexp{}

func init() {
	for _, p := range []string{`^[a-z]+$`, `^[0-9]{2,4}$`, `^g[0-9]+-`, `[A-Z][a-z]`, `^(foo|bar)[0-9]?$`} {
		refCache[p] = regexp.MustCompile(p)
	}
}

// matchRef is the reference verdict (stdlib regexp compiled up front, read-only afterwards).
func matchRef(p, v string) bool { return refCache[p].MatchString(v) }
