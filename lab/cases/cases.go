// Package cases builds the scripted exchanges (rt.Case) for each runtime check
// from the spec alone.
package cases

import (
	"strings"

	"verif.local/lab/rt"
	"verif.local/lab/spec"
	"verif.local/lab/valgen"
	"verif.local/lab/vc"
	"verif.local/lab/vtree"
)

// LocOf returns the wire location class of a top-level payload attribute.
func LocOf(h *spec.HTTP, attr string) valgen.Loc {
	if h == nil {
		return valgen.Body
	}
	for _, l := range h.Path {
		if l.Attr == attr {
			return valgen.Path
		}
	}
	for _, l := range h.Query {
		if l.Attr == attr {
			return valgen.Query
		}
	}
	for _, l := range h.Headers {
		if l.Attr == attr {
			return valgen.Header
		}
	}
	for _, l := range h.Cookies {
		if l.Attr == attr {
			return valgen.Cookie
		}
	}
	return valgen.Body
}

// RespLocOf returns the location class of a result attribute for a response.
func RespLocOf(r *spec.HTTPResponse, attr string) valgen.Loc {
	if r == nil {
		return valgen.Body
	}
	for _, l := range r.Headers {
		if l.Attr == attr {
			return valgen.Header
		}
	}
	for _, l := range r.Cookies {
		if l.Attr == attr {
			return valgen.Cookie
		}
	}
	return valgen.Body
}

// RespCarried reports whether the response carries the result attribute at all: with an explicit body (Body(Empty),
// Body("attr")) only the attributes mapped to headers or cookies, the body attribute and the tag attribute (which the
// client restores from the selected response) travel; the others are dropped by design.
func RespCarried(r *spec.HTTPResponse, attr string) bool {
	if r == nil || r.Body == "" || r.Body == "custom" {
		return true
	}
	if RespLocOf(r, attr) != valgen.Body || attr == r.TagAttr {
		return true
	}
	return r.Body == "attr:"+attr
}

var credPool = []string{"tok123", "abc.def.ghi", "x-y_z", "with space", "Bearer already", "ünï-tok", "a:b"}

// CredPool is the credential alphabet (the first three are blank-free ASCII tokens).
var CredPool = credPool

// TransportSafe reports whether a value can be carried verbatim by net/http in the given location
// (limits that are net/http's, not goa's: DESIGN §4).
func TransportSafe(loc valgen.Loc, v any) bool {
	switch x := v.(type) {
	case []any:
		for _, e := range x {
			if !TransportSafe(loc, e) {
				return false
			}
			// HTTP list syntax cannot carry commas inside a list member
			if loc == valgen.Header && vtree.Kind(e) == "s" && strings.Contains(vtree.Text(e), ",") {
				return false
			}
		}
		return true
	}
	if mm, ok := vtree.IsMap(v); ok {
		if loc == valgen.Body {
			return true
		}
		for k, e := range mm {
			// goa's documented spelling of a map in the query string is name[key]=value: a key holding a
			// bracket (or nothing) cannot be spelled that way
			kt := vtree.Text(k)
			if kt == "" || strings.ContainsAny(kt, "[]") || !TransportSafe(loc, k) || !TransportSafe(loc, e) {
				return false
			}
			if arr, isArr := e.([]any); isArr && len(arr) == 0 {
				return false // an entry without values has no spelling either
			}
		}
		return true
	}
	if vtree.Kind(v) != "s" && vtree.Kind(v) != "y" {
		return true
	}
	t := vtree.Text(v)
	if vtree.Kind(v) == "y" {
		if loc == valgen.Body {
			return true
		}
		t = TextOf(v) // bytes outside the body travel verbatim as text
		if t == "" {
			return false // no bytes outside the body is absence, not a value
		}
	}
	switch loc {
	case valgen.Cookie:
		for i := 0; i < len(t); i++ {
			c := t[i]
			ok := c == 0x21 || (c >= 0x23 && c <= 0x2B) || (c >= 0x2D && c <= 0x3A) || (c >= 0x3C && c <= 0x5B) || (c >= 0x5D && c <= 0x7E)
			if !ok {
				return false
			}
		}
	case valgen.Header:
		if t != strings.TrimSpace(t) {
			return false
		}
		for i := 0; i < len(t); i++ {
			if t[i] < 0x20 && t[i] != '\t' || t[i] == 0x7f {
				return false
			}
		}
	case valgen.Path, valgen.Query:
		if strings.ContainsRune(t, 0) {
			return false
		}
	}
	return true
}

// validAt draws a valid, transport-safe value (nil if none found).
func validAt(g *valgen.G, a *spec.Attr, loc valgen.Loc) any {
	for i := 0; i < 30; i++ {
		v := g.Valid(a.Type, a.Val, loc, 1)
		if v != nil && TransportSafe(loc, v) {
			return v
		}
	}
	return nil
}

// Payload draws a valid payload for a method. mode: 0 minimal, 1 full, else random.
func Payload(sp *spec.Spec, m *spec.Method, r *vc.Rand, mode int) (tree any, none bool) {
	return PayloadAlt(sp, m, r, mode, 0)
}

// PayloadAlt is Payload with a systematic choice of union alternatives (valgen.G.AltRot; 0 = random).
func PayloadAlt(sp *spec.Spec, m *spec.Method, r *vc.Rand, mode, altRot int) (tree any, none bool) {
	if m.Payload == nil {
		return nil, true
	}
	g := &valgen.G{S: sp, R: r, Minimal: mode == 0, Full: mode == 1, AltRot: altRot}
	rt, _ := sp.Resolve(m.Payload.Type)
	if rt == nil {
		rt = m.Payload.Type
	}
	if rt.Kind != spec.Object {
		loc := valgen.Body
		if h := m.HTTP; h != nil {
			switch {
			case len(h.Path) > 0 && h.Path[0].Attr == "":
				loc = valgen.Path
			case len(h.Query) > 0 && h.Query[0].Attr == "":
				loc = valgen.Query
			case len(h.Headers) > 0 && h.Headers[0].Attr == "":
				loc = valgen.Header
			}
		}
		v := g.Valid(m.Payload.Type, m.Payload.Val, loc, 0)
		for i := 0; i < 30 && !TransportSafe(loc, v); i++ {
			v = g.Valid(m.Payload.Type, m.Payload.Val, loc, 0)
		}
		if !TransportSafe(loc, v) {
			return nil, false
		}
		if loc == valgen.Path && vtree.Kind(v) == "s" && vtree.Text(v) == "" {
			v = vtree.S("p")
		}
		if (loc == valgen.Header || loc == valgen.Query) && vtree.Kind(v) == "s" && vtree.Text(v) == "" {
			v = vtree.S("h") // an empty value outside the body is absence
		}
		return v, false
	}
	o := map[string]any{}
	for _, a := range rt.Attrs {
		loc := LocOf(m.HTTP, a.Name)
		// a primitive with a default has no "unset" in its Go field (the zero value is sent); a collection has (nil)
		art, _ := sp.Resolve(a.Type)
		collection := art != nil && (art.Kind == spec.Array || art.Kind == spec.Map)
		req := rt.IsRequired(a.Name) || loc == valgen.Path || a.HasDef && !collection
		if a.Sec != "" {
			// credentials are always supplied in delivery checks
			o[a.Name] = vtree.S(credPool[r.Intn(3)]) // blank-free tokens: credential alphabets belong to C06
			continue
		}
		if !req && (g.Minimal || (!g.Full && r.Chance(1, 2))) {
			continue
		}
		v := validAt(g, a, loc)
		if v == nil {
			if req {
				return nil, false // no transport-safe valid value: case dropped by the caller
			}
			continue
		}
		if s, ok := v.(string); ok && vtree.Kind(s) == "s" && vtree.Text(s) == "" {
			switch {
			case loc == valgen.Path:
				continue // unreachable: path strings are non-empty by pool
			case req && loc != valgen.Body:
				// required + empty string in a textual location is indistinguishable from missing: not generated
				if !valgen.Satisfiable(spec.String, &spec.Val{}) {
					continue
				}
				v = nonEmpty(g, a, loc)
			}
		}
		if arr, ok := v.([]any); ok && len(arr) == 0 && loc != valgen.Body {
			if !req {
				continue // an empty collection outside the body is absence
			}
			g.MinElems = 1
			arr, _ = g.Valid(a.Type, a.Val, loc, 1).([]any)
			g.MinElems = 0
			if len(arr) == 0 {
				if rt.IsRequired(a.Name) {
					// required, and only the empty collection satisfies the design: it cannot be spelled outside
					// the body, so no valid request exists for this method
					return nil, false
				}
				continue
			}
			v = arr
		}
		if mm, ok := vtree.IsMap(v); ok && len(mm) == 0 && loc != valgen.Body {
			if !req {
				continue // an empty map outside the body is absence
			}
			found := false
			for i := 0; i < 40 && !found; i++ {
				w := g.Valid(a.Type, a.Val, loc, 1)
				if wm, ok := vtree.IsMap(w); ok && len(wm) > 0 && TransportSafe(loc, w) {
					v, found = w, true
				}
			}
			if !found {
				return nil, false
			}
		}
		o[a.Name] = v
	}
	return o, false
}

func nonEmpty(g *valgen.G, a *spec.Attr, loc valgen.Loc) any {
	for i := 0; i < 40; i++ {
		v := g.Valid(a.Type, a.Val, loc, 1)
		if vtree.Text(v) != "" && TransportSafe(loc, v) {
			return v
		}
	}
	return vtree.S("x")
}

// Result draws a valid result value and the response it selects.
func Result(sp *spec.Spec, m *spec.Method, r *vc.Rand, mode int) any {
	return ResultAlt(sp, m, r, mode, 0)
}

// ResultAlt is Result with a systematic choice of union alternatives (valgen.G.AltRot; 0 = random).
func ResultAlt(sp *spec.Spec, m *spec.Method, r *vc.Rand, mode, altRot int) any {
	if m.Result == nil {
		return nil
	}
	g := &valgen.G{S: sp, R: r, Minimal: mode == 0, Full: mode == 1, AltRot: altRot}
	rt, _ := sp.Resolve(m.Result.Type)
	if rt == nil {
		rt = m.Result.Type
	}
	if rt.Kind != spec.Object {
		v := g.Valid(m.Result.Type, m.Result.Val, valgen.Body, 0)
		return v
	}
	var resp *spec.HTTPResponse
	if m.HTTP != nil && len(m.HTTP.Responses) > 0 {
		resp = m.HTTP.Responses[len(m.HTTP.Responses)-1]
	}
	o := map[string]any{}
	for _, a := range rt.Attrs {
		loc := RespLocOf(resp, a.Name)
		req := rt.IsRequired(a.Name) || a.HasDef
		if !req && (g.Minimal || (!g.Full && r.Chance(1, 2))) {
			continue
		}
		v := validAt(g, a, loc)
		if v == nil {
			continue
		}
		if vtree.Kind(v) == "s" && vtree.Text(v) == "" && req && loc != valgen.Body {
			v = nonEmpty(g, a, loc)
		}
		if arr, ok := v.([]any); ok && len(arr) == 0 && loc != valgen.Body {
			if !req {
				continue
			}
			g.MinElems = 1
			arr, _ = g.Valid(a.Type, a.Val, loc, 1).([]any)
			g.MinElems = 0
			if len(arr) == 0 {
				continue
			}
			v = arr
		}
		o[a.Name] = v
	}
	// tagged responses: sometimes select the tagged alternative
	if m.HTTP != nil {
		var tagged []*spec.HTTPResponse
		for _, tr := range m.HTTP.Responses {
			if tr.TagAttr != "" {
				tagged = append(tagged, tr)
			}
		}
		if len(tagged) > 0 && r.Chance(2, 3) {
			tr := tagged[r.Intn(len(tagged))]
			o[tr.TagAttr] = vtree.S(tr.TagValue)
		}
	}
	return o
}

// Delivery builds the C02/C03 case list of a method: valid payloads, valid results.
func Delivery(sp *spec.Spec, sv *spec.Service, m *spec.Method, r *vc.Rand, n int, startID int) []*rt.Case {
	var out []*rt.Case
	for i := 0; i < n; i++ {
		rr := r.Fork(uint64(i))
		c := &rt.Case{ID: startID + i, Svc: sv.Name, Method: m.Name, Class: []string{"minimal", "full"}[min(i, 1)]}
		if i > 1 {
			c.Class = "random"
		}
		c.Sent, c.NoPay = PayloadAlt(sp, m, rr, i, i+1) // every alternative of every union in turn
		if c.Sent == nil && !c.NoPay && m.Payload != nil {
			continue // no transport-safe valid payload for this draw
		}
		if i%4 == 3 && m.HTTP != nil && !c.NoPay {
			// hand-encoded request (the lab's own wire encoder): the server must understand the design's
			// dialect, not just its own client's
			if rq, err := Raw(sp, sv, m, c.Sent, i%len(m.HTTP.Routes)); err == nil {
				c.Raw = rq
				c.Class += "-raw"
			}
		}
		c.Outcome = &rt.Outcome{Kind: "result", Result: ResultAlt(sp, m, rr.Fork(99), (i+1)%3, i+1)}
		if v := viewsOf(sp, m); len(v) > 0 {
			c.Outcome.View = v[rr.Intn(len(v))]
		}
		out = append(out, c)
	}
	return out
}

func viewsOf(sp *spec.Spec, m *spec.Method) []string {
	if m.Result == nil {
		return nil
	}
	t := m.Result.Type
	if t.Kind == spec.Array && t.Collection {
		t = t.Elem.Type
	}
	_, ut := sp.Resolve(t)
	if ut == nil || ut.Kind != "result" {
		return nil
	}
	if m.Result.View != "" {
		return []string{m.Result.View}
	}
	var vs []string
	for _, v := range ut.Views {
		vs = append(vs, v.Name)
	}
	return vs
}
