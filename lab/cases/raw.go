package cases

import (
	"encoding/base64"
	"encoding/json"
	"fmt"
	"net/url"
	"sort"
	"strings"

	"verif.local/lab/rt"
	"verif.local/lab/spec"
	"verif.local/lab/vtree"
)

// TextOf renders a leaf in its canonical textual wire form.
func TextOf(v any) string {
	switch vtree.Kind(v) {
	case "y":
		b, _ := base64.StdEncoding.DecodeString(vtree.Text(v))
		return string(b)
	case "a":
		var x any
		_ = json.Unmarshal([]byte(vtree.Text(v)), &x)
		return fmt.Sprint(x)
	}
	return vtree.Text(v)
}

// ToJSON converts a tree into a generic JSON value (object keys = attribute names).
func ToJSON(v any) any {
	switch x := v.(type) {
	case nil:
		return nil
	case []any:
		o := make([]any, len(x))
		for i := range x {
			o[i] = ToJSON(x[i])
		}
		return o
	case map[string]any:
		if m, ok := vtree.IsMap(v); ok {
			o := map[string]any{}
			for k, e := range m {
				o[TextOf(k)] = ToJSON(e)
			}
			return o
		}
		if alt, uv, ok := vtree.IsUnion(v); ok {
			return UnionJSON(alt, uv) // union.go: goa's documented {"Type": alternative, "Value": "<JSON text>"} object
		}
		o := map[string]any{}
		for k, e := range x {
			if e != nil {
				o[k] = ToJSON(e)
			}
		}
		return o
	}
	switch vtree.Kind(v) {
	case "b":
		return vtree.Text(v) == "true"
	case "i", "u", "f", "f32":
		return json.Number(vtree.Text(v))
	case "s":
		return vtree.Text(v)
	case "y":
		return vtree.Text(v) // base64 already
	case "a":
		return json.RawMessage(vtree.Text(v))
	case "raw":
		// deliberately malformed JSON fragment (wrong kind injection)
		return json.RawMessage(vtree.Text(v))
	}
	return nil
}

// FullPath returns the full path template of route i of a method.
func FullPath(sp *spec.Spec, sv *spec.Service, m *spec.Method, i int) string {
	p := sp.API.BasePath + sv.BasePath + m.HTTP.Routes[i].Path
	if p == "" {
		p = "/"
	}
	return p
}

// Raw encodes a payload tree as an HTTP request straight from the spec: the
// lab's own wire encoder, independent of the generated client.
func Raw(sp *spec.Spec, sv *spec.Service, m *spec.Method, tree any, route int) (*rt.RawReq, error) {
	h := m.HTTP
	if h == nil {
		return nil, fmt.Errorf("no HTTP mapping")
	}
	if route >= len(h.Routes) {
		route = 0
	}
	req := &rt.RawReq{Method: h.Routes[route].Verb, Header: map[string][]string{}}
	path := FullPath(sp, sv, m, route)
	obj, _ := tree.(map[string]any)
	prt, _ := sp.Resolve(payloadType(m))
	isObj := prt != nil && prt.Kind == spec.Object
	get := func(l spec.Loc) (any, bool) {
		if !isObj || l.Attr == "" {
			return tree, tree != nil
		}
		v, ok := obj[l.Attr]
		return v, ok && v != nil
	}
	mapped := map[string]bool{}
	for _, l := range h.Path {
		mapped[l.Attr] = true
		v, ok := get(l)
		if !ok {
			return nil, fmt.Errorf("path parameter %s absent", l.WireName())
		}
		path = strings.ReplaceAll(path, "{"+l.WireName()+"}", url.PathEscape(TextOf(v)))
		if strings.Contains(path, "{*"+l.WireName()+"}") {
			// catch-all: every '/'-separated piece is escaped on its own
			parts := strings.Split(TextOf(v), "/")
			for i := range parts {
				parts[i] = url.PathEscape(parts[i])
			}
			path = strings.ReplaceAll(path, "{*"+l.WireName()+"}", strings.Join(parts, "/"))
		}
	}
	q := url.Values{}
	for _, l := range h.Query {
		mapped[l.Attr] = true
		v, ok := get(l)
		if !ok {
			continue
		}
		if mm, isMap := vtree.IsMap(v); isMap {
			// name[key]=value, one pair per value
			for k, e := range mm {
				name := l.WireName() + "[" + TextOf(k) + "]"
				if arr, isArr := e.([]any); isArr {
					for _, x := range arr {
						q.Add(name, TextOf(x))
					}
				} else {
					q.Add(name, TextOf(e))
				}
			}
		} else if arr, isArr := v.([]any); isArr {
			for _, e := range arr {
				q.Add(l.WireName(), TextOf(e))
			}
		} else {
			q.Add(l.WireName(), TextOf(v))
		}
	}
	for _, l := range h.Headers {
		mapped[l.Attr] = true
		v, ok := get(l)
		if !ok {
			continue
		}
		name := l.WireName()
		if arr, isArr := v.([]any); isArr {
			for _, e := range arr {
				req.Header[name] = append(req.Header[name], TextOf(e))
			}
		} else {
			req.Header[name] = append(req.Header[name], TextOf(v))
		}
	}
	var cookies []string
	for _, l := range h.Cookies {
		mapped[l.Attr] = true
		v, ok := get(l)
		if !ok {
			continue
		}
		cookies = append(cookies, l.WireName()+"="+TextOf(v))
	}
	if len(cookies) > 0 {
		req.Header["Cookie"] = []string{strings.Join(cookies, "; ")}
	}
	// security attributes travelling implicitly
	if isObj {
		var user, pass *string
		for _, a := range prt.Attrs {
			if a.Sec == "" || mapped[a.Name] {
				continue
			}
			v, ok := obj[a.Name]
			if !ok || v == nil {
				mapped[a.Name] = true
				continue
			}
			t := TextOf(v)
			switch a.Sec {
			case "username":
				user = &t
				mapped[a.Name] = true
			case "password":
				pass = &t
				mapped[a.Name] = true
			case "token", "accesstoken":
				req.Header["Authorization"] = []string{"Bearer " + t}
				mapped[a.Name] = true
			}
		}
		if user != nil || pass != nil {
			u, p := "", ""
			if user != nil {
				u = *user
			}
			if pass != nil {
				p = *pass
			}
			req.Header["Authorization"] = []string{"Basic " + base64.StdEncoding.EncodeToString([]byte(u+":"+p))}
		}
	}
	// body
	var body any
	hasBody := false
	switch {
	case h.Body == "empty":
	case strings.HasPrefix(h.Body, "attr:"):
		if v, ok := obj[strings.TrimPrefix(h.Body, "attr:")]; ok && v != nil {
			body, hasBody = ToJSON(v), true
		}
	case isObj:
		o := map[string]any{}
		n := 0
		for _, a := range prt.Attrs {
			if mapped[a.Name] {
				continue
			}
			n++
			if v, ok := obj[a.Name]; ok && v != nil {
				o[a.Name] = ToJSON(v)
			}
		}
		if n > 0 {
			body, hasBody = o, true
		}
	default:
		if len(h.Path)+len(h.Query)+len(h.Headers) == 0 && tree != nil {
			body, hasBody = ToJSON(tree), true
		}
	}
	if hasBody {
		b, err := json.Marshal(body)
		if err != nil {
			return nil, err
		}
		req.Body = b
		req.Header["Content-Type"] = []string{"application/json"}
		if h.Multipart {
			// the lab's multipart codec: the JSON of the body attributes is the content of the one part (multipart.go)
			var ct string
			req.Body, ct = MultipartBody(b)
			req.Header["Content-Type"] = []string{ct}
		}
	}
	req.URL = "http://lab.local" + path
	if len(q) > 0 {
		req.URL += "?" + q.Encode()
	}
	return req, nil
}

func payloadType(m *spec.Method) *spec.Type {
	if m.Payload == nil {
		return nil
	}
	return m.Payload.Type
}

// BodyAttrs lists the payload attributes that travel in the JSON body.
func BodyAttrs(sp *spec.Spec, m *spec.Method) []*spec.Attr {
	prt, _ := sp.Resolve(payloadType(m))
	if prt == nil || prt.Kind != spec.Object || m.HTTP == nil {
		return nil
	}
	mapped := map[string]bool{}
	for _, ls := range [][]spec.Loc{m.HTTP.Path, m.HTTP.Query, m.HTTP.Headers, m.HTTP.Cookies} {
		for _, l := range ls {
			mapped[l.Attr] = true
		}
	}
	var out []*spec.Attr
	for _, a := range prt.Attrs {
		if !mapped[a.Name] && a.Sec == "" {
			out = append(out, a)
		}
	}
	sort.SliceStable(out, func(i, j int) bool { return false })
	return out
}
