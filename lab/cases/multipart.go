package cases

import (
	"bytes"
	"encoding/json"
	"mime/multipart"
	"net/textproto"

	"verif.local/lab/rt"
	"verif.local/lab/spec"
	"verif.local/lab/vc"
	"verif.local/lab/vtree"
)

// MultipartRequest() endpoints, hand-encoded: the lab's multipart codec (rt/multipart.go) spoken by the lab's
// own wire encoder — one part, form name "payload", Content-Type application/json, holding the JSON object of
// the body attributes (design attribute names). The boundary is fixed: case lists are a function of
// (VERIF_SEED, tier) only.

// MultipartBoundary is the boundary of every hand-encoded multipart request.
const MultipartBoundary = "lab-boundary-7d1c9a42e0b3"

// MultipartBody wraps the JSON text of the body attributes into the multipart body of the lab codec and
// returns it with the Content-Type header value announcing it.
func MultipartBody(jsonBody []byte) ([]byte, string) {
	return multipartParts([][3]string{{rt.MultipartPart, "application/json", string(jsonBody)}}, true)
}

// multipartParts writes parts (form name, content type, content); closed=false leaves the closing boundary out.
func multipartParts(parts [][3]string, closed bool) ([]byte, string) {
	var buf bytes.Buffer
	mw := multipart.NewWriter(&buf)
	_ = mw.SetBoundary(MultipartBoundary)
	for _, p := range parts {
		hdr := textproto.MIMEHeader{}
		hdr.Set("Content-Disposition", `form-data; name="`+p[0]+`"`)
		hdr.Set("Content-Type", p[1])
		w, err := mw.CreatePart(hdr)
		if err != nil {
			continue
		}
		_, _ = w.Write([]byte(p[2]))
	}
	ct := mw.FormDataContentType()
	if closed {
		_ = mw.Close()
	}
	return buf.Bytes(), ct
}

// multipartJSON renders the body attributes of a payload tree as the JSON text of the part.
func multipartJSON(sp *spec.Spec, m *spec.Method, tree any) []byte {
	obj, _ := tree.(map[string]any)
	o := map[string]any{}
	for _, a := range BodyAttrs(sp, m) {
		if v, ok := obj[a.Name]; ok && v != nil {
			o[a.Name] = ToJSON(v)
		}
	}
	b, _ := json.Marshal(o)
	return b
}

// multipartMalformed builds the body-level malformed requests of a multipart endpoint: whatever is wrong with
// the multipart content or with the JSON inside the part, the user decoder (the lab's) reports an error and
// the generated code must answer 4xx without running the service method.
func multipartMalformed(sp *spec.Spec, sv *spec.Service, m *spec.Method, r *vc.Rand, tree any, mk func(string) *rt.Case, validResult func(*vc.Rand) *rt.Outcome) []*rt.Case {
	var out []*rt.Case
	rq, err := Raw(sp, sv, m, tree, 0)
	if err != nil {
		return nil
	}
	good := multipartJSON(sp, m, tree)
	add := func(class string, body []byte, ct string, names ...string) {
		c := mk("malformed:" + class)
		c.Sent = tree
		cp := *rq
		cp.Header = map[string][]string{}
		for k, v := range rq.Header {
			if k != "Content-Type" {
				cp.Header[k] = v
			}
		}
		if ct != "" {
			cp.Header["Content-Type"] = []string{ct}
		}
		cp.Body = body
		c.Raw = &cp
		c.Note["mode"] = "raw"
		c.Note["expect_names"] = names
		c.Outcome = validResult(r.Fork(uint64(len(out) + 3)))
		out = append(out, c)
	}
	// the JSON inside the part is cut short
	if len(good) > 2 {
		b, ct := MultipartBody(good[:len(good)-1])
		add("multipart-truncated-json", b, ct, "decode_payload")
	}
	// wrong JSON kind for one body attribute inside the part
	prt, _ := sp.Resolve(m.Payload.Type)
	for _, a := range BodyAttrs(sp, m) {
		o, _ := tree.(map[string]any)
		if _, present := o[a.Name]; !present || prt == nil {
			continue
		}
		at, _ := sp.Resolve(a.Type)
		if at == nil {
			at = a.Type
		}
		var bad string
		switch k := at.Kind; {
		case spec.IsNumeric(k), k == spec.Boolean, k == spec.Array, k == spec.Object, k == spec.Map:
			bad = `"a string"`
		case k == spec.String:
			bad = `12345`
		default:
			continue
		}
		t2 := vtree.Clone(tree).(map[string]any)
		t2[a.Name] = "raw:" + bad
		b, ct := MultipartBody(multipartJSON(sp, m, t2))
		add("multipart-json-kind-"+at.Kind, b, ct, "decode_payload", "invalid_field_type")
		break
	}
	// the closing boundary never comes
	b, ct := multipartParts([][3]string{{rt.MultipartPart, "application/json", string(good)}}, false)
	add("multipart-unterminated", b, ct, "decode_payload")
	// the part of the codec is not there (another one is)
	b, ct = multipartParts([][3]string{{"attachment", "text/plain", "hello"}}, true)
	add("multipart-part-missing", b, ct, "decode_payload", "missing_payload")
	// a JSON request to a multipart endpoint
	add("multipart-json-instead", good, "application/json", "decode_payload", "missing_payload")
	// the Content-Type announces multipart without a boundary
	b, _ = MultipartBody(good)
	add("multipart-no-boundary", b, "multipart/form-data", "decode_payload")
	// no body at all
	add("multipart-empty-body", nil, "", "decode_payload", "missing_payload")
	return out
}
