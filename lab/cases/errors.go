package cases

import (
	"fmt"

	"verif.local/lab/rt"
	"verif.local/lab/spec"
	"verif.local/lab/valgen"
	"verif.local/lab/vc"
	"verif.local/lab/vtree"
)

var errMsgs = []string{"boom", "not found: id 42", "ünï çödé ✓", "multi\nline", "with \"quotes\" and \\ slash", "<b>html</b> & more", ""}

// Errors builds the C05 case list of one method.
func Errors(sp *spec.Spec, sv *spec.Service, m *spec.Method, r *vc.Rand, n int, startID int) []*rt.Case {
	var out []*rt.Case
	id := startID
	mk := func(class string, i int) *rt.Case {
		rr := r.Fork(uint64(id))
		c := &rt.Case{ID: id, Svc: sv.Name, Method: m.Name, Class: class, Note: map[string]any{"mode": "client"}}
		id++
		c.Sent, c.NoPay = Payload(sp, m, rr, 1+i%2)
		if c.Sent == nil && !c.NoPay && m.Payload != nil {
			return nil
		}
		return c
	}
	add := func(c *rt.Case) {
		if c != nil {
			out = append(out, c)
		}
	}
	decl := sp.AllErrors(sv, m)
	// declared errors
	for i, e := range decl {
		kinds := []string{"declared", "wrapped-declared", "joined-declared"}
		if e.Type == nil {
			for fl := 0; fl < 8; fl++ {
				c := mk("declared:default-type", fl)
				if c == nil {
					continue
				}
				rr := r.Fork(uint64(1000 + i*16 + fl))
				msg := errMsgs[rr.Intn(len(errMsgs))]
				if he := sp.HTTPErrorFor(sv, m, e.Name); he != nil && (len(he.Headers) > 0 || he.Body == "empty") {
					// the message travels in a header: header-safe text only (transport limit)
					msg = []string{"boom", "not found: id 42", "with \"quotes\" and \\ slash", "<b>html</b> & more", "x"}[rr.Intn(5)]
				}
				c.Outcome = &rt.Outcome{Kind: kinds[fl%3], ErrName: e.Name, ErrMsg: msg, ErrID: fmt.Sprintf("id%d", fl),
					Timeout: fl&1 != 0, Temporary: fl&2 != 0, Fault: fl&4 != 0}
				add(c)
			}
			continue
		}
		for k := 0; k < 4; k++ {
			c := mk("declared:custom-type", k)
			if c == nil {
				continue
			}
			rr := r.Fork(uint64(2000 + i*16 + k))
			g := &valgen.G{S: sp, R: rr, Minimal: k == 0, Full: k == 1}
			tree := g.Valid(e.Type, nil, valgen.Body, 0)
			c.Outcome = &rt.Outcome{Kind: kinds[k%3], ErrName: e.Name, ErrTree: tree, Custom: true}
			add(c)
		}
	}
	// undeclared service errors: 8 flag combinations x names
	names := []string{"undeclared_thing", "unsupported_media_type", "error", ""}
	for fl := 0; fl < 8; fl++ {
		for ni, name := range names {
			if ni > 0 && fl%3 != 0 {
				continue
			}
			c := mk("undeclared:service", fl)
			if c == nil {
				continue
			}
			kind := "service"
			if fl%2 == 1 {
				kind = "wrapped-service"
			}
			c.Outcome = &rt.Outcome{Kind: kind, ErrName: name, ErrMsg: errMsgs[(fl+ni)%len(errMsgs)], ErrID: fmt.Sprintf("u%d", fl),
				Timeout: fl&1 != 0, Temporary: fl&2 != 0, Fault: fl&4 != 0}
			add(c)
		}
	}
	// plain Go errors
	for i := 0; i < 3; i++ {
		c := mk("undeclared:plain", i)
		if c == nil {
			continue
		}
		c.Outcome = &rt.Outcome{Kind: "plain", ErrMsg: errMsgs[i]}
		add(c)
	}
	// decoding failures (hand-encoded), incl. unsupported media type
	if m.Payload != nil && m.HTTP != nil {
		mkm := func(class string) *rt.Case {
			c := &rt.Case{ID: id, Svc: sv.Name, Method: m.Name, Class: class, Note: map[string]any{}}
			id++
			return c
		}
		res := func(*vc.Rand) *rt.Outcome { return &rt.Outcome{Kind: "result", Result: Result(sp, m, r.Fork(77), 1)} }
		out = append(out, malformed(sp, sv, m, r.Fork(3000), mkm, res)...)
		if tree, none := Payload(sp, m, r.Fork(3001), 1); !none && tree != nil {
			if rq, err := Raw(sp, sv, m, tree, 0); err == nil && len(rq.Body) > 0 {
				for _, ct := range []string{"application/x-unknown", "text/csv", "image/png; q=1"} {
					c := mkm("malformed:unsupported-media-type")
					cp := *rq
					cp.Header = map[string][]string{}
					for k, v := range rq.Header {
						cp.Header[k] = v
					}
					cp.Header["Content-Type"] = []string{ct}
					c.Raw = &cp
					c.Sent = tree
					c.Note["mode"] = "raw"
					c.Note["expect_names"] = []string{"unsupported_media_type"}
					c.Note["expect_status"] = 415
					c.Outcome = res(nil)
					out = append(out, c)
				}
			}
		}
	}
	_ = vtree.Show
	return out
}
