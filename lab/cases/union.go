package cases

import (
	"encoding/json"
	"sort"
	"strings"

	"verif.local/lab/rt"
	"verif.local/lab/spec"
	"verif.local/lab/valgen"
	"verif.local/lab/vc"
	"verif.local/lab/vtree"
)

// Unions on the wire. goa documents the HTTP representation of a OneOf value (expr.UnionToObject, the
// description of the generated body types and of the OpenAPI schemas) as a JSON object with two members:
// "Type", the name of the alternative, and "Value", a STRING holding the JSON encoding of the value.
// The design intent for that inner JSON text is the one that holds for every other body: primitives as JSON
// scalars, bytes as base64 text, user types as objects keyed by the design's attribute names.

// UnionJSON renders a union value the documented way. Two tree forms exist for deliberately broken requests:
// a "$value" leaf of kind "rawvalue" is copied into "Value" verbatim (text that is not JSON, or JSON of the
// wrong kind), and the pseudo alternative name carries through untouched (unknown Type).
func UnionJSON(alt string, uv any) any {
	switch vtree.Kind(uv) {
	case "rawvalue":
		return map[string]any{"Type": alt, "Value": vtree.Text(uv)}
	case "novalue":
		return map[string]any{"Type": alt} // the member Value left out
	case "notype":
		return map[string]any{"Value": vtree.Text(uv)} // the member Type left out
	}
	b, err := json.Marshal(ToJSON(uv))
	if err != nil {
		b = []byte("null")
	}
	return map[string]any{"Type": alt, "Value": string(b)}
}

// UnionStep is the path step that enters the selected alternative of a union ("|alt").
const UnionStep = "|"

// unionSites enumerates the probes inside the selected alternative of the union value v.
func unionSites(sp *spec.Spec, g *valgen.G, ut *spec.Type, v any, path string, depth int) []Site {
	n, uv, ok := vtree.IsUnion(v)
	if !ok || uv == nil {
		return nil
	}
	alt := ut.Attr(n)
	if alt == nil {
		return nil
	}
	um := v.(map[string]any)
	out := Sites(sp, g, alt.Type, alt.Val, uv, path+UnionStep+n, valgen.Body, func(nv any) { um["$value"] = nv }, depth+1)
	// the name of the alternative itself: a Type that names no alternative of the design (hand-encoded only)
	out = append(out, Site{Desc: "uniontype:unknown:" + path, Rule: "uniontype", Side: "unknown", Raw: true, Apply: func() { um["$union"] = "no_such_alternative" }})
	return out
}

// unionOnly keeps the sites that lie inside a union.
func unionOnly(sites []Site) []Site {
	var out []Site
	for _, s := range sites {
		if strings.Contains(s.Desc, UnionStep) || s.Rule == "uniontype" {
			out = append(out, s)
		}
	}
	return out
}

// unionNode is a union value found in a tree together with the declaration of the alternative it selects.
type unionNode struct {
	node map[string]any
	alt  *spec.Attr
}

// unionNodes lists the union values of the tree v of type t in a fixed order (declaration order, then position).
func unionNodes(sp *spec.Spec, t *spec.Type, v any, out *[]unionNode, depth int) {
	if t == nil || v == nil || depth > 30 {
		return
	}
	rt, _ := sp.Resolve(t)
	if rt == nil {
		return
	}
	switch rt.Kind {
	case spec.Object:
		o, _ := v.(map[string]any)
		for _, a := range rt.Attrs {
			if e, ok := o[a.Name]; ok {
				unionNodes(sp, a.Type, e, out, depth+1)
			}
		}
	case spec.Array:
		arr, _ := v.([]any)
		for _, e := range arr {
			unionNodes(sp, rt.Elem.Type, e, out, depth+1)
		}
	case spec.Map:
		mm, _ := vtree.IsMap(v)
		keys := make([]string, 0, len(mm))
		for k := range mm {
			keys = append(keys, k)
		}
		sort.Strings(keys)
		for _, k := range keys {
			unionNodes(sp, rt.Elem.Type, mm[k], out, depth+1)
		}
	case spec.Union:
		n, uv, ok := vtree.IsUnion(v)
		if !ok {
			return
		}
		if alt := rt.Attr(n); alt != nil {
			*out = append(*out, unionNode{node: v.(map[string]any), alt: alt})
			unionNodes(sp, alt.Type, uv, out, depth+1)
		}
	}
}

// unionMalformed builds hand-encoded requests whose union representation is broken while everything else
// satisfies the design: "Value" holds text that is not JSON, JSON of another kind than the selected
// alternative's, or JSON null; the member Value or the member Type is left out. None of them denotes a value of
// an alternative, so none may reach user code.
func unionMalformed(sp *spec.Spec, sv *spec.Service, m *spec.Method, r *vc.Rand, mk func(string) *rt.Case, validResult func(*vc.Rand) *rt.Outcome) []*rt.Case {
	if m.HTTP == nil || m.Payload == nil {
		return nil
	}
	var out []*rt.Case
	for i, class := range []string{"union-value-not-json", "union-value-wrong-json-kind", "union-value-null", "union-no-value", "union-no-type"} {
		tree, none := PayloadAlt(sp, m, r.Fork(uint64(i)), 1, i+1)
		if none || tree == nil {
			return out
		}
		var nodes []unionNode
		unionNodes(sp, m.Payload.Type, tree, &nodes, 0)
		if len(nodes) == 0 {
			return out
		}
		pick := nodes[r.Fork(uint64(100+i)).Intn(len(nodes))]
		node, alt := pick.node, pick.alt
		base := vtree.Clone(tree)
		kind := alt.Type.Kind
		if at, _ := sp.Resolve(alt.Type); at != nil {
			kind = at.Kind
		}
		var bad string
		switch class {
		case "union-value-not-json":
			bad = "{not json"
		case "union-value-wrong-json-kind":
			switch {
			case kind == spec.String || kind == spec.Bytes:
				bad = "12345"
			default:
				bad = `"a string"`
			}
		case "union-value-null":
			bad = "null"
		}
		node["$value"] = "rawvalue:" + bad
		names := []string{"decode_payload", "invalid_field_type", "invalid_format", "missing_field"}
		switch class {
		case "union-no-value":
			node["$value"] = "novalue:"
			names = []string{"missing_field"}
		case "union-no-type":
			node["$value"] = "notype:1"
			names = []string{"missing_field"}
		}
		rq, err := Raw(sp, sv, m, tree, 0)
		if err != nil {
			continue
		}
		c := mk("malformed:" + class)
		c.Sent = base
		c.Raw = rq
		c.Note["mode"] = "raw"
		c.Note["alt_kind"] = kind
		c.Note["expect_names"] = names
		c.Outcome = validResult(r.Fork(uint64(200 + i)))
		out = append(out, c)
	}
	return out
}
