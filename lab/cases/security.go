package cases

import (
	"sort"

	"verif.local/lab/rt"
	"verif.local/lab/spec"
	"verif.local/lab/vc"
	"verif.local/lab/vtree"
)

// SchemesOf lists the distinct schemes of the effective requirements of a method (sorted).
func SchemesOf(sp *spec.Spec, sv *spec.Service, m *spec.Method) []string {
	seen := map[string]bool{}
	var out []string
	for _, rq := range sp.EffectiveSecurity(sv, m) {
		for _, s := range rq.Schemes {
			if !seen[s] {
				seen[s] = true
				out = append(out, s)
			}
		}
	}
	sort.Strings(out)
	return out
}

// credential alphabets per scheme kind (transport-safe; ':' excluded from basic user names by RFC 7617)
var tokenCreds = []string{"tok123", "abc.def.ghi", "with space", "Bearer already", "ünï-tok", "a:b", "two  blanks x", "Basic xyz", "bearer lower"}
var userCreds = []string{"alice", "bob smith", "ünï", "u/s?e&r", "x"}
var passCreds = []string{"secret", "p:a:ss", "with space", "ünï✓", "%41"}
var keyCreds = []string{"key123", "k e y", "a:b", "Bearer key", "ünï", "k/e?y&=+"}

// Security builds the C06 case list of one method: every accept/reject vector over the
// schemes of its effective requirements, with credentials from the class alphabets.
func Security(sp *spec.Spec, sv *spec.Service, m *spec.Method, r *vc.Rand, n int, startID int) []*rt.Case {
	var out []*rt.Case
	id := startID
	schemes := SchemesOf(sp, sv, m)
	reqs := sp.EffectiveSecurity(sv, m)
	// reject flavours
	declared := ""
	for _, e := range sp.AllErrors(sv, m) {
		if e.Type == nil {
			declared = e.Name
			break
		}
	}
	flavours := []string{"reject:plain", "reject:service"}
	if declared != "" {
		flavours = append(flavours, "reject:declared:"+declared)
	}
	mkPayload := func(rr *vc.Rand, present map[string]bool) (any, bool) {
		tree, none := Payload(sp, m, rr, 1)
		if none || tree == nil {
			return tree, none
		}
		o, ok := tree.(map[string]any)
		if !ok {
			return tree, none
		}
		prt, _ := sp.Resolve(m.Payload.Type)
		for _, a := range prt.Attrs {
			if a.Sec == "" {
				continue
			}
			var pool []string
			scheme := ""
			switch {
			case a.Sec == "username":
				pool = userCreds
				scheme = schemeOfKind(sp, schemes, "basic")
			case a.Sec == "password":
				pool = passCreds
				scheme = schemeOfKind(sp, schemes, "basic")
			case a.Sec == "token":
				pool = tokenCreds
				scheme = schemeOfKind(sp, schemes, "jwt")
			case a.Sec == "accesstoken":
				pool = tokenCreds
				scheme = schemeOfKind(sp, schemes, "oauth2")
			default:
				pool = keyCreds
				scheme = a.Sec[len("apikey:"):]
			}
			if present != nil && !present[scheme] && !prt.IsRequired(a.Name) {
				delete(o, a.Name)
				continue
			}
			v := vtree.S(pool[rr.Intn(len(pool))])
			loc := LocOf(m.HTTP, a.Name)
			for i := 0; i < 20 && !TransportSafe(loc, v); i++ {
				v = vtree.S(pool[rr.Intn(len(pool))])
			}
			o[a.Name] = v
		}
		return tree, false
	}
	if len(schemes) == 0 {
		// unsecured (or NoSecurity) method: no callback may run
		for i := 0; i < 3; i++ {
			c := &rt.Case{ID: id, Svc: sv.Name, Method: m.Name, Class: "unsecured", Note: map[string]any{"mode": "client"}}
			id++
			c.Sent, c.NoPay = mkPayload(r.Fork(uint64(i)), nil)
			if c.Sent == nil && !c.NoPay && m.Payload != nil {
				continue
			}
			c.Outcome = &rt.Outcome{Kind: "result", Result: Result(sp, m, r.Fork(uint64(50+i)), 1)}
			if v := viewsOf(sp, m); len(v) > 0 {
				c.Outcome.View = v[0]
			}
			out = append(out, c)
		}
		return out
	}
	k := len(schemes)
	if k > 6 {
		k = 6
	}
	reps := 2
	for vec := 0; vec < 1<<k; vec++ {
		for rep := 0; rep < reps; rep++ {
			rr := r.Fork(uint64(vec*8 + rep))
			c := &rt.Case{ID: id, Svc: sv.Name, Method: m.Name, Class: "vector", Auth: map[string]string{}, Note: map[string]any{"mode": "client"}}
			id++
			for i, s := range schemes[:k] {
				if vec&(1<<i) != 0 {
					c.Auth[s] = "accept"
				} else {
					c.Auth[s] = flavours[rr.Intn(len(flavours))]
				}
			}
			// second repetition: supply the credentials of one requirement only
			var present map[string]bool
			if rep == 1 && len(reqs) > 1 {
				present = map[string]bool{}
				for _, s := range reqs[rr.Intn(len(reqs))].Schemes {
					present[s] = true
				}
				c.Class = "vector-partial-credentials"
			}
			c.Sent, c.NoPay = mkPayload(rr, present)
			if c.Sent == nil && !c.NoPay {
				continue
			}
			c.Outcome = &rt.Outcome{Kind: "result", Result: Result(sp, m, rr.Fork(5), 1)}
			if v := viewsOf(sp, m); len(v) > 0 {
				c.Outcome.View = v[0]
			}
			out = append(out, c)
		}
	}
	// requirements sharing a scheme but not the required scopes: the script accepts the callbacks of
	// ONE requirement (scheme + these required scopes) and rejects every other invocation
	shared := false
	for i := range reqs {
		for j := range reqs {
			if i != j && overlap(reqs[i].Schemes, reqs[j].Schemes) && !sameStrSet(reqs[i].Scopes, reqs[j].Scopes) {
				shared = true
			}
		}
	}
	if shared {
		for j, rq := range reqs {
			rr := r.Fork(uint64(9000 + j))
			c := &rt.Case{ID: id, Svc: sv.Name, Method: m.Name, Class: "vector-scoped", Auth: map[string]string{}, Note: map[string]any{"mode": "client", "accepted_requirement": j}}
			id++
			for _, s := range schemes {
				c.Auth[s] = flavours[rr.Intn(len(flavours))]
			}
			for _, s := range rq.Schemes {
				c.Auth[rt.AuthKey(s, rq.Scopes)] = "accept"
			}
			c.Sent, c.NoPay = mkPayload(rr, nil)
			if c.Sent == nil && !c.NoPay {
				continue
			}
			c.Outcome = &rt.Outcome{Kind: "result", Result: Result(sp, m, rr.Fork(5), 1)}
			if v := viewsOf(sp, m); len(v) > 0 {
				c.Outcome.View = v[0]
			}
			out = append(out, c)
		}
	}
	return out
}

func overlap(a, b []string) bool {
	for _, x := range a {
		for _, y := range b {
			if x == y {
				return true
			}
		}
	}
	return false
}

func sameStrSet(a, b []string) bool {
	m := map[string]bool{}
	for _, x := range a {
		m[x] = true
	}
	n := map[string]bool{}
	for _, x := range b {
		n[x] = true
		if !m[x] {
			return false
		}
	}
	return len(m) == len(n)
}

func schemeOfKind(sp *spec.Spec, schemes []string, kind string) string {
	for _, s := range schemes {
		if sc := sp.Scheme(s); sc != nil && sc.Kind == kind {
			return s
		}
	}
	return ""
}
