package cases

import (
	"fmt"
	"strings"

	"verif.local/lab/rt"
	"verif.local/lab/spec"
	"verif.local/lab/valgen"
	"verif.local/lab/vc"
	"verif.local/lab/vtree"
)

// Site is one place of a value tree where a design rule can be probed.
type Site struct {
	Desc  string // rule:path
	Rule  string // enum range length pattern format required
	Side  string // below on above / non-member / missing ...
	Raw   bool   // only expressible with a hand-encoded request
	Apply func()
}

var mb = []string{"é", "✓", "𝄞", "ü", "日"}

func runeStr(n int, ascii bool) string {
	var b strings.Builder
	for i := 0; i < n; i++ {
		if ascii {
			b.WriteByte('a')
		} else {
			b.WriteString(mb[i%len(mb)])
		}
	}
	return b.String()
}

// locParamMapKey: the probed value is the key of a map carried outside the body (name[key]=value)
const locParamMapKey valgen.Loc = 100

// Sites enumerates boundary probes (both sides) for the value v of type t.
// set replaces the value in its parent.
func Sites(sp *spec.Spec, g *valgen.G, t *spec.Type, val *spec.Val, v any, path string, loc valgen.Loc, set func(any), depth int) []Site {
	var out []Site
	if v == nil || depth > 12 {
		return nil
	}
	rt, _ := sp.Resolve(t)
	if rt == nil {
		rt = t
	}
	kind := rt.Kind
	ascii := loc == valgen.Cookie
	for _, m := range valgen.AllVals(sp, t, val) {
		m := m
		add := func(rule, side string, nv any) {
			if loc == locParamMapKey {
				// name[key]=value cannot spell a key holding a bracket, or no key at all (TransportSafe, maps)
				if kt := vtree.Text(nv); kt == "" || strings.ContainsAny(kt, "[]") {
					return
				}
			}
			if !TransportSafe(loc, nv) {
				return // net/http would alter or drop the value in this location
			}
			if loc != valgen.Body && (vtree.Kind(nv) == "s" || vtree.Kind(nv) == "y") && vtree.Text(nv) == "" {
				return // an empty value outside the body is absence, not a value
			}
			out = append(out, Site{Desc: rule + ":" + side + ":" + path, Rule: rule, Side: side, Apply: func() { set(nv) }})
		}
		if len(m.Enum) > 0 {
			switch {
			case kind == spec.String:
				add("enum", "non-member", vtree.S("not-in-enum"))
			case spec.IsNumeric(kind):
				add("enum", "non-member", valgen.LeafNum(kind, 4242))
			}
			add("enum", "member", m.Enum[len(m.Enum)-1])
		}
		if spec.IsNumeric(kind) {
			step := 1.0
			if kind == spec.Float32 || kind == spec.Float64 {
				step = 0.5
			}
			unsigned := strings.HasPrefix(kind, "uint")
			num := func(rule, side string, f float64) {
				if unsigned && f < 0 {
					return
				}
				// a probe the attribute's Go type cannot hold is a malformed encoding, not a range violation
				switch kind {
				case spec.Int32:
					if f < -2147483648 || f > 2147483647 {
						return
					}
				case spec.UInt32:
					if f > 4294967295 {
						return
					}
				case spec.Int, spec.Int64:
					if f <= -9.2e18 || f >= 9.2e18 {
						return
					}
				case spec.UInt, spec.UInt64:
					if f >= 1.8e19 {
						return
					}
				}
				add(rule, side, valgen.LeafNum(kind, f))
			}
			if m.Min != nil {
				num("range", "min-below", *m.Min-step)
				num("range", "min-on", *m.Min)
				num("range", "min-above", *m.Min+step)
			}
			if m.Max != nil {
				num("range", "max-above", *m.Max+step)
				num("range", "max-on", *m.Max)
				num("range", "max-below", *m.Max-step)
			}
			if m.ExclMin != nil {
				num("range", "exclmin-on", *m.ExclMin)
				num("range", "exclmin-above", *m.ExclMin+step)
				num("range", "exclmin-below", *m.ExclMin-step)
			}
			if m.ExclMax != nil {
				num("range", "exclmax-on", *m.ExclMax)
				num("range", "exclmax-below", *m.ExclMax-step)
				num("range", "exclmax-above", *m.ExclMax+step)
			}
		}
		if m.MinLen != nil || m.MaxLen != nil {
			mk := func(n int) any {
				if n < 0 {
					return nil
				}
				switch kind {
				case spec.String:
					if m.Pattern != "" {
						return nil
					}
					return vtree.S(runeStr(n, ascii))
				case spec.Bytes:
					return vtree.Y(make([]byte, n))
				case spec.Array:
					arr := make([]any, 0, n)
					for i := 0; i < n; i++ {
						e := g.Valid(rt.Elem.Type, rt.Elem.Val, loc, depth+1)
						if e == nil {
							return nil
						}
						arr = append(arr, e)
					}
					return arr
				case spec.Map:
					mm := map[string]any{}
					for tries := 0; len(mm) < n && tries < 60; tries++ {
						k, _ := g.Valid(rt.Key.Type, rt.Key.Val, valgen.Body, depth+1).(string)
						e := g.Valid(rt.Elem.Type, rt.Elem.Val, valgen.Body, depth+1)
						if k == "" || e == nil {
							continue
						}
						mm[k] = e
					}
					if len(mm) < n {
						return nil
					}
					return vtree.MkMap(mm)
				}
				return nil
			}
			try := func(side string, n int) {
				if nv := mk(n); nv != nil {
					if loc != valgen.Body && n == 0 {
						return // empty == absent outside the body
					}
					add("length", side, nv)
				}
			}
			if m.MinLen != nil {
				try("minlen-below", *m.MinLen-1)
				try("minlen-on", *m.MinLen)
			}
			if m.MaxLen != nil {
				try("maxlen-above", *m.MaxLen+1)
				try("maxlen-on", *m.MaxLen)
			}
		}
		if m.Pattern != "" && kind == spec.String {
			add("pattern", "no-match", vtree.S(valgen.NoMatchPattern(g.R, m.Pattern)))
			add("pattern", "match", vtree.S(valgen.MatchPattern(g.R, m.Pattern)))
		}
		if m.Format != "" && kind == spec.String {
			if len(valgen.FormatPool(m.Format, false)) > 0 {
				add("format", "malformed", vtree.S(valgen.InvalidFormat(g.R, m.Format)))
			}
			add("format", "well-formed", vtree.S(valgen.ValidFormat(g.R, m.Format)))
		}
	}
	switch rt.Kind {
	case spec.Union:
		out = append(out, unionSites(sp, g, rt, v, path, depth)...) // union.go: probes INSIDE the selected alternative
	case spec.Object:
		o, _ := v.(map[string]any)
		if o == nil {
			return out
		}
		for _, a := range rt.Attrs {
			a := a
			av, present := o[a.Name]
			if !present || av == nil {
				continue
			}
			if rt.IsRequired(a.Name) {
				out = append(out, Site{Desc: "required:missing:" + path + "." + a.Name, Rule: "required", Side: "missing", Raw: true, Apply: func() { delete(o, a.Name) }})
			}
			out = append(out, Sites(sp, g, a.Type, a.Val, av, path+"."+a.Name, valgen.Body, func(nv any) { o[a.Name] = nv }, depth+1)...)
		}
	case spec.Array:
		arr, _ := v.([]any)
		for i := range arr {
			i := i
			if i > 1 {
				break
			}
			out = append(out, Sites(sp, g, rt.Elem.Type, rt.Elem.Val, arr[i], fmt.Sprintf("%s[%d]", path, i), loc, func(nv any) { arr[i] = nv }, depth+1)...)
		}
	case spec.Map:
		mm, ok := vtree.IsMap(v)
		if !ok {
			return out
		}
		n := 0
		for k := range mm {
			k := k
			if n++; n > 2 {
				break
			}
			out = append(out, Sites(sp, g, rt.Elem.Type, rt.Elem.Val, mm[k], path+"{"+k+"}", valgen.Body, func(nv any) { mm[k] = nv }, depth+1)...)
			// key validations
			kloc := valgen.Body
			if loc != valgen.Body {
				kloc = locParamMapKey
			}
			out = append(out, Sites(sp, g, rt.Key.Type, rt.Key.Val, k, path+"{key}", kloc, func(nv any) {
				if ks, ok := nv.(string); ok {
					e := mm[k]
					delete(mm, k)
					mm[ks] = e
				}
			}, depth+1)...)
		}
	}
	return out
}

// TopSites enumerates the probe sites of a whole payload (object payloads: per attribute with its wire location).
func TopSites(sp *spec.Spec, g *valgen.G, m *spec.Method, attr *spec.Attr, tree *any, locOf func(string) valgen.Loc) []Site {
	if attr == nil || *tree == nil {
		return nil
	}
	rt, _ := sp.Resolve(attr.Type)
	if rt == nil {
		rt = attr.Type
	}
	if rt.Kind != spec.Object {
		loc := valgen.Body
		if locOf != nil {
			loc = locOf("")
		}
		return Sites(sp, g, attr.Type, attr.Val, *tree, "", loc, func(nv any) { *tree = nv }, 0)
	}
	o, _ := (*tree).(map[string]any)
	var out []Site
	for _, a := range rt.Attrs {
		a := a
		av, present := o[a.Name]
		if !present || av == nil {
			continue
		}
		loc := valgen.Body
		if locOf != nil {
			loc = locOf(a.Name)
		}
		if a.Sec != "" {
			continue
		}
		if rt.IsRequired(a.Name) && loc != valgen.Path {
			out = append(out, Site{Desc: "required:missing:." + a.Name, Rule: "required", Side: "missing", Raw: true, Apply: func() { delete(o, a.Name) }})
		}
		out = append(out, Sites(sp, g, a.Type, a.Val, av, "."+a.Name, loc, func(nv any) { o[a.Name] = nv }, 1)...)
	}
	return out
}

// Validation builds the C04 case list of one method: boundary probes on both
// sides of every rule (through the generated client and hand-encoded), malformed
// wire encodings (hand-encoded) and results violating the result's constraints.
func Validation(sp *spec.Spec, sv *spec.Service, m *spec.Method, r *vc.Rand, n int, startID int) []*rt.Case {
	var out []*rt.Case
	id := startID
	mk := func(class string) *rt.Case {
		c := &rt.Case{ID: id, Svc: sv.Name, Method: m.Name, Class: class, Note: map[string]any{}}
		id++
		return c
	}
	validResult := func(rr *vc.Rand) *rt.Outcome {
		oc := &rt.Outcome{Kind: "result", Result: Result(sp, m, rr, 2)}
		if v := viewsOf(sp, m); len(v) > 0 {
			oc.View = v[0]
		}
		return oc
	}
	locOf := func(a string) valgen.Loc {
		if a == "" && m.HTTP != nil {
			switch {
			case len(m.HTTP.Path) > 0:
				return valgen.Path
			case len(m.HTTP.Query) > 0:
				return valgen.Query
			case len(m.HTTP.Headers) > 0:
				return valgen.Header
			}
			return valgen.Body
		}
		return LocOf(m.HTTP, a)
	}
	// --- request side probes
	if m.Payload != nil {
		budget := n * 2 / 3
		for i := 0; i < budget*3 && len(out) < budget; i++ {
			rr := r.Fork(uint64(i))
			g := &valgen.G{S: sp, R: rr, Full: i%2 == 0}
			tree, none := PayloadAlt(sp, m, rr, 1+i%2, i+1)
			if none || tree == nil {
				break
			}
			sites := TopSites(sp, g, m, m.Payload, &tree, locOf)
			if len(sites) == 0 {
				break
			}
			s := sites[rr.Intn(len(sites))]
			if us := unionOnly(sites); len(us) > 0 && rr.Fork(0x0e0f).Chance(1, 2) {
				s = us[rr.Fork(0x0e10).Intn(len(us))] // designs with unions: half of the probes sit inside a union
			}
			s.Apply()
			c := mk("probe:" + s.Rule + ":" + s.Side)
			c.Sent = tree
			c.Note["site"] = s.Desc
			c.Outcome = validResult(rr.Fork(7))
			raw := s.Raw || i%3 == 0
			if raw {
				rq, err := Raw(sp, sv, m, tree, i%len(m.HTTP.Routes))
				if err != nil {
					continue
				}
				c.Raw = rq
				c.Note["mode"] = "raw"
			} else {
				c.Note["mode"] = "client"
			}
			out = append(out, c)
		}
		// --- malformed wire encodings (raw only)
		out = append(out, malformed(sp, sv, m, r.Fork(1000), mk, validResult)...)
	}
	// --- response side: results violating the result's constraints must be refused by the client
	if m.Result != nil && !isViewedResult(sp, m) {
		budget := n / 3
		made := 0
		for i := 0; i < budget*3 && made < budget; i++ {
			rr := r.Fork(uint64(5000 + i))
			g := &valgen.G{S: sp, R: rr, Full: true}
			res := ResultAlt(sp, m, rr, 1, i+1)
			if res == nil {
				break
			}
			var resp *spec.HTTPResponse
			if m.HTTP != nil && len(m.HTTP.Responses) > 0 {
				resp = m.HTTP.Responses[len(m.HTTP.Responses)-1]
			}
			sites := TopSites(sp, g, m, m.Result, &res, func(a string) valgen.Loc { return RespLocOf(resp, a) })
			var usable []Site
			for _, s := range sites {
				if !s.Raw {
					usable = append(usable, s)
				}
			}
			if len(usable) == 0 {
				break
			}
			s := usable[rr.Intn(len(usable))]
			if us := unionOnly(usable); len(us) > 0 && rr.Fork(0x0e0f).Chance(1, 2) {
				s = us[rr.Fork(0x0e10).Intn(len(us))]
			}
			s.Apply()
			c := mk("result-probe:" + s.Rule + ":" + s.Side)
			c.Sent, c.NoPay = Payload(sp, m, rr.Fork(3), 1)
			if c.Sent == nil && !c.NoPay {
				continue
			}
			c.Note["site"] = s.Desc
			c.Note["mode"] = "client"
			c.Outcome = &rt.Outcome{Kind: "result", Result: res}
			out = append(out, c)
			made++
		}
	}
	return out
}

func isViewedResult(sp *spec.Spec, m *spec.Method) bool {
	return len(viewsOf(sp, m)) > 0
}

// malformed builds hand-encoded requests whose wire encoding is broken.
func malformed(sp *spec.Spec, sv *spec.Service, m *spec.Method, r *vc.Rand, mk func(string) *rt.Case, validResult func(*vc.Rand) *rt.Outcome) []*rt.Case {
	var out []*rt.Case
	h := m.HTTP
	if h == nil || m.Payload == nil {
		return nil
	}
	prt, _ := sp.Resolve(m.Payload.Type)
	if prt == nil {
		prt = m.Payload.Type
	}
	base := func() (any, bool) {
		t, none := Payload(sp, m, r.Fork(1), 1)
		return t, !none && t != nil
	}
	kindOfAttr := func(a *spec.Attr) string {
		at, _ := sp.Resolve(a.Type)
		if at == nil {
			return a.Type.Kind
		}
		return at.Kind
	}
	if prt.Kind == spec.Object {
		// non-numeric text for numeric/boolean parameters
		for _, ls := range [][]spec.Loc{h.Query, h.Headers, h.Path} {
			for _, l := range ls {
				a := prt.Attr(l.Attr)
				if a == nil || a.Sec != "" {
					continue
				}
				k := kindOfAttr(a)
				if !(spec.IsNumeric(k) || k == spec.Boolean) {
					continue
				}
				tree, ok := base()
				if !ok {
					continue
				}
				o := tree.(map[string]any)
				o[a.Name] = vtree.S("notanumber")
				rq, err := Raw(sp, sv, m, tree, 0)
				if err != nil {
					continue
				}
				c := mk("malformed:param-not-" + k)
				c.Sent = vtree.Clone(tree)
				delete(c.Sent.(map[string]any), a.Name)
				c.Raw = rq
				c.Note["mode"] = "raw"
				c.Note["expect_names"] = []string{"invalid_field_type"}
				c.Outcome = validResult(r.Fork(2))
				out = append(out, c)
			}
		}
	}
	out = append(out, unionMalformed(sp, sv, m, r.Fork(0x0e0f), mk, validResult)...) // union.go
	// body level
	tree, ok := base()
	if !ok {
		return out
	}
	if h.Multipart {
		return append(out, multipartMalformed(sp, sv, m, r.Fork(0x3a17), tree, mk, validResult)...) // multipart.go
	}
	rq, err := Raw(sp, sv, m, tree, 0)
	if err != nil || len(rq.Body) < 2 {
		return out
	}
	// truncated JSON (only structured bodies: a truncated number is still a number)
	if rq.Body[0] == '{' || rq.Body[0] == '[' || rq.Body[0] == '"' {
		c := mk("malformed:truncated-json")
		c.Sent = tree
		cp := *rq
		cp.Body = rq.Body[:len(rq.Body)-1]
		c.Raw = &cp
		c.Note["mode"] = "raw"
		c.Note["expect_names"] = []string{"decode_payload"}
		c.Outcome = validResult(r.Fork(3))
		out = append(out, c)
	}
	// wrong JSON kind for one body attribute
	if prt.Kind == spec.Object && !strings.HasPrefix(h.Body, "attr:") {
		for _, a := range BodyAttrs(sp, m) {
			o, _ := tree.(map[string]any)
			if _, present := o[a.Name]; !present {
				continue
			}
			k := kindOfAttr(a)
			var bad string
			switch {
			case spec.IsNumeric(k), k == spec.Boolean, k == spec.Array, k == spec.Object, k == spec.Map:
				bad = `"a string"`
			case k == spec.String:
				bad = `12345`
			default:
				continue
			}
			t2 := vtree.Clone(tree).(map[string]any)
			t2[a.Name] = "raw:" + bad
			rq2, err := Raw(sp, sv, m, t2, 0)
			if err != nil {
				continue
			}
			c := mk("malformed:json-kind-" + k)
			c.Sent = tree
			c.Raw = rq2
			c.Note["mode"] = "raw"
			c.Note["expect_names"] = []string{"decode_payload", "invalid_field_type"}
			c.Outcome = validResult(r.Fork(4))
			out = append(out, c)
			break
		}
	}
	// empty body although the body carries a required attribute
	needBody := false
	if prt.Kind == spec.Object {
		for _, a := range BodyAttrs(sp, m) {
			if prt.IsRequired(a.Name) {
				needBody = true
			}
		}
	}
	if needBody {
		c := mk("malformed:empty-body")
		c.Sent = tree
		cp := *rq
		cp.Body = nil
		c.Raw = &cp
		c.Note["mode"] = "raw"
		c.Note["expect_names"] = []string{"missing_payload", "missing_field"}
		c.Outcome = validResult(r.Fork(5))
		out = append(out, c)
	}
	return out
}
