package cases

import (
	"fmt"
	"math"
	"strconv"
	"strings"

	"verif.local/lab/rt"
	"verif.local/lab/spec"
	"verif.local/lab/valgen"
	"verif.local/lab/vc"
	"verif.local/lab/vtree"
)

// Scripted exchanges of the gRPC runtime half of C10 (rt.GCase), built from the spec alone.
//
//	roundtrip      valid payloads / streamed payloads / results over the boundary classes of valgen, through the
//	               generated client ("client") and as hand-built protobuf messages + metadata ("rawpb", the
//	               only way to leave an optional field of a defaulted attribute unset)
//	probe-request  one design rule probed on both sides of its boundary in the payload (message or metadata)
//	probe-stream   the same in one message of the client stream
//	probe-result   the same in the scripted result (or one streamed result)
//	error          a declared error is returned by the stub (counted only: C05 owns errors)

// GMetaLocs returns the request-metadata mapping of a method: the Metadata(...) entries, or every attribute of
// an object payload when the method also has a streaming payload (the payload then travels as metadata only).
func GMetaLocs(sp *spec.Spec, m *spec.Method) []spec.Loc {
	if m.GRPC != nil && len(m.GRPC.Metadata) > 0 {
		return m.GRPC.Metadata
	}
	if m.StreamP != nil && m.Payload != nil {
		if rt, _ := sp.Resolve(m.Payload.Type); rt != nil && rt.Kind == spec.Object {
			var out []spec.Loc
			for _, a := range rt.Attrs {
				out = append(out, spec.Loc{Attr: a.Name})
			}
			return out
		}
	}
	return nil
}

// GRespLocs returns the header and trailer mappings of the result.
func GRespLocs(m *spec.Method) (hdr, trl []spec.Loc) {
	if m.GRPC == nil {
		return nil, nil
	}
	return m.GRPC.Headers, m.GRPC.Trailers
}

func locSet(ls ...[]spec.Loc) map[string]bool {
	out := map[string]bool{}
	for _, l := range ls {
		for _, x := range l {
			out[x.Attr] = true
		}
	}
	return out
}

// GMetaSafe reports whether a leaf can travel verbatim as a gRPC metadata value: printable ASCII without
// leading or trailing blanks (grpc-go refuses anything else in non "-bin" keys; HTTP/2 trims blanks). A
// transport limit that is not goa's.
func GMetaSafe(v any) bool {
	if vtree.Kind(v) == "y" {
		return false
	}
	t := TextOf(v)
	if t != strings.TrimSpace(t) {
		return false
	}
	for i := 0; i < len(t); i++ {
		if t[i] < 0x20 || t[i] > 0x7E {
			return false
		}
	}
	return true
}

// narrowInts brings Int / UInt leaves (and map keys) into the 32-bit range: goa documents that Int and UInt
// travel as 32-bit protobuf integers (grpc/docs/FAQ.md maps Int to int32); wider values are the separate
// "wide-int" case class.
func narrowInts(sp *spec.Spec, t *spec.Type, v any, depth int) any {
	rt, _ := sp.Resolve(t)
	if rt == nil || v == nil || depth > 40 {
		return v
	}
	switch rt.Kind {
	case spec.Int:
		if n, err := strconv.ParseInt(vtree.Text(v), 10, 64); err == nil && vtree.Kind(v) == "i" {
			if n > math.MaxInt32 {
				return vtree.I(math.MaxInt32)
			}
			if n < math.MinInt32 {
				return vtree.I(math.MinInt32)
			}
		}
	case spec.UInt:
		if n, err := strconv.ParseUint(vtree.Text(v), 10, 64); err == nil && vtree.Kind(v) == "u" && n > math.MaxUint32 {
			return vtree.U(math.MaxUint32)
		}
	case spec.Object:
		o, _ := v.(map[string]any)
		for _, a := range rt.Attrs {
			if av, ok := o[a.Name]; ok {
				o[a.Name] = narrowInts(sp, a.Type, av, depth+1)
			}
		}
	case spec.Union:
		if n, uv, ok := vtree.IsUnion(v); ok {
			if alt := rt.Attr(n); alt != nil {
				return map[string]any{"$union": n, "$value": narrowInts(sp, alt.Type, uv, depth+1)}
			}
		}
	case spec.Array:
		arr, _ := v.([]any)
		for i := range arr {
			arr[i] = narrowInts(sp, rt.Elem.Type, arr[i], depth+1)
		}
	case spec.Map:
		if m, ok := vtree.IsMap(v); ok {
			out := map[string]any{}
			for k, e := range m {
				nk, _ := narrowInts(sp, rt.Key.Type, k, depth+1).(string)
				out[nk] = narrowInts(sp, rt.Elem.Type, e, depth+1)
			}
			return vtree.MkMap(out)
		}
	}
	return v
}

// gFill removes from a drawn value the three input classes that a proto3 wire cannot carry faithfully or that
// run into triaged goa defects, so that they do not eat the budget of (and mask other findings in) the ordinary
// cases: an empty collection nested in another collection gets one element, a required collection sent empty
// gets one element, an optional collection with MinLength >= 1 left unset is set. The classes themselves are
// kept in the designated "hard" cases (class names ending in "+hard").
func gFill(sp *spec.Spec, g *valgen.G, t *spec.Type, val *spec.Val, v any, inColl bool, depth int) any {
	rt, _ := sp.Resolve(t)
	if rt == nil || v == nil || depth > 30 {
		return v
	}
	one := func(a *spec.Attr) any {
		e := g.Valid(a.Type, a.Val, valgen.Body, depth+6)
		if e == nil {
			return nil
		}
		return gFill(sp, g, a.Type, a.Val, e, true, depth+1)
	}
	switch rt.Kind {
	case spec.Object:
		o, _ := v.(map[string]any)
		if o == nil {
			return v
		}
		for _, a := range rt.Attrs {
			at, _ := sp.Resolve(a.Type)
			if at == nil {
				continue
			}
			av, present := o[a.Name]
			coll := at.Kind == spec.Array || at.Kind == spec.Map || at.Kind == spec.Bytes
			if coll && (!present || vtree.Empty(vtree.Norm(av))) {
				need := rt.IsRequired(a.Name) && present
				if mv := valgen.AllVals(sp, a.Type, a.Val); !rt.IsRequired(a.Name) {
					for _, m := range mv {
						if m.MinLen != nil && *m.MinLen >= 1 {
							need = true
						}
					}
				}
				if need {
					saveMin, saveMinimal := g.MinElems, g.Minimal
					g.MinElems, g.Minimal = 1, false
					var nv any
					for i := 0; i < 20; i++ {
						if nv = g.Valid(a.Type, a.Val, valgen.Body, 1); nv != nil && !vtree.Empty(vtree.Norm(nv)) {
							break
						}
					}
					g.MinElems, g.Minimal = saveMin, saveMinimal
					if nv != nil && !vtree.Empty(vtree.Norm(nv)) {
						o[a.Name], av, present = nv, nv, true
					}
				}
			}
			if present && av != nil {
				o[a.Name] = gFill(sp, g, a.Type, a.Val, av, false, depth+1)
			}
		}
		return o
	case spec.Union:
		if n, uv, ok := vtree.IsUnion(v); ok {
			if alt := rt.Attr(n); alt != nil {
				return map[string]any{"$union": n, "$value": gFill(sp, g, alt.Type, alt.Val, uv, false, depth+1)}
			}
		}
	case spec.Array:
		arr, _ := v.([]any)
		if inColl && len(arr) == 0 {
			if e := one(rt.Elem); e != nil {
				return []any{e}
			}
			return v
		}
		for i := range arr {
			arr[i] = gFill(sp, g, rt.Elem.Type, rt.Elem.Val, arr[i], true, depth+1)
		}
		return arr
	case spec.Map:
		m, ok := vtree.IsMap(v)
		if !ok {
			return v
		}
		if inColl && len(m) == 0 {
			k, _ := g.Valid(rt.Key.Type, rt.Key.Val, valgen.Body, depth+6).(string)
			if e := one(rt.Elem); e != nil && k != "" {
				return vtree.MkMap(map[string]any{k: e})
			}
			return v
		}
		for k, e := range m {
			m[k] = gFill(sp, g, rt.Elem.Type, rt.Elem.Val, e, true, depth+1)
		}
		return vtree.MkMap(m)
	}
	return v
}

// gDraw draws a valid value of attr. meta lists the top-level attributes that travel as metadata (restricted
// alphabet). mode: 0 minimal, 1 full, else random. ok=false: no valid value could be drawn.
func gDraw(sp *spec.Spec, attr *spec.Attr, meta map[string]bool, r *vc.Rand, mode int, hard bool) (any, bool) {
	if attr == nil {
		return nil, true
	}
	g := &valgen.G{S: sp, R: r, Minimal: mode == 0, Full: mode == 1}
	rt, _ := sp.Resolve(attr.Type)
	if rt == nil {
		rt = attr.Type
	}
	if rt.Kind != spec.Object {
		v := g.Valid(attr.Type, attr.Val, valgen.Body, 0)
		if v == nil {
			return nil, false
		}
		if !hard {
			v = gFill(sp, g, attr.Type, attr.Val, v, false, 0)
		}
		return narrowInts(sp, attr.Type, v, 0), true
	}
	o := map[string]any{}
	for _, a := range rt.Attrs {
		req := rt.IsRequired(a.Name) || a.HasDef
		if !req && (g.Minimal || (!g.Full && r.Chance(1, 2))) {
			continue
		}
		var v any
		if meta[a.Name] {
			for i := 0; i < 40 && v == nil; i++ {
				if c := g.Valid(a.Type, a.Val, valgen.Cookie, 1); c != nil && GMetaSafe(c) {
					v = c
				}
			}
		} else {
			v = validAt(g, a, valgen.Body)
		}
		if v == nil {
			if req {
				return nil, false
			}
			continue
		}
		o[a.Name] = v
	}
	var out any = o
	if !hard {
		out = gFill(sp, g, attr.Type, attr.Val, o, false, 0)
	}
	return narrowInts(sp, attr.Type, out, 0), true
}

// GSplit computes, independently of goa, what a payload looks like on the wire: the metadata pairs of the
// attributes mapped to metadata and the request message made of the rest (nil when everything is metadata).
func GSplit(sp *spec.Spec, m *spec.Method, tree any) (md map[string][]string, msg any) {
	locs := GMetaLocs(sp, m)
	o, isObj := tree.(map[string]any)
	if _, isMap := vtree.IsMap(tree); isMap {
		isObj = false
	}
	if len(locs) == 0 || !isObj {
		if m.StreamP != nil {
			return nil, nil
		}
		return nil, tree
	}
	md = map[string][]string{}
	rest := map[string]any{}
	meta := locSet(locs)
	for k, v := range o {
		if !meta[k] {
			rest[k] = v
		}
	}
	for _, l := range locs {
		if v, ok := o[l.Attr]; ok && v != nil {
			if arr, isArr := v.([]any); isArr {
				// one metadata value per element; an empty array has no spelling (it travels as absence)
				for _, e := range arr {
					md[strings.ToLower(l.WireName())] = append(md[strings.ToLower(l.WireName())], TextOf(e))
				}
				continue
			}
			md[strings.ToLower(l.WireName())] = []string{TextOf(v)}
		}
	}
	if m.StreamP != nil {
		return md, nil
	}
	return md, rest
}

// dropDefaulted removes (recursively) the optional attributes that declare a default; it reports whether it removed any.
func dropDefaulted(sp *spec.Spec, t *spec.Type, v any, keep map[string]bool, depth int) bool {
	rt, _ := sp.Resolve(t)
	if rt == nil || v == nil || depth > 30 {
		return false
	}
	removed := false
	switch rt.Kind {
	case spec.Object:
		o, _ := v.(map[string]any)
		for _, a := range rt.Attrs {
			av, ok := o[a.Name]
			if !ok {
				continue
			}
			if a.HasDef && !rt.IsRequired(a.Name) && !(depth == 0 && keep[a.Name]) {
				delete(o, a.Name)
				removed = true
				continue
			}
			if dropDefaulted(sp, a.Type, av, nil, depth+1) {
				removed = true
			}
		}
	case spec.Array:
		arr, _ := v.([]any)
		for _, e := range arr {
			if dropDefaulted(sp, rt.Elem.Type, e, nil, depth+1) {
				removed = true
			}
		}
	case spec.Map:
		if m, ok := vtree.IsMap(v); ok {
			for _, e := range m {
				if dropDefaulted(sp, rt.Elem.Type, e, nil, depth+1) {
					removed = true
				}
			}
		}
	}
	return removed
}

// widen sets the first Int / UInt leaf of the tree to a value beyond 32 bits; it reports whether it found one.
func widen(sp *spec.Spec, t *spec.Type, v any, set func(any), depth int) bool {
	rt, _ := sp.Resolve(t)
	if rt == nil || v == nil || depth > 30 {
		return false
	}
	switch rt.Kind {
	case spec.Int:
		if len(valgen.AllVals(sp, t, nil)) == 0 {
			set(vtree.I(1 << 40))
			return true
		}
	case spec.UInt:
		if len(valgen.AllVals(sp, t, nil)) == 0 {
			set(vtree.U(1 << 33))
			return true
		}
	case spec.Object:
		o, _ := v.(map[string]any)
		for _, a := range rt.Attrs {
			a := a
			if av, ok := o[a.Name]; ok && a.Val.Empty() {
				if widen(sp, a.Type, av, func(nv any) { o[a.Name] = nv }, depth+1) {
					return true
				}
			}
		}
	case spec.Array:
		arr, _ := v.([]any)
		if len(arr) > 0 && rt.Elem.Val.Empty() {
			return widen(sp, rt.Elem.Type, arr[0], func(nv any) { arr[0] = nv }, depth+1)
		}
	}
	return false
}

// requiredExpressible reports whether every "required" rule broken in tree concerns an attribute whose
// absence proto3 can express: a message-typed attribute (nil message) or, for hand-built requests, a
// top-level attribute that travels as metadata (missing key). Everything else (non-optional scalars, empty
// collections) cannot be absent on the wire.
func requiredExpressible(sp *spec.Spec, t *spec.Type, tree any, metaTop map[string]bool, path string, depth int) bool {
	rt, _ := sp.Resolve(t)
	if rt == nil || tree == nil || depth > 30 {
		return true
	}
	switch rt.Kind {
	case spec.Object:
		o, _ := tree.(map[string]any)
		for _, a := range rt.Attrs {
			av := o[a.Name]
			if av == nil {
				if !rt.IsRequired(a.Name) {
					continue
				}
				at, _ := sp.Resolve(a.Type)
				isObj := at != nil && at.Kind == spec.Object
				if !isObj && !(depth == 0 && metaTop[a.Name]) {
					return false
				}
				continue
			}
			if !requiredExpressible(sp, a.Type, av, nil, path+"."+a.Name, depth+1) {
				return false
			}
		}
	case spec.Array:
		arr, _ := tree.([]any)
		for _, e := range arr {
			if !requiredExpressible(sp, rt.Elem.Type, e, nil, path, depth+1) {
				return false
			}
		}
	case spec.Map:
		if m, ok := vtree.IsMap(tree); ok {
			for _, e := range m {
				if !requiredExpressible(sp, rt.Elem.Type, e, nil, path, depth+1) {
					return false
				}
			}
		}
	case spec.Union:
		// the value of the selected alternative is a message like any other
		if alt, uv, ok := vtree.IsUnion(tree); ok {
			for _, a := range rt.Attrs {
				if a.Name == alt {
					return requiredExpressible(sp, a.Type, uv, nil, path+"|"+alt, depth+1)
				}
			}
		}
	}
	return true
}

func streamKind(m *spec.Method) string {
	if m.Stream == "" {
		return "unary"
	}
	return m.Stream
}

// GRPCCases builds the case list of one gRPC method. n scales the number of round trips and probes.
func GRPCCases(sp *spec.Spec, sv *spec.Service, m *spec.Method, r *vc.Rand, n int, startID int) []*rt.GCase {
	var out []*rt.GCase
	id := startID
	meta := locSet(GMetaLocs(sp, m))
	hdr, trl := GRespLocs(m)
	respMeta := locSet(hdr, trl)
	c2s := m.StreamP != nil && (m.Stream == "client" || m.Stream == "bidi")
	s2c := m.Stream == "server" || m.Stream == "bidi"
	mk := func(clause, class, mode string) *rt.GCase {
		c := &rt.GCase{ID: id, Clause: clause, Class: class, Mode: mode, Svc: sv.Name, Method: m.Name, Note: map[string]any{}}
		id++
		return c
	}
	hard := false // set while the designated "+hard" cases are drawn
	payload := func(rr *vc.Rand, mode int) (any, bool) {
		if m.Payload == nil {
			return nil, true
		}
		return gDraw(sp, m.Payload, meta, rr, mode, hard)
	}
	streamMsgs := func(rr *vc.Rand, k int) ([]any, bool) {
		if !c2s {
			return nil, true
		}
		var msgs []any
		for i := 0; i < k; i++ {
			v, ok := gDraw(sp, m.StreamP, nil, rr.Fork(uint64(100+i)), 1+i%2, hard)
			if !ok {
				return nil, false
			}
			msgs = append(msgs, v)
		}
		return msgs, true
	}
	outcome := func(rr *vc.Rand, mode, k int) (*rt.GOutcome, bool) {
		oc := &rt.GOutcome{Kind: "result"}
		if m.Result == nil {
			return oc, true
		}
		if s2c {
			for i := 0; i < k; i++ {
				v, ok := gDraw(sp, m.Result, nil, rr.Fork(uint64(200+i)), (mode+i)%3, hard)
				if !ok {
					return nil, false
				}
				oc.Stream = append(oc.Stream, v)
			}
			return oc, true
		}
		v, ok := gDraw(sp, m.Result, respMeta, rr.Fork(300), mode, hard)
		if !ok {
			return nil, false
		}
		oc.Result = v
		return oc, true
	}
	fill := func(c *rt.GCase, rr *vc.Rand, mode, k int) bool {
		var ok bool
		if c.Sent, ok = payload(rr.Fork(1), mode); !ok {
			return false
		}
		c.NoPay = m.Payload == nil
		if c.Stream, ok = streamMsgs(rr.Fork(2), k); !ok {
			return false
		}
		if c.Outcome, ok = outcome(rr.Fork(3), (mode+1)%3, k); !ok {
			return false
		}
		return true
	}
	raw := func(c *rt.GCase) {
		md, msg := GSplit(sp, m, c.Sent)
		c.Raw = &rt.GRaw{MD: md, Msg: msg, Stream: c.Stream}
	}
	lens := []int{1, 3, 0, 2}
	// --- round trips through the generated client
	classes := []string{"minimal", "full", "random"}
	for i := 0; i < n; i++ {
		cl := classes[min(i, 2)]
		k := lens[i%len(lens)]
		c := mk("roundtrip", fmt.Sprintf("%s:stream-%d", cl, k), "client")
		if m.Stream == "" {
			c.Class = cl
		}
		if !fill(c, r.Fork(uint64(i)), i, k) {
			continue
		}
		out = append(out, c)
	}
	// --- the input classes proto3 cannot carry faithfully (see gFill) are drawn here only
	for i := 0; i < max(1, n/2); i++ {
		c := mk("roundtrip", "random+hard", []string{"client", "rawpb"}[i%2])
		hard = true
		ok := fill(c, r.Fork(uint64(500+i)), 1+i, 2)
		hard = false
		if !ok {
			continue
		}
		if c.Mode == "rawpb" {
			raw(c)
		}
		out = append(out, c)
	}
	// --- round trips with hand-built messages: as sent by another gRPC implementation
	for i := 0; i < max(1, n/2); i++ {
		c := mk("roundtrip", "rawpb-full", "rawpb")
		if !fill(c, r.Fork(uint64(1000+i)), 1+i%2, 1+i%2) {
			continue
		}
		if i == 0 && m.Payload != nil {
			// optional attributes with a default are left out of the message: only a hand-built message can do
			// that (the generated client always sets them). Metadata attributes are dropped as well.
			removed := dropDefaulted(sp, m.Payload.Type, c.Sent, nil, 0)
			for _, s := range c.Stream {
				if dropDefaulted(sp, m.StreamP.Type, s, nil, 0) {
					removed = true
				}
			}
			if removed {
				c.Class = "rawpb-defaults-absent"
			}
		}
		raw(c)
		out = append(out, c)
	}
	// --- Int / UInt beyond 32 bits (own class: goa maps both to 32-bit protobuf integers)
	if m.Payload != nil && m.Payload.Val.Empty() {
		c := mk("roundtrip", "wide-int", "client")
		if fill(c, r.Fork(2000), 1, 1) && widen(sp, m.Payload.Type, c.Sent, func(nv any) { c.Sent = nv }, 0) {
			out = append(out, c)
		}
	}
	// --- probes of the payload
	locOf := func(a string) valgen.Loc {
		if meta[a] {
			return valgen.Cookie // printable ASCII tokens: what metadata can carry
		}
		return valgen.Body
	}
	probe := func(clause string, attr *spec.Attr, budget int, salt uint64, locOf func(string) valgen.Loc, place func(c *rt.GCase, rr *vc.Rand, apply func(tree *any, rr *vc.Rand) (string, bool)) bool, modes []string) {
		if attr == nil {
			return
		}
		made := 0
		for i := 0; i < budget*3 && made < budget; i++ {
			rr := r.Fork(salt + uint64(i))
			mode := modes[i%len(modes)]
			var site Site
			apply := func(tree *any, rr *vc.Rand) (string, bool) {
				g := &valgen.G{S: sp, R: rr, Full: true}
				sites := TopSites(sp, g, m, attr, tree, locOf)
				var usable []Site
				for _, s := range sites {
					if s.Rule == "required" && mode == "client" {
						// the generated client can leave out message-typed attributes only; decided after Apply
					}
					usable = append(usable, s)
				}
				if len(usable) == 0 {
					return "", false
				}
				site = usable[rr.Intn(len(usable))]
				site.Apply()
				return site.Desc, true
			}
			c := mk(clause, "", mode)
			if !place(c, rr, apply) {
				id--
				continue
			}
			c.Class = "probe:" + site.Rule + ":" + site.Side
			c.Note["site"] = site.Desc
			c.Note["rule"] = site.Rule
			c.Note["side"] = site.Side
			if mode == "rawpb" {
				raw(c)
			}
			out = append(out, c)
			made++
		}
	}
	if m.Payload != nil {
		probe("probe-request", m.Payload, n, 3000, locOf, func(c *rt.GCase, rr *vc.Rand, apply func(*any, *vc.Rand) (string, bool)) bool {
			if !fill(c, rr, 1, 1) {
				return false
			}
			if _, ok := apply(&c.Sent, rr.Fork(9)); !ok {
				return false
			}
			metaTop := meta
			if c.Mode == "client" {
				metaTop = nil
			}
			return requiredExpressible(sp, m.Payload.Type, c.Sent, metaTop, "", 0)
		}, []string{"rawpb", "client"})
	}
	// --- probes of one streamed payload message
	if c2s {
		probe("probe-stream", m.StreamP, max(1, n/2), 4000, nil, func(c *rt.GCase, rr *vc.Rand, apply func(*any, *vc.Rand) (string, bool)) bool {
			k := 1 + rr.Intn(3)
			if !fill(c, rr, 1, k) {
				return false
			}
			at := rr.Intn(k)
			if _, ok := apply(&c.Stream[at], rr.Fork(9)); !ok {
				return false
			}
			c.Note["at"] = at
			return requiredExpressible(sp, m.StreamP.Type, c.Stream[at], nil, "", 0)
		}, []string{"rawpb", "client"})
	}
	// --- probes of the result (the generated client validates what it receives)
	if m.Result != nil {
		probe("probe-result", m.Result, max(1, n/2), 5000, func(a string) valgen.Loc {
			if respMeta[a] {
				return valgen.Cookie
			}
			return valgen.Body
		}, func(c *rt.GCase, rr *vc.Rand, apply func(*any, *vc.Rand) (string, bool)) bool {
			k := 1 + rr.Intn(3)
			if !fill(c, rr, 1, k) {
				return false
			}
			if s2c {
				at := rr.Intn(k)
				if _, ok := apply(&c.Outcome.Stream[at], rr.Fork(9)); !ok {
					return false
				}
				c.Note["at"] = at
				return requiredExpressible(sp, m.Result.Type, c.Outcome.Stream[at], nil, "", 0)
			}
			if _, ok := apply(&c.Outcome.Result, rr.Fork(9)); !ok {
				return false
			}
			return requiredExpressible(sp, m.Result.Type, c.Outcome.Result, nil, "", 0)
		}, []string{"client"})
	}
	// --- declared errors (counted only)
	for i, e := range m.Errors {
		if i > 0 {
			break
		}
		c := mk("error", "declared-error", "client")
		if !fill(c, r.Fork(uint64(6000+i)), 1, 1) {
			continue
		}
		c.Outcome = &rt.GOutcome{Kind: "error", ErrName: e.Name, ErrMsg: "scripted " + e.Name}
		out = append(out, c)
	}
	for _, c := range out {
		if c.Class == "wide-int" {
			continue
		}
		// values drawn by the probes are brought into the 32-bit envelope too
		if m.Payload != nil && c.Sent != nil {
			c.Sent = narrowInts(sp, m.Payload.Type, c.Sent, 0)
		}
		for i := range c.Stream {
			c.Stream[i] = narrowInts(sp, m.StreamP.Type, c.Stream[i], 0)
		}
		if c.Outcome != nil && m.Result != nil {
			if c.Outcome.Result != nil {
				c.Outcome.Result = narrowInts(sp, m.Result.Type, c.Outcome.Result, 0)
			}
			for i := range c.Outcome.Stream {
				c.Outcome.Stream[i] = narrowInts(sp, m.Result.Type, c.Outcome.Stream[i], 0)
			}
		}
		if c.Mode == "rawpb" {
			raw(c)
		}
	}
	_ = streamKind
	return out
}
