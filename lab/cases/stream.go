package cases

import (
	"encoding/json"
	"fmt"

	"verif.local/lab/rt"
	"verif.local/lab/spec"
	"verif.local/lab/valgen"
	"verif.local/lab/vc"
	"verif.local/lab/vtree"
)

// Streaming (websocket) cases for C02/C03: a valid initial payload (the handshake request), 0..4 valid
// messages per direction over the body value classes of valgen, scripted for the deterministic protocols
// of rt/stream.go. Classes (stable labels): empty, single, repeat (k equal messages), toggle (messages that
// differ only in one optional attribute), minimal (defaults and optional attributes left unset), full,
// mixed (random valid messages). Every fourth case is driven by the lab's own websocket client ("-raw").

// StreamMsg draws one valid message of type a (nil when no valid instance was found).
func StreamMsg(sp *spec.Spec, a *spec.Attr, r *vc.Rand, mode int) any {
	if a == nil {
		return nil
	}
	g := &valgen.G{S: sp, R: r, Minimal: mode == 0, Full: mode == 1}
	for i := 0; i < 20; i++ {
		v := g.Valid(a.Type, a.Val, valgen.Body, 0)
		if v != nil {
			return v
		}
	}
	return nil
}

// msgObject returns the object definition of a message type (nil when messages are not objects).
func msgObject(sp *spec.Spec, a *spec.Attr) *spec.Type {
	if a == nil {
		return nil
	}
	rt, _ := sp.Resolve(a.Type)
	if rt == nil || rt.Kind != spec.Object {
		return nil
	}
	return rt
}

// toggle derives from msg a message that differs only in one optional attribute (present <-> absent).
func toggle(sp *spec.Spec, a *spec.Attr, msg any, r *vc.Rand) (any, bool) {
	ot := msgObject(sp, a)
	o, ok := msg.(map[string]any)
	if ot == nil || !ok {
		return nil, false
	}
	var opt []*spec.Attr
	for _, at := range ot.Attrs {
		if !ot.IsRequired(at.Name) && !at.HasDef {
			opt = append(opt, at)
		}
	}
	if len(opt) == 0 {
		return nil, false
	}
	at := opt[r.Intn(len(opt))]
	c, _ := vtree.Clone(msg).(map[string]any)
	if v, has := o[at.Name]; has && v != nil {
		delete(c, at.Name)
		return c, true
	}
	g := &valgen.G{S: sp, R: r, Full: true}
	v := g.Valid(at.Type, at.Val, valgen.Body, 1)
	if v == nil {
		return nil, false
	}
	c[at.Name] = v
	return c, true
}

// sequence draws the messages of one direction for a class.
func sequence(sp *spec.Spec, a *spec.Attr, r *vc.Rand, class string, n int) []any {
	if a == nil {
		return nil
	}
	var out []any
	switch class {
	case "empty":
		return nil
	case "single":
		if v := StreamMsg(sp, a, r, 2); v != nil {
			out = append(out, v)
		}
	case "repeat":
		if v := StreamMsg(sp, a, r, 2); v != nil {
			for i := 0; i < n; i++ {
				out = append(out, vtree.Clone(v))
			}
		}
	case "toggle":
		v := StreamMsg(sp, a, r, 1)
		if v == nil {
			return nil
		}
		out = append(out, v)
		for i := 1; i < n; i++ {
			if t, ok := toggle(sp, a, out[len(out)-1], r.Fork(uint64(i))); ok {
				out = append(out, t)
			} else {
				out = append(out, vtree.Clone(v))
			}
		}
	case "minimal", "full":
		mode := 0
		if class == "full" {
			mode = 1
		}
		for i := 0; i < n; i++ {
			if v := StreamMsg(sp, a, r.Fork(uint64(i)), mode); v != nil {
				out = append(out, v)
			}
		}
	default:
		for i := 0; i < n; i++ {
			if v := StreamMsg(sp, a, r.Fork(uint64(i)), 2+i); v != nil {
				out = append(out, v)
			}
		}
	}
	return out
}

// RawFrame renders a message tree as the JSON text the design prescribes (member names = attribute names).
func RawFrame(tree any) (string, error) {
	j := ToJSON(tree)
	if j == nil {
		// an absent/empty message still is a message: render the empty value of its shape
		switch tree.(type) {
		case []any:
			return "[]", nil
		case map[string]any:
			return "{}", nil
		}
	}
	b, err := json.Marshal(j)
	return string(b), err
}

var streamClasses = []string{"single", "empty", "repeat", "toggle", "minimal", "full", "mixed", "mixed"}

// Stream builds the case list of a streaming method.
func Stream(sp *spec.Spec, sv *spec.Service, m *spec.Method, r *vc.Rand, n int, startID int) []*rt.Case {
	if m.Stream == "" || m.HTTP == nil {
		return nil
	}
	var out []*rt.Case
	for i := 0; i < n; i++ {
		rr := r.Fork(uint64(i))
		class := streamClasses[i%len(streamClasses)]
		count := 1 + rr.Intn(4) // 1..4
		switch class {
		case "empty":
			count = 0
		case "single":
			count = 1
		case "repeat", "toggle":
			count = 2 + rr.Intn(3)
		case "mixed":
			count = rr.Intn(5) // 0..4
		}
		c := &rt.Case{ID: startID + len(out), Svc: sv.Name, Method: m.Name}
		c.Sent, c.NoPay = Payload(sp, m, rr.Fork(1), []int{1, 0, 2}[i%3])
		if c.Sent == nil && !c.NoPay && m.Payload != nil {
			continue // no transport-safe valid initial payload for this draw
		}
		sc := &rt.StreamScript{Kind: m.Stream}
		oc := &rt.Outcome{Kind: "result"}
		label := class
		switch m.Stream {
		case "server":
			oc.StreamResults = sequence(sp, m.Result, rr.Fork(2), class, count)
		case "client":
			sc.Send = sequence(sp, m.StreamP, rr.Fork(3), class, count)
			if m.Result != nil {
				oc.Result = Result(sp, m, rr.Fork(4), []int{1, 0, 2}[(i/3)%3])
			}
		case "bidi":
			sc.Proto = []string{"phased", "pingpong"}[(i/2)%2]
			sc.Send = sequence(sp, m.StreamP, rr.Fork(3), class, count)
			back := count
			if sc.Proto == "phased" && class == "mixed" {
				back = rr.Intn(5) // the two directions need not carry the same number of messages
			}
			oc.StreamResults = sequence(sp, m.Result, rr.Fork(2), class, back)
			if sc.Proto == "pingpong" {
				// one answer per message
				k := min(len(sc.Send), len(oc.StreamResults))
				sc.Send, oc.StreamResults = sc.Send[:k], oc.StreamResults[:k]
			}
			label += "-" + sc.Proto
		}
		if v := viewsOf(sp, m); len(v) > 0 {
			oc.View = v[rr.Intn(len(v))]
		}
		if i%4 == 3 {
			// the lab's own websocket client: URL and headers from the spec, JSON frames from the attribute names
			if rq, err := Raw(sp, sv, m, c.Sent, i%len(m.HTTP.Routes)); err == nil && len(rq.Body) == 0 {
				ok := true
				for _, tr := range sc.Send {
					f, err := RawFrame(tr)
					if err != nil {
						ok = false
						break
					}
					sc.RawFrames = append(sc.RawFrames, f)
				}
				if ok {
					c.Raw = rq
					sc.RawClient = true
					label += "-raw"
				}
			}
		}
		c.Class = "stream:" + label
		c.Stream, c.Outcome = sc, oc
		c.Note = map[string]any{"stream_sig": fmt.Sprintf("%s|%s|%s|%d>%d", m.Stream, MsgKind(sp, m.StreamP), MsgKind(sp, m.Result), len(sc.Send), len(oc.StreamResults))}
		out = append(out, c)
	}
	return out
}

// MsgKind names the kind of a message type for coverage signatures.
func MsgKind(sp *spec.Spec, a *spec.Attr) string {
	if a == nil {
		return "none"
	}
	rt, ut := sp.Resolve(a.Type)
	if rt == nil {
		rt = a.Type
	}
	k := rt.Kind
	switch {
	case a.Type.Kind == spec.Array && a.Type.Collection:
		k = "collection"
	case ut != nil && ut.Kind == "result":
		k = "resulttype"
	case ut != nil:
		k = "usertype"
	case rt.Kind == spec.Object:
		k = "inline"
	}
	return k
}

// StreamInvalid builds C04's cases for a client or bidirectional (phased) streaming method: a short valid sequence of
// streamed messages in which ONE message carries a boundary probe of a validation rule of the streaming payload type
// (both sides of the rule: the oracle decides validity). Every fourth case goes through the lab's own websocket client.
// Methods whose streaming payload has no validation rule yield nothing.
func StreamInvalid(sp *spec.Spec, sv *spec.Service, m *spec.Method, r *vc.Rand, n int, startID int) []*rt.Case {
	if m.HTTP == nil || (m.Stream != "client" && m.Stream != "bidi") || m.StreamP == nil {
		return nil
	}
	var out []*rt.Case
	for i := 0; i < n; i++ {
		rr := r.Fork(uint64(i))
		seq := sequence(sp, m.StreamP, rr.Fork(3), "random", 3)
		if len(seq) == 0 {
			continue
		}
		k := rr.Intn(len(seq))
		msg := vtree.Clone(seq[k])
		g := &valgen.G{S: sp, R: rr.Fork(5)}
		sites := Sites(sp, g, m.StreamP.Type, m.StreamP.Val, msg, "", valgen.Body, func(nv any) { msg = nv }, 0)
		if len(sites) == 0 {
			return out
		}
		site := sites[(i*7+rr.Intn(len(sites)))%len(sites)]
		site.Apply()
		seq[k] = msg
		c := &rt.Case{ID: startID + len(out), Svc: sv.Name, Method: m.Name}
		c.Sent, c.NoPay = Payload(sp, m, rr.Fork(1), 1)
		if c.Sent == nil && !c.NoPay && m.Payload != nil {
			continue
		}
		sc := &rt.StreamScript{Kind: m.Stream, Send: seq}
		oc := &rt.Outcome{Kind: "result"}
		if m.Stream == "client" {
			if m.Result != nil {
				oc.Result = Result(sp, m, rr.Fork(4), 1)
			}
		} else {
			sc.Proto = "phased"
			oc.StreamResults = sequence(sp, m.Result, rr.Fork(2), "random", 2)
		}
		if v := viewsOf(sp, m); len(v) > 0 {
			oc.View = v[0]
		}
		label := "stream-probe:" + site.Rule + ":" + site.Side
		if i%4 == 3 {
			if rq, err := Raw(sp, sv, m, c.Sent, i%len(m.HTTP.Routes)); err == nil && len(rq.Body) == 0 {
				ok := true
				for _, tr := range sc.Send {
					f, err := RawFrame(tr)
					if err != nil {
						ok = false
						break
					}
					sc.RawFrames = append(sc.RawFrames, f)
				}
				if ok {
					c.Raw = rq
					sc.RawClient = true
					label += "-raw"
				}
			}
		}
		c.Class = label
		c.Stream, c.Outcome = sc, oc
		c.Note = map[string]any{"stream_probe_index": k, "site": site.Desc, "stream_sig": fmt.Sprintf("%s|%s|probe", m.Stream, MsgKind(sp, m.StreamP))}
		out = append(out, c)
	}
	return out
}
