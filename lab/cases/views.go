package cases

import (
	"verif.local/lab/rt"
	"verif.local/lab/spec"
	"verif.local/lab/vc"
)

// ViewsOf is exported for oracles.
func ViewsOf(sp *spec.Spec, m *spec.Method) []string { return viewsOf(sp, m) }

// ResultUserType returns the result type (with views) a method returns, and whether it is a collection.
func ResultUserType(sp *spec.Spec, m *spec.Method) (*spec.UserType, bool) {
	if m.Result == nil {
		return nil, false
	}
	t := m.Result.Type
	coll := false
	if t.Kind == spec.Array && t.Collection {
		t = t.Elem.Type
		coll = true
	}
	_, ut := sp.Resolve(t)
	if ut == nil || ut.Kind != "result" {
		return nil, false
	}
	return ut, coll
}

// Views builds the C08 case list of one method.
func Views(sp *spec.Spec, sv *spec.Service, m *spec.Method, r *vc.Rand, n int, startID int) []*rt.Case {
	ut, _ := ResultUserType(sp, m)
	if ut == nil {
		return nil
	}
	var out []*rt.Case
	id := startID
	views := viewsOf(sp, m)
	for vi, view := range views {
		for k := 0; k < 4; k++ {
			rr := r.Fork(uint64(vi*16 + k))
			c := &rt.Case{ID: id, Svc: sv.Name, Method: m.Name, Class: "view", Note: map[string]any{"mode": "client", "view": view}}
			id++
			c.Sent, c.NoPay = Payload(sp, m, rr, 1)
			if c.Sent == nil && !c.NoPay && m.Payload != nil {
				continue
			}
			c.Outcome = &rt.Outcome{Kind: "result", Result: Result(sp, m, rr.Fork(9), []int{1, 1, 2, 0}[k]), View: view}
			out = append(out, c)
			// relabelled responses: every other defined view and undefined names
			if k == 0 && m.Result.View == "" {
				for _, other := range append(allViews(ut), "no_such_view", "Default", " default") {
					if other == view {
						continue
					}
					c2 := *c
					c2.ID = id
					id++
					c2.Class = "relabel"
					c2.Note = map[string]any{"mode": "client", "view": view, "relabel": other}
					c2.RespHeader = map[string]string{"goa-view": other}
					out = append(out, &c2)
				}
			}
		}
	}
	return out
}

func allViews(ut *spec.UserType) []string {
	var vs []string
	for _, v := range ut.Views {
		vs = append(vs, v.Name)
	}
	return vs
}
