package pipeline

import (
	"bytes"
	"fmt"
	"go/ast"
	"go/parser"
	"go/token"
	"os"
	"path/filepath"
	"sort"
	"strings"
	"time"
)

// gRPC harness (runtime half of C10): per design, <design>/zzg/<id>/main.go with delegating stubs for
// the generated Service interfaces (signatures copied from gen/<svc>/service.go by parseService, so
// streaming methods need no special case) and a registry of the generated gRPC constructors:
// NewEndpoints, gen/grpc/<svc>/server.New, gen/grpc/<svc>/client.NewClient, pb.Register<Svc>Server,
// pb.New<Svc>Client, plus the Go types of union alternatives and of every protobuf message (needed to
// build values by reflection). The binary is rtgrpc.Main.

// unionMembers lists the types of gen/<svc>/service.go that implement a union marker method
// (func (T) xVal() {} / func (*T) xVal() {}).
func unionMembers(path string) (vals, ptrs []string, err error) {
	fset := token.NewFileSet()
	f, err := parser.ParseFile(fset, path, nil, 0)
	if err != nil {
		return nil, nil, err
	}
	seenV, seenP := map[string]bool{}, map[string]bool{}
	for _, d := range f.Decls {
		fd, ok := d.(*ast.FuncDecl)
		if !ok || fd.Recv == nil || len(fd.Recv.List) != 1 || ast.IsExported(fd.Name.Name) || !strings.HasSuffix(fd.Name.Name, "Val") {
			continue
		}
		if fd.Type.Params.NumFields() != 0 || fd.Type.Results.NumFields() != 0 {
			continue
		}
		switch t := fd.Recv.List[0].Type.(type) {
		case *ast.Ident:
			if !seenV[t.Name] {
				seenV[t.Name] = true
				vals = append(vals, t.Name)
			}
		case *ast.StarExpr:
			if id, ok := t.X.(*ast.Ident); ok && !seenP[id.Name] {
				seenP[id.Name] = true
				ptrs = append(ptrs, id.Name)
			}
		}
	}
	sort.Strings(vals)
	sort.Strings(ptrs)
	return vals, ptrs, nil
}

// pbInfo is what the harness learns from gen/grpc/<svc>/pb/*.go.
type pbInfo struct {
	Structs  []string // exported struct types (messages and oneof wrappers)
	Register string   // Register<Svc>Server
	NewCli   string   // New<Svc>Client
}

func parsePB(dir string) (*pbInfo, error) {
	ents, err := os.ReadDir(dir)
	if err != nil {
		return nil, err
	}
	pi := &pbInfo{}
	for _, e := range ents {
		if !strings.HasSuffix(e.Name(), ".pb.go") {
			continue
		}
		fset := token.NewFileSet()
		f, err := parser.ParseFile(fset, filepath.Join(dir, e.Name()), nil, 0)
		if err != nil {
			return nil, err
		}
		for _, d := range f.Decls {
			switch g := d.(type) {
			case *ast.GenDecl:
				for _, sp := range g.Specs {
					ts, ok := sp.(*ast.TypeSpec)
					if !ok || !ast.IsExported(ts.Name.Name) {
						continue
					}
					if _, ok := ts.Type.(*ast.StructType); ok && !strings.HasPrefix(ts.Name.Name, "Unimplemented") {
						pi.Structs = append(pi.Structs, ts.Name.Name)
					}
				}
			case *ast.FuncDecl:
				if g.Recv != nil {
					continue
				}
				n := g.Name.Name
				switch {
				case strings.HasPrefix(n, "Register") && strings.HasSuffix(n, "Server"):
					pi.Register = n
				case strings.HasPrefix(n, "New") && strings.HasSuffix(n, "Client"):
					pi.NewCli = n
				}
			}
		}
	}
	sort.Strings(pi.Structs)
	if pi.Register == "" || pi.NewCli == "" {
		return nil, fmt.Errorf("%s: no Register<Svc>Server / New<Svc>Client found", dir)
	}
	return pi, nil
}

// GRPCDriverDir is the directory (relative to the design) of the gRPC driver main package.
func GRPCDriverDir(d *Design) string { return filepath.Join("zzg", d.ID) }

// WriteGRPCHarness writes <design>/zzg/<id>/main.go.
func (b *Batch) WriteGRPCHarness(d *Design) error {
	genDir := filepath.Join(d.Dir, "gen")
	ents, err := os.ReadDir(filepath.Join(genDir, "grpc"))
	if err != nil {
		return err
	}
	type gsvc struct {
		si         *svcInfo
		pb         *pbInfo
		uvals, upt []string
	}
	var svcs []*gsvc
	for _, e := range ents {
		if !e.IsDir() || e.Name() == "cli" {
			continue
		}
		if _, err := os.Stat(filepath.Join(genDir, "grpc", e.Name(), "server", "server.go")); err != nil {
			continue
		}
		alias := fmt.Sprintf("svc%d", len(svcs))
		si, err := parseService(filepath.Join(genDir, e.Name()), alias)
		if err != nil {
			return err
		}
		pi, err := parsePB(filepath.Join(genDir, "grpc", e.Name(), "pb"))
		if err != nil {
			return err
		}
		uv, up, err := unionMembers(filepath.Join(genDir, e.Name(), "service.go"))
		if err != nil {
			return err
		}
		svcs = append(svcs, &gsvc{si: si, pb: pi, uvals: uv, upt: up})
	}
	if len(svcs) == 0 {
		return fmt.Errorf("no generated gRPC service")
	}
	imports := map[string]string{}
	base := b.Module + "/" + d.ID + "/gen"
	for i, g := range svcs {
		imports[fmt.Sprintf("svc%d", i)] = base + "/" + g.si.Dir
		imports[fmt.Sprintf("gsrv%d", i)] = base + "/grpc/" + g.si.Dir + "/server"
		imports[fmt.Sprintf("gcli%d", i)] = base + "/grpc/" + g.si.Dir + "/client"
		imports[fmt.Sprintf("pb%d", i)] = base + "/grpc/" + g.si.Dir + "/pb"
		for a, p := range g.si.Imports {
			if old, ok := imports[a]; ok && old != p {
				return fmt.Errorf("import alias clash %s: %s vs %s", a, old, p)
			}
			imports[a] = p
		}
	}
	imports["rtgrpc"] = "verif.local/lab/rtgrpc"
	imports["context"] = "context"
	imports["reflect"] = "reflect"
	var src bytes.Buffer
	src.WriteString("// Code generated by the lab gRPC harness. DO NOT EDIT.\npackage main\n\nimport (\n")
	aliases := make([]string, 0, len(imports))
	for a := range imports {
		aliases = append(aliases, a)
	}
	sort.Strings(aliases)
	for _, a := range aliases {
		fmt.Fprintf(&src, "\t%s %q\n", a, imports[a])
	}
	src.WriteString(")\n\nvar _ context.Context\nvar _ reflect.Type\n\n")
	for i, g := range svcs {
		fmt.Fprintf(&src, "type stub%d struct{ h *rtgrpc.Hooks }\n\n", i)
		for _, m := range g.si.Methods {
			var ps, rs, args []string
			for _, p := range m.Params {
				ps = append(ps, p.Name+" "+p.Type)
			}
			for _, r := range m.Results {
				rs = append(rs, r.Name+" "+r.Type)
			}
			for _, p := range m.Params[1:] {
				args = append(args, p.Name)
			}
			out := "rtgrpc.Out{"
			switch len(m.Results) {
			case 1:
				out += "Err: &r0"
			case 2:
				out += "Res: &r0, Err: &r1"
			case 3:
				out += "Res: &r0, View: &r1, Err: &r2"
			}
			out += "}"
			fmt.Fprintf(&src, "func (s *stub%d) %s(%s) (%s) {\n\ts.h.Invoke(a0, %q, []any{%s}, %s)\n\treturn\n}\n\n",
				i, m.Name, strings.Join(ps, ", "), strings.Join(rs, ", "), m.Name, strings.Join(args, ", "), out)
		}
	}
	src.WriteString("func main() {\n\trtgrpc.Main(&rtgrpc.Design{Services: []*rtgrpc.Svc{\n")
	for i, g := range svcs {
		fmt.Fprintf(&src, "\t\t{\n\t\t\tName: %q,\n\t\t\tNewEndpoints: svc%d.NewEndpoints,\n\t\t\tServerNew: gsrv%d.New,\n\t\t\tClientNew: gcli%d.NewClient,\n", g.si.Design, i, i, i)
		fmt.Fprintf(&src, "\t\t\tRegister: pb%d.%s,\n\t\t\tPBClientNew: pb%d.%s,\n", i, g.pb.Register, i, g.pb.NewCli)
		fmt.Fprintf(&src, "\t\t\tStub: func(h *rtgrpc.Hooks) any { return &stub%d{h} },\n", i)
		fmt.Fprintf(&src, "\t\t\tMethodNames: svc%d.MethodNames[:],\n\t\t\tGoNames: []string{", i)
		for _, m := range g.si.Methods {
			fmt.Fprintf(&src, "%q, ", m.Name)
		}
		src.WriteString("},\n\t\t\tUnionTypes: []reflect.Type{\n")
		for _, n := range g.uvals {
			fmt.Fprintf(&src, "\t\t\t\treflect.TypeOf(*new(svc%d.%s)),\n", i, n)
		}
		for _, n := range g.upt {
			fmt.Fprintf(&src, "\t\t\t\treflect.TypeOf((*svc%d.%s)(nil)),\n", i, n)
		}
		src.WriteString("\t\t\t},\n\t\t\tPBTypes: []reflect.Type{\n")
		for _, n := range g.pb.Structs {
			fmt.Fprintf(&src, "\t\t\t\treflect.TypeOf((*pb%d.%s)(nil)),\n", i, n)
		}
		src.WriteString("\t\t\t},\n\t\t},\n")
	}
	src.WriteString("\t}})\n}\n")
	zz := filepath.Join(d.Dir, GRPCDriverDir(d))
	if err := os.MkdirAll(zz, 0o755); err != nil {
		return err
	}
	return os.WriteFile(filepath.Join(zz, "main.go"), src.Bytes(), 0o644)
}

// BuildGRPCDrivers compiles the gRPC driver binaries of the given designs into <batch>/gbin/<id> with ONE
// go build invocation (the packages share the grpc/goa dependencies; the main packages are named after
// their design so the binaries do not collide). Designs whose binary is missing afterwards are built
// again one by one so that the diagnostics are attributed; the result maps design id -> error text.
func (b *Batch) BuildGRPCDrivers(ds []*Design) map[string]string {
	errs := map[string]string{}
	if len(ds) == 0 {
		return errs
	}
	bin := filepath.Join(b.Dir, "gbin")
	_ = os.MkdirAll(bin, 0o755)
	// -s -w: the binaries are many and short-lived; tracebacks only need the pclntab, which stays
	args := []string{"build", "-ldflags=-s -w", "-o", bin + string(filepath.Separator)}
	for _, d := range ds {
		args = append(args, "./"+d.ID+"/"+filepath.ToSlash(GRPCDriverDir(d)))
	}
	_, _, _ = b.run(b.Dir, 20*time.Minute, "go", args...)
	var missing []*Design
	for _, d := range ds {
		if _, err := os.Stat(b.GRPCDriverPath(d)); err != nil {
			missing = append(missing, d)
		}
	}
	sem := make(chan struct{}, b.Par)
	done := make(chan [2]string, len(missing))
	for _, d := range missing {
		sem <- struct{}{}
		go func(d *Design) {
			defer func() { <-sem }()
			_, se, err := b.run(b.Dir, 20*time.Minute, "go", "build", "-ldflags=-s -w", "-o", b.GRPCDriverPath(d), "./"+d.ID+"/"+filepath.ToSlash(GRPCDriverDir(d)))
			if err != nil {
				done <- [2]string{d.ID, tail(se, 3000)}
				return
			}
			done <- [2]string{d.ID, ""}
		}(d)
	}
	for range missing {
		r := <-done
		if r[1] != "" {
			errs[r[0]] = r[1]
		}
	}
	return errs
}

// GRPCDriverPath returns the gRPC driver binary of a design.
func (b *Batch) GRPCDriverPath(d *Design) string { return filepath.Join(b.Dir, "gbin", d.ID) }
