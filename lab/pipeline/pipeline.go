// Package pipeline runs specs through the real goa tool chain in a scratch
// module: print DSL -> build one labgen binary per batch -> one fresh process
// per design (eval.RunDSL + generator.Generate gen/example) -> go build of the
// generated packages. It only records what happened.
package pipeline

import (
	"bytes"
	"crypto/sha256"
	"encoding/hex"
	"encoding/json"
	"fmt"
	"os"
	"os/exec"
	"path/filepath"
	"regexp"
	"sort"
	"strings"
	"sync"
	"time"

	"verif.local/lab/dslprint"
	"verif.local/lab/spec"
	"verif.local/lab/vc"
)

// Design is one spec going through the pipeline.
type Design struct {
	Spec     *spec.Spec          `json:"spec"`
	ID       string              `json:"id"`  // dNNNN
	Dir      string              `json:"dir"` // absolute output dir
	DSL      string              `json:"dsl"`
	Status   string              `json:"status"` // accepted rejected panic generror timeout crash
	Phase    string              `json:"phase,omitempty"`
	Errors   string              `json:"errors,omitempty"`
	Stack    string              `json:"stack,omitempty"`
	Stderr   string              `json:"stderr,omitempty"`
	Files    map[string][]string `json:"files,omitempty"` // per command
	Sums     map[string]string   `json:"sums,omitempty"`  // relative path -> sha256
	Diags    []string            `json:"diags,omitempty"` // compile diagnostics
	Compiled bool                `json:"compiled"`
	GenSecs  float64             `json:"gen_secs"`
}

// Batch is a scratch module holding several designs.
type Batch struct {
	Dir     string
	Module  string
	Repo    string
	Designs []*Design
	Cmds    []string // generator commands to run, default gen,example
	Par     int
	labgen  string
	Env     []string
}

// Repo returns the goa checkout under test.
func Repo() string {
	if r := os.Getenv("VERIF_REPO"); r != "" {
		return r
	}
	return "/repo"
}

func goEnv() []string {
	env := os.Environ()
	env = append(env, "GOFLAGS=-mod=mod", "GOPROXY=off", "GOSUMDB=off", "GOTOOLCHAIN=local")
	return env
}

// NewBatch creates the scratch module under dir.
func NewBatch(dir string, specs []*spec.Spec) (*Batch, error) {
	b := &Batch{Dir: dir, Module: "labbatch", Repo: Repo(), Cmds: []string{"gen", "example"}, Par: 16, Env: goEnv()}
	if err := os.MkdirAll(filepath.Join(dir, "designs"), 0o755); err != nil {
		return nil, err
	}
	if err := os.MkdirAll(filepath.Join(dir, "cmd", "labgen"), 0o755); err != nil {
		return nil, err
	}
	gomod := fmt.Sprintf(`module labbatch

go 1.22.0

require (
	goa.design/goa/v3 v3.0.0
	goa.design/clue v0.0.0
	verif.local/lab v0.0.0
)

replace goa.design/goa/v3 => %s

replace goa.design/clue => %s/standins/clue

replace verif.local/lab => %s/lab
`, b.Repo, vc.Root(), vc.Root())
	if err := os.WriteFile(filepath.Join(dir, "go.mod"), []byte(gomod), 0o644); err != nil {
		return nil, err
	}
	sum, _ := os.ReadFile(filepath.Join(b.Repo, "go.sum"))
	_ = os.WriteFile(filepath.Join(dir, "go.sum"), sum, 0o644)
	var idx strings.Builder
	idx.WriteString("package designs\n\nvar All = map[string]func(){\n")
	for i, s := range specs {
		id := fmt.Sprintf("d%04d", i)
		d := &Design{Spec: s, ID: id, Dir: filepath.Join(dir, id)}
		fn := "D" + id[1:]
		d.DSL = dslprint.Func(s, fn)
		src := "package designs\n\nimport (\n\t. \"goa.design/goa/v3/dsl\"\n\t\"goa.design/goa/v3/expr\"\n)\n\nvar _ expr.UserType\nvar _ = API\n\n" + d.DSL
		if err := os.WriteFile(filepath.Join(dir, "designs", id+".go"), []byte(src), 0o644); err != nil {
			return nil, err
		}
		fmt.Fprintf(&idx, "\t%q: %s,\n", id, fn)
		b.Designs = append(b.Designs, d)
	}
	idx.WriteString("}\n")
	if err := os.WriteFile(filepath.Join(dir, "designs", "index.go"), []byte(idx.String()), 0o644); err != nil {
		return nil, err
	}
	if err := os.WriteFile(filepath.Join(dir, "cmd", "labgen", "main.go"), []byte(labgenMain), 0o644); err != nil {
		return nil, err
	}
	return b, nil
}

const labgenMain = `// labgen: ONE design per process, as the real goa tool does.
package main

import (
	"encoding/json"
	"fmt"
	"os"
	"runtime/debug"

	"goa.design/goa/v3/codegen/generator"
	"goa.design/goa/v3/eval"
	"labbatch/designs"
)

type status struct {
	Status string              ` + "`json:\"status\"`" + `
	Phase  string              ` + "`json:\"phase\"`" + `
	Errors string              ` + "`json:\"errors\"`" + `
	Stack  string              ` + "`json:\"stack\"`" + `
	Files  map[string][]string ` + "`json:\"files\"`" + `
}

func main() {
	id, dir := os.Args[1], os.Args[2]
	debug.SetMaxStack(96 << 20) // unbounded recursion in a generator surfaces as a fatal error quickly
	st := &status{Files: map[string][]string{}}
	func() {
		defer func() {
			if x := recover(); x != nil {
				st.Status = "panic"
				st.Errors = fmt.Sprint(x)
				st.Stack = string(debug.Stack())
			}
		}()
		st.Phase = "dsl"
		f := designs.All[id]
		if f == nil {
			st.Status = "nodesign"
			return
		}
		f()
		st.Phase = "eval"
		if err := eval.RunDSL(); err != nil {
			st.Status = "rejected"
			st.Errors = err.Error()
			return
		}
		for _, cmd := range os.Args[3:] {
			st.Phase = cmd
			out, err := generator.Generate(dir, cmd)
			if err != nil {
				st.Status = "generror"
				st.Errors = err.Error()
				return
			}
			st.Files[cmd] = out
		}
		st.Status = "accepted"
	}()
	b, _ := json.Marshal(st)
	fmt.Println("LABGEN-STATUS " + string(b))
}
`

func (b *Batch) run(dir string, timeout time.Duration, name string, args ...string) (string, string, error) {
	cmd := exec.Command(name, args...)
	cmd.Dir = dir
	cmd.Env = b.Env
	var so, se bytes.Buffer
	cmd.Stdout, cmd.Stderr = &so, &se
	if err := cmd.Start(); err != nil {
		return "", "", err
	}
	done := make(chan error, 1)
	go func() { done <- cmd.Wait() }()
	select {
	case err := <-done:
		return so.String(), se.String(), err
	case <-time.After(timeout):
		_ = cmd.Process.Signal(os.Interrupt)
		time.Sleep(200 * time.Millisecond)
		_ = cmd.Process.Kill()
		<-done
		return so.String(), se.String(), fmt.Errorf("timeout after %v", timeout)
	}
}

// BuildLabgen compiles the batch's generator binary.
func (b *Batch) BuildLabgen() error {
	b.labgen = filepath.Join(b.Dir, "labgen.bin")
	_, se, err := b.run(b.Dir, 10*time.Minute, "go", "build", "-o", b.labgen, "./cmd/labgen")
	if err != nil {
		return fmt.Errorf("labgen build failed (design printer bug or /repo does not compile): %v\n%s", err, se)
	}
	return nil
}

// Generate runs every design in its own process (parallel).
func (b *Batch) Generate() {
	var wg sync.WaitGroup
	sem := make(chan struct{}, b.Par)
	for _, d := range b.Designs {
		wg.Add(1)
		sem <- struct{}{}
		go func(d *Design) {
			defer wg.Done()
			defer func() { <-sem }()
			b.GenerateOne(d, d.Dir)
		}(d)
	}
	wg.Wait()
}

// GenerateOne runs labgen for d into dir and fills the status fields.
func (b *Batch) GenerateOne(d *Design, dir string) {
	_ = os.MkdirAll(dir, 0o755)
	t0 := time.Now()
	args := append([]string{d.ID, dir}, b.Cmds...)
	so, se, err := b.run(b.Dir, 45*time.Second, b.labgen, args...)
	d.GenSecs = time.Since(t0).Seconds()
	d.Stderr = tail(se, 4000)
	i := strings.LastIndex(so, "LABGEN-STATUS ")
	if i < 0 {
		d.Status = "crash"
		if err != nil && strings.Contains(err.Error(), "timeout") {
			d.Status = "timeout"
		}
		d.Errors = fmt.Sprintf("%v", err)
		d.Stack = headS(se, 8000)
		return
	}
	var st struct {
		Status, Phase, Errors, Stack string
		Files                        map[string][]string
	}
	line := so[i+len("LABGEN-STATUS "):]
	if j := strings.IndexByte(line, '\n'); j >= 0 {
		line = line[:j]
	}
	if e := json.Unmarshal([]byte(line), &st); e != nil {
		d.Status = "crash"
		d.Errors = "bad status line: " + e.Error()
		return
	}
	d.Status, d.Phase, d.Errors, d.Stack, d.Files = st.Status, st.Phase, st.Errors, st.Stack, st.Files
	if d.Status == "accepted" {
		d.Sums = SumTree(dir)
	}
}

// SumTree returns relative path -> sha256 for every regular file below dir.
func SumTree(dir string) map[string]string {
	out := map[string]string{}
	_ = filepath.Walk(dir, func(p string, info os.FileInfo, err error) error {
		if err != nil || info.IsDir() {
			return nil
		}
		rel, _ := filepath.Rel(dir, p)
		if strings.HasPrefix(rel, "zz") {
			return nil
		}
		b, e := os.ReadFile(p)
		if e != nil {
			return nil
		}
		h := sha256.Sum256(b)
		out[rel] = hex.EncodeToString(h[:])
		return nil
	})
	return out
}

func tail(s string, n int) string {
	if len(s) > n {
		return "…" + s[len(s)-n:]
	}
	return s
}

var diagRe = regexp.MustCompile(`^(d\d{4})/(\S+?):(\d+):(\d+): (.*)$`)

// Compile type-checks/compiles all generated packages of accepted designs with
// one go build invocation and attributes diagnostics to designs.
func (b *Batch) Compile() error {
	var pats []string
	byID := map[string]*Design{}
	for _, d := range b.Designs {
		byID[d.ID] = d
		if d.Status == "accepted" {
			pats = append(pats, "./"+d.ID+"/...")
			d.Compiled = true
		}
	}
	if len(pats) == 0 {
		return nil
	}
	args := append([]string{"build", "-gcflags=-e"}, pats...)
	so, se, err := b.run(b.Dir, 30*time.Minute, "go", args...)
	out := so + se
	if err == nil {
		return nil
	}
	matched := 0
	var cur *Design
	for _, l := range strings.Split(out, "\n") {
		if m := diagRe.FindStringSubmatch(l); m != nil {
			if d := byID[m[1]]; d != nil {
				d.Compiled = false
				d.Diags = append(d.Diags, m[2]+":"+m[3]+": "+m[5])
				matched++
				cur = d
				continue
			}
		}
		if strings.HasPrefix(l, "\t") && cur != nil && len(cur.Diags) > 0 {
			continue // continuation line ("other declaration of")
		}
		cur = nil
	}
	if matched == 0 {
		return fmt.Errorf("go build failed without attributable diagnostics: %v\n%s", err, tail(out, 3000))
	}
	// a package that failed hides errors of its dependents; dependents of a failed package in the
	// same design are already marked. Stand-in package errors are infrastructure errors.
	if strings.Contains(out, "standins/clue") {
		return fmt.Errorf("diagnostic inside stand-in package: %s", tail(out, 2000))
	}
	return nil
}

var identRe = regexp.MustCompile(`[A-Za-z_][A-Za-z0-9_]*`)
var numRe = regexp.MustCompile(`\d+`)

// NormDiag turns a diagnostic into a key: file role + message with identifiers abstracted.
func NormDiag(diag string) string {
	// diag = path:line: message
	i := strings.Index(diag, ": ")
	path, msg := diag, ""
	if i >= 0 {
		path, msg = diag[:i], diag[i+2:]
	}
	if j := strings.LastIndex(path, ":"); j >= 0 {
		path = path[:j]
	}
	return FileRole(path) + ": " + NormMsg(msg)
}

// FileRole abstracts service/API names out of a generated file path.
func FileRole(path string) string {
	parts := strings.Split(path, "/")
	for i, p := range parts {
		switch {
		case i > 0 && (parts[i-1] == "http" || parts[i-1] == "grpc") && p != "cli" && !strings.Contains(p, "."):
			parts[i] = "<svc>"
		case i > 0 && parts[i-1] == "gen" && p != "http" && p != "grpc" && !strings.Contains(p, "."):
			parts[i] = "<svc>"
		case i > 0 && parts[i-1] == "cmd":
			if strings.HasSuffix(p, "-cli") {
				parts[i] = "<api>-cli"
			} else {
				parts[i] = "<api>"
			}
		case i > 1 && parts[i-2] == "http" && parts[i-1] == "cli":
			parts[i] = "<api>"
		case i == 0 && strings.HasSuffix(p, ".go") && len(parts) == 1:
			parts[i] = "<svc>.go"
		}
	}
	return strings.Join(parts, "/")
}

var goKeywords = map[string]bool{"type": true, "func": true, "value": true, "variable": true, "struct": true, "of": true, "in": true, "as": true,
	"cannot": true, "use": true, "undefined": true, "redeclared": true, "this": true, "block": true, "declared": true, "and": true, "not": true, "used": true,
	"missing": true, "method": true, "does": true, "implement": true, "argument": true, "to": true, "return": true, "statement": true, "assignment": true,
	"error": true, "string": true, "int": true, "bool": true, "field": true, "or": true, "has": true, "no": true, "imported": true, "mismatched": true, "types": true,
	"invalid": true, "operation": true, "untyped": true, "nil": true, "constant": true, "expected": true, "found": true, "syntax": true, "unexpected": true,
	"too": true, "many": true, "few": true, "arguments": true, "call": true, "have": true, "want": true, "with": true, "pointer": true, "interface": true,
	"map": true, "key": true, "duplicate": true, "case": true, "label": true, "defined": true, "other": true, "declaration": true, "float32": true, "float64": true,
	"int32": true, "int64": true, "uint": true, "uint32": true, "uint64": true, "byte": true, "any": true, "convert": true, "non": true, "name": true, "on": true,
	"left": true, "side": true, "new": true, "variables": true, "is": true, "a": true, "an": true, "the": true, "for": true, "receiver": true, "composite": true, "literal": true,
	"unknown": true, "already": true, "shadowed": true, "during": true, "selector": true, "ambiguous": true, "initialization": true, "cycle": true, "refers": true,
	"multiple": true, "value.": true, "context": true, "assign": true, "index": true, "slice": true, "range": true, "over": true, "mismatch": true, "values": true, "but": true, "returns": true}

// NormMsg abstracts identifiers that are not part of the compiler's own vocabulary.
var structBodyRe = regexp.MustCompile(`struct\{[^{}]*\}`)
var tagStrRe = regexp.MustCompile("`[^`]*`|\"(?:[^\"\\\\]|\\\\.)*\"")

func NormMsg(msg string) string {
	msg = tagStrRe.ReplaceAllString(msg, "S")
	for i := 0; i < 6; i++ {
		n := structBodyRe.ReplaceAllString(msg, "STRUCT")
		if n == msg {
			break
		}
		msg = n
	}
	if len(msg) > 400 {
		msg = msg[:400]
	}
	msg = numRe.ReplaceAllString(msg, "N")
	return identRe.ReplaceAllStringFunc(msg, func(id string) string {
		if goKeywords[strings.ToLower(id)] || id == "N" {
			return id
		}
		return "ID"
	})
}

// StatusCounts summarises the batch.
func (b *Batch) StatusCounts() map[string]int {
	m := map[string]int{}
	for _, d := range b.Designs {
		m[d.Status]++
	}
	return m
}

// SortedKeys helper.
func SortedKeys(m map[string]string) []string {
	ks := make([]string, 0, len(m))
	for k := range m {
		ks = append(ks, k)
	}
	sort.Strings(ks)
	return ks
}

func headS(s string, n int) string {
	if len(s) > n {
		return s[:n] + "…"
	}
	return s
}
