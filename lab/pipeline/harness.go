package pipeline

import (
	"bytes"
	"fmt"
	"go/ast"
	"go/parser"
	"go/printer"
	"go/token"
	"os"
	"path/filepath"
	"sort"
	"strconv"
	"strings"
)

// svcInfo is what the harness learns from gen/<svc>/service.go.
type svcInfo struct {
	UnionVals []string // types implementing a union marker method with a value receiver (unionMembers)
	UnionPtrs []string // ... with a pointer receiver
	Dir       string   // directory name under gen/
	Pkg       string   // package name
	Design    string   // ServiceName constant
	Methods   []methInfo
	Auth      []methInfo
	ErrTypes  []string
	Imports   map[string]string // alias -> path
	HasHTTP   bool
	Streaming bool
}

type methInfo struct {
	Name    string
	Params  []param
	Results []param
}

type param struct {
	Name string
	Type string // rendered with package qualification
}

var predeclared = map[string]bool{"bool": true, "byte": true, "complex64": true, "complex128": true, "error": true, "float32": true, "float64": true,
	"int": true, "int8": true, "int16": true, "int32": true, "int64": true, "rune": true, "string": true, "uint": true, "uint8": true, "uint16": true,
	"uint32": true, "uint64": true, "uintptr": true, "any": true}

// qualify renders a type expression, prefixing package-local identifiers with alias.
func qualify(fset *token.FileSet, e ast.Expr, alias string, used map[string]bool) string {
	var rw func(e ast.Expr) ast.Expr
	rw = func(e ast.Expr) ast.Expr {
		switch x := e.(type) {
		case *ast.Ident:
			if predeclared[x.Name] {
				return x
			}
			return &ast.SelectorExpr{X: ast.NewIdent(alias), Sel: ast.NewIdent(x.Name)}
		case *ast.StarExpr:
			return &ast.StarExpr{X: rw(x.X)}
		case *ast.ArrayType:
			return &ast.ArrayType{Len: x.Len, Elt: rw(x.Elt)}
		case *ast.MapType:
			return &ast.MapType{Key: rw(x.Key), Value: rw(x.Value)}
		case *ast.SelectorExpr:
			if id, ok := x.X.(*ast.Ident); ok {
				used[id.Name] = true
			}
			return x
		case *ast.Ellipsis:
			return &ast.Ellipsis{Elt: rw(x.Elt)}
		case *ast.StructType:
			// anonymous struct: qualify field types
			fl := &ast.FieldList{}
			for _, f := range x.Fields.List {
				fl.List = append(fl.List, &ast.Field{Names: f.Names, Type: rw(f.Type), Tag: f.Tag})
			}
			return &ast.StructType{Fields: fl}
		case *ast.InterfaceType:
			return x
		case *ast.FuncType:
			return x
		case *ast.ChanType:
			return &ast.ChanType{Dir: x.Dir, Value: rw(x.Value)}
		}
		return e
	}
	var buf bytes.Buffer
	_ = printer.Fprint(&buf, fset, rw(e))
	return buf.String()
}

func fields(fset *token.FileSet, fl *ast.FieldList, alias string, used map[string]bool, prefix string) []param {
	var out []param
	if fl == nil {
		return nil
	}
	n := 0
	for _, f := range fl.List {
		t := qualify(fset, f.Type, alias, used)
		if len(f.Names) == 0 {
			out = append(out, param{Name: fmt.Sprintf("%s%d", prefix, n), Type: t})
			n++
			continue
		}
		for range f.Names {
			out = append(out, param{Name: fmt.Sprintf("%s%d", prefix, n), Type: t})
			n++
		}
	}
	return out
}

func parseService(dir, alias string) (*svcInfo, error) {
	fset := token.NewFileSet()
	path := filepath.Join(dir, "service.go")
	f, err := parser.ParseFile(fset, path, nil, 0)
	if err != nil {
		return nil, err
	}
	si := &svcInfo{Dir: filepath.Base(dir), Pkg: f.Name.Name, Imports: map[string]string{}}
	fileImports := map[string]string{}
	for _, im := range f.Imports {
		p, _ := strconv.Unquote(im.Path.Value)
		a := filepath.Base(p)
		if im.Name != nil {
			a = im.Name.Name
		}
		fileImports[a] = p
	}
	used := map[string]bool{}
	for _, d := range f.Decls {
		switch g := d.(type) {
		case *ast.GenDecl:
			for _, sp := range g.Specs {
				switch ts := sp.(type) {
				case *ast.TypeSpec:
					it, ok := ts.Type.(*ast.InterfaceType)
					if !ok || (ts.Name.Name != "Service" && ts.Name.Name != "Auther") {
						continue
					}
					for _, m := range it.Methods.List {
						ft, ok := m.Type.(*ast.FuncType)
						if !ok || len(m.Names) == 0 {
							continue
						}
						mi := methInfo{Name: m.Names[0].Name, Params: fields(fset, ft.Params, alias, used, "a"), Results: fields(fset, ft.Results, alias, used, "r")}
						if ts.Name.Name == "Service" {
							si.Methods = append(si.Methods, mi)
						} else {
							si.Auth = append(si.Auth, mi)
						}
					}
				case *ast.ValueSpec:
					for i, n := range ts.Names {
						if n.Name == "ServiceName" && i < len(ts.Values) {
							if bl, ok := ts.Values[i].(*ast.BasicLit); ok {
								si.Design, _ = strconv.Unquote(bl.Value)
							}
						}
					}
				}
			}
		case *ast.FuncDecl:
			if g.Name.Name == "GoaErrorName" && g.Recv != nil && len(g.Recv.List) == 1 {
				t := g.Recv.List[0].Type
				ptr := false
				if se, ok := t.(*ast.StarExpr); ok {
					t = se.X
					ptr = true
				}
				if id, ok := t.(*ast.Ident); ok {
					// the error name is the string literal the method returns (types shared by
					// several errors return a field instead: keyed by type name then)
					ename := id.Name
					if g.Body != nil {
						for _, st := range g.Body.List {
							if rs, ok := st.(*ast.ReturnStmt); ok && len(rs.Results) == 1 {
								if bl, ok := rs.Results[0].(*ast.BasicLit); ok && bl.Kind == token.STRING {
									ename, _ = strconv.Unquote(bl.Value)
								}
							}
						}
					}
					if ptr {
						si.ErrTypes = append(si.ErrTypes, ename+"=*"+id.Name)
					} else {
						si.ErrTypes = append(si.ErrTypes, ename+"="+id.Name)
					}
				}
			}
		}
	}
	for a := range used {
		if p, ok := fileImports[a]; ok {
			si.Imports[a] = p
		}
	}
	return si, nil
}

func pkgNameOf(dir string) string {
	ents, _ := os.ReadDir(dir)
	for _, e := range ents {
		if strings.HasSuffix(e.Name(), ".go") {
			fset := token.NewFileSet()
			f, err := parser.ParseFile(fset, filepath.Join(dir, e.Name()), nil, parser.PackageClauseOnly)
			if err == nil {
				return f.Name.Name
			}
		}
	}
	return ""
}

// WriteHarness writes <design>/zz/main.go: delegating stubs + registry + rt.Main.
func (b *Batch) WriteHarness(d *Design) error {
	genDir := filepath.Join(d.Dir, "gen")
	ents, err := os.ReadDir(genDir)
	if err != nil {
		return err
	}
	var svcs []*svcInfo
	for _, e := range ents {
		if !e.IsDir() || e.Name() == "http" || e.Name() == "grpc" {
			continue
		}
		if _, err := os.Stat(filepath.Join(genDir, e.Name(), "service.go")); err != nil {
			continue
		}
		alias := fmt.Sprintf("svc%d", len(svcs))
		si, err := parseService(filepath.Join(genDir, e.Name()), alias)
		if err != nil {
			return err
		}
		if _, err := os.Stat(filepath.Join(genDir, "http", e.Name(), "server", "server.go")); err == nil {
			si.HasHTTP = true
		}
		// Go types of the union alternatives (the value builder needs them to build OneOf attributes)
		si.UnionVals, si.UnionPtrs, _ = unionMembers(filepath.Join(genDir, e.Name(), "service.go"))
		svcs = append(svcs, si)
	}
	sort.Slice(svcs, func(i, j int) bool { return svcs[i].Dir < svcs[j].Dir })
	var src bytes.Buffer
	imports := map[string]string{} // alias -> path
	base := b.Module + "/" + d.ID + "/gen"
	for i, si := range svcs {
		imports[fmt.Sprintf("svc%d", i)] = base + "/" + si.Dir
		if si.HasHTTP {
			imports[fmt.Sprintf("srv%d", i)] = base + "/http/" + si.Dir + "/server"
			imports[fmt.Sprintf("cli%d", i)] = base + "/http/" + si.Dir + "/client"
		}
		for a, p := range si.Imports {
			if old, ok := imports[a]; ok && old != p {
				return fmt.Errorf("import alias clash %s: %s vs %s", a, old, p)
			}
			imports[a] = p
		}
	}
	imports["rt"] = "verif.local/lab/rt"
	imports["context"] = "context"
	imports["reflect"] = "reflect"
	src.WriteString("// Code generated by the lab harness. DO NOT EDIT.\npackage main\n\nimport (\n")
	aliases := make([]string, 0, len(imports))
	for a := range imports {
		aliases = append(aliases, a)
	}
	sort.Strings(aliases)
	for _, a := range aliases {
		fmt.Fprintf(&src, "\t%s %q\n", a, imports[a])
	}
	src.WriteString(")\n\nvar _ context.Context\nvar _ reflect.Type\n\n")
	for i, si := range svcs {
		alias := fmt.Sprintf("svc%d", i)
		fmt.Fprintf(&src, "type stub%d struct{ h *rt.Hooks }\n\n", i)
		for _, m := range si.Methods {
			var ps, rs []string
			for _, p := range m.Params {
				ps = append(ps, p.Name+" "+p.Type)
			}
			for _, r := range m.Results {
				rs = append(rs, r.Name+" "+r.Type)
			}
			fmt.Fprintf(&src, "func (s *stub%d) %s(%s) (%s) {\n", i, m.Name, strings.Join(ps, ", "), strings.Join(rs, ", "))
			// args after ctx
			var args []string
			for _, p := range m.Params[1:] {
				args = append(args, p.Name)
			}
			out := "rt.Out{"
			nres := len(m.Results)
			// results: [res] [view] err
			switch {
			case nres == 1:
				out += "Err: &r0"
			case nres == 2:
				out += "Res: &r0, Err: &r1"
			case nres == 3:
				out += "Res: &r0, View: &r1, Err: &r2"
			}
			out += "}"
			fmt.Fprintf(&src, "\ts.h.Invoke(a0, %q, []any{%s}, %s)\n\treturn\n}\n\n", m.Name, strings.Join(args, ", "), out)
		}
		for _, m := range si.Auth {
			var ps []string
			for _, p := range m.Params {
				ps = append(ps, p.Name+" "+p.Type)
			}
			kind := strings.ToLower(strings.TrimSuffix(m.Name, "Auth"))
			// params: ctx, creds..., scheme
			var creds []string
			for _, p := range m.Params[1 : len(m.Params)-1] {
				creds = append(creds, p.Name)
			}
			fmt.Fprintf(&src, "func (s *stub%d) %s(%s) (context.Context, error) {\n\treturn s.h.Auth(a0, %q, []string{%s}, %s)\n}\n\n",
				i, m.Name, strings.Join(ps, ", "), kind, strings.Join(creds, ", "), m.Params[len(m.Params)-1].Name)
		}
		_ = alias
	}
	src.WriteString("func main() {\n\trt.Main(&rt.Design{Services: []*rt.Svc{\n")
	for i, si := range svcs {
		fmt.Fprintf(&src, "\t\t{\n\t\t\tName: %q,\n\t\t\tNewEndpoints: svc%d.NewEndpoints,\n", si.Design, i)
		if si.HasHTTP {
			fmt.Fprintf(&src, "\t\t\tServerNew: srv%d.New,\n\t\t\tServerMount: srv%d.Mount,\n\t\t\tClientNew: cli%d.NewClient,\n", i, i, i)
		}
		fmt.Fprintf(&src, "\t\t\tStub: func(h *rt.Hooks) any { return &stub%d{h} },\n", i)
		fmt.Fprintf(&src, "\t\t\tMethodNames: svc%d.MethodNames[:],\n\t\t\tGoNames: []string{", i)
		for _, m := range si.Methods {
			fmt.Fprintf(&src, "%q, ", m.Name)
		}
		src.WriteString("},\n\t\t\tErrorTypes: map[string]any{\n")
		seenErr := map[string]bool{}
		for _, et := range si.ErrTypes {
			kv := strings.SplitN(et, "=", 2)
			if seenErr[kv[0]] {
				continue // two methods declare the same error name with types of their own: the first is registered
			}
			seenErr[kv[0]] = true
			if strings.HasPrefix(kv[1], "*") {
				fmt.Fprintf(&src, "\t\t\t\t%q: (*svc%d.%s)(nil),\n", kv[0], i, kv[1][1:])
			} else {
				fmt.Fprintf(&src, "\t\t\t\t%q: *new(svc%d.%s),\n", kv[0], i, kv[1])
			}
		}
		src.WriteString("\t\t\t},\n\t\t\tUnionTypes: []reflect.Type{\n")
		for _, n := range si.UnionVals {
			fmt.Fprintf(&src, "\t\t\t\treflect.TypeOf(*new(svc%d.%s)),\n", i, n)
		}
		for _, n := range si.UnionPtrs {
			fmt.Fprintf(&src, "\t\t\t\treflect.TypeOf((*svc%d.%s)(nil)),\n", i, n)
		}
		src.WriteString("\t\t\t},\n\t\t},\n")
	}
	src.WriteString("\t}})\n}\n")
	zz := filepath.Join(d.Dir, "zz")
	if err := os.MkdirAll(zz, 0o755); err != nil {
		return err
	}
	return os.WriteFile(filepath.Join(zz, "main.go"), src.Bytes(), 0o644)
}

// BuildDrivers compiles the driver binaries of the given designs into <batch>/bin/<id>.
// With race=true the binaries are built with the race detector.
func (b *Batch) BuildDrivers(ds []*Design, race bool) map[string]string {
	errs := map[string]string{}
	bin := filepath.Join(b.Dir, "bin")
	_ = os.MkdirAll(bin, 0o755)
	type job struct{ d *Design }
	sem := make(chan struct{}, b.Par)
	done := make(chan [2]string, len(ds))
	for _, d := range ds {
		sem <- struct{}{}
		go func(d *Design) {
			defer func() { <-sem }()
			args := []string{"build"}
			if race {
				args = append(args, "-race")
			}
			args = append(args, "-o", filepath.Join(bin, d.ID), "./"+d.ID+"/zz")
			_, se, err := b.run(b.Dir, 20*60*1e9, "go", args...)
			if err != nil {
				done <- [2]string{d.ID, tail(se, 3000)}
				return
			}
			done <- [2]string{d.ID, ""}
		}(d)
	}
	for range ds {
		r := <-done
		if r[1] != "" {
			errs[r[0]] = r[1]
		}
	}
	return errs
}

// DriverPath returns the driver binary of a design.
func (b *Batch) DriverPath(d *Design) string { return filepath.Join(b.Dir, "bin", d.ID) }
