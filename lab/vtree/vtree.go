// Package vtree defines the canonical value trees exchanged between the value
// generator, the runtime driver (which builds/reads generated Go values by
// reflection) and the oracles.
//
//	absent            nil
//	leaf              string "k:text" with k in b i u f32 f s y a
//	array             []any
//	object            map[string]any keyed by design attribute name
//	map               map[string]any{"$map": map[string]any{<key leaf>: value}}
//	union             map[string]any{"$union": <alternative name>, "$value": v}
package vtree

import (
	"encoding/base64"
	"encoding/json"
	"fmt"
	"math"
	"sort"
	"strconv"
	"strings"
)

func B(v bool) string      { return "b:" + strconv.FormatBool(v) }
func I(v int64) string     { return "i:" + strconv.FormatInt(v, 10) }
func U(v uint64) string    { return "u:" + strconv.FormatUint(v, 10) }
func F32(v float32) string { return "f32:" + strconv.FormatFloat(float64(v), 'g', -1, 32) }
func F(v float64) string   { return "f:" + strconv.FormatFloat(v, 'g', -1, 64) }
func S(v string) string    { return "s:" + v }
func Y(v []byte) string    { return "y:" + base64.StdEncoding.EncodeToString(v) }

// A canonicalises an `any` value from the JSON-native domain.
func A(v any) string {
	b, _ := json.Marshal(normAny(v))
	return "a:" + string(b)
}

func normAny(v any) any {
	switch x := v.(type) {
	case int:
		return float64(x)
	case int64:
		return float64(x)
	case float32:
		return float64(x)
	case []any:
		o := make([]any, len(x))
		for i := range x {
			o[i] = normAny(x[i])
		}
		return o
	case map[string]any:
		o := map[string]any{}
		for k, e := range x {
			o[k] = normAny(e)
		}
		return o
	}
	return v
}

// Kind returns the tag of a leaf ("" if not a leaf).
func Kind(v any) string {
	s, ok := v.(string)
	if !ok {
		return ""
	}
	i := strings.IndexByte(s, ':')
	if i < 0 {
		return ""
	}
	return s[:i]
}

// Text returns the text of a leaf.
func Text(v any) string {
	s, _ := v.(string)
	i := strings.IndexByte(s, ':')
	if i < 0 {
		return s
	}
	return s[i+1:]
}

func IsMap(v any) (map[string]any, bool) {
	m, ok := v.(map[string]any)
	if !ok {
		return nil, false
	}
	mm, ok := m["$map"]
	if !ok {
		return nil, false
	}
	r, _ := mm.(map[string]any)
	if r == nil {
		r = map[string]any{}
	}
	return r, true
}

func MkMap(m map[string]any) any { return map[string]any{"$map": m} }

func IsUnion(v any) (string, any, bool) {
	m, ok := v.(map[string]any)
	if !ok {
		return "", nil, false
	}
	n, ok := m["$union"].(string)
	if !ok {
		return "", nil, false
	}
	return n, m["$value"], true
}

// Empty reports whether v is absent or an empty collection (≡ absent).
func Empty(v any) bool {
	switch x := v.(type) {
	case nil:
		return true
	case []any:
		return len(x) == 0
	case map[string]any:
		if m, ok := IsMap(v); ok {
			return len(m) == 0
		}
		return false
	}
	return false
}

// Norm removes absent members and turns empty collections into nil, recursively.
func Norm(v any) any {
	switch x := v.(type) {
	case nil:
		return nil
	case []any:
		if len(x) == 0 {
			return nil
		}
		o := make([]any, len(x))
		for i := range x {
			o[i] = Norm(x[i])
		}
		return o
	case map[string]any:
		if m, ok := IsMap(v); ok {
			if len(m) == 0 {
				return nil
			}
			o := map[string]any{}
			for k, e := range m {
				o[k] = Norm(e)
			}
			return MkMap(o)
		}
		if n, uv, ok := IsUnion(v); ok {
			return map[string]any{"$union": n, "$value": Norm(uv)}
		}
		if alts, ok := x["$alt"].([]any); ok {
			o := make([]any, len(alts))
			for i := range alts {
				o[i] = Norm(alts[i])
			}
			return map[string]any{"$alt": o}
		}
		o := map[string]any{}
		for k, e := range x {
			if ne := Norm(e); ne != nil {
				o[k] = ne
			}
		}
		return o
	case json.Number:
		return x.String()
	case string:
		if x == "y:" {
			return nil // empty bytes ≡ absent (collection)
		}
	}
	return v
}

// Diff compares two trees after normalisation and returns the differences as
// "path: want X got Y" strings (empty = equal).
func Diff(want, got any) []string {
	ds := DiffS(want, got)
	out := make([]string, len(ds))
	for i, d := range ds {
		out[i] = d.String()
	}
	return out
}

// D is one structural difference.
type D struct {
	Path string
	Want any
	Got  any
	Note string
}

func (d D) String() string {
	if d.Note != "" {
		return fmt.Sprintf("%s: %s", d.Path, d.Note)
	}
	return fmt.Sprintf("%s: want %s, got %s", d.Path, Show(d.Want), Show(d.Got))
}

// DiffS is Diff with structured results.
func DiffS(want, got any) []D {
	var out []D
	diff("", Norm(want), Norm(got), &out)
	return out
}

func diff(path string, w, g any, out *[]D) {
	if len(*out) > 20 {
		return
	}
	if wm, ok := w.(map[string]any); ok {
		if alts, ok := wm["$alt"].([]any); ok {
			var first []D
			for i, a := range alts {
				var sub []D
				diff(path, a, g, &sub)
				if len(sub) == 0 {
					return
				}
				if i == 0 {
					first = sub
				}
			}
			if len(first) > 0 {
				f := first[0]
				f.Note = "no alternative matches; first alternative: " + f.String()
				*out = append(*out, f)
			}
			return
		}
	}
	switch x := w.(type) {
	case nil:
		if g != nil {
			if gm, ok := g.(map[string]any); ok && len(gm) == 0 {
				return // empty object vs absent object: objects are never "empty ≡ absent" except when both normalise so
			}
			*out = append(*out, D{Path: path, Want: nil, Got: g})
		}
	case string:
		gs, ok := g.(string)
		if !ok || !leafEq(x, gs) {
			*out = append(*out, D{Path: path, Want: w, Got: g})
		}
	case []any:
		ga, ok := g.([]any)
		if !ok {
			*out = append(*out, D{Path: path, Want: w, Got: g})
			return
		}
		if len(ga) != len(x) {
			*out = append(*out, D{Path: path, Want: w, Got: g, Note: fmt.Sprintf("want %d elements, got %d (%s vs %s)", len(x), len(ga), Show(w), Show(g))})
			return
		}
		for i := range x {
			diff(fmt.Sprintf("%s[%d]", path, i), x[i], ga[i], out)
		}
	case map[string]any:
		gm, ok := g.(map[string]any)
		if !ok {
			if g == nil && len(x) == 0 {
				return
			}
			if _, isMap := IsMap(w); g == nil && !isMap {
				// an object every member of which may be absent is the same observation as no object at all
				// (canonical trees drop nil members, and an object without members is dropped in turn)
				var sub []D
				for k, mv := range x {
					diff(path+"."+k, mv, nil, &sub)
				}
				if len(sub) == 0 {
					return
				}
			}
			*out = append(*out, D{Path: path, Want: w, Got: g})
			return
		}
		if wm, ok := IsMap(w); ok {
			gmm, ok := IsMap(g)
			if !ok {
				*out = append(*out, D{Path: path, Want: w, Got: g})
				return
			}
			keys := map[string]bool{}
			for k := range wm {
				keys[k] = true
			}
			for k := range gmm {
				keys[k] = true
			}
			for _, k := range sorted(keys) {
				diff(path+"{"+k+"}", wm[k], gmm[k], out)
			}
			return
		}
		if _, ok := IsMap(g); ok {
			*out = append(*out, D{Path: path, Want: w, Got: g})
			return
		}
		keys := map[string]bool{}
		for k := range x {
			keys[k] = true
		}
		for k := range gm {
			keys[k] = true
		}
		for _, k := range sorted(keys) {
			diff(path+"."+k, x[k], gm[k], out)
		}
	default:
		*out = append(*out, D{Path: path, Want: w, Got: g, Note: fmt.Sprintf("unexpected node %T", w)})
	}
}

func sorted(m map[string]bool) []string {
	o := make([]string, 0, len(m))
	for k := range m {
		o = append(o, k)
	}
	sort.Strings(o)
	return o
}

func leafEq(a, b string) bool {
	if a == b {
		return true
	}
	ka, kb := Kind(a), Kind(b)
	if ka != kb {
		if ka == "a" || kb == "a" {
			return anyJSON(a) == anyJSON(b) && anyJSON(a) != ""
		}
		return false
	}
	switch ka {
	case "f", "f32":
		fa, e1 := strconv.ParseFloat(Text(a), 64)
		fb, e2 := strconv.ParseFloat(Text(b), 64)
		return e1 == nil && e2 == nil && fa == fb
	case "a":
		var x, y any
		if json.Unmarshal([]byte(Text(a)), &x) != nil || json.Unmarshal([]byte(Text(b)), &y) != nil {
			return false
		}
		bx, _ := json.Marshal(x)
		by, _ := json.Marshal(y)
		return string(bx) == string(by)
	}
	return false
}

// Equal reports structural equality after normalisation.
func Equal(a, b any) bool { return len(Diff(a, b)) == 0 }

// Show renders a tree compactly.
func Show(v any) string {
	if v == nil {
		return "<absent>"
	}
	b, _ := json.Marshal(v)
	s := string(b)
	if len(s) > 300 {
		s = s[:300] + "…"
	}
	return s
}

// Clone deep-copies a tree.
func Clone(v any) any {
	switch x := v.(type) {
	case []any:
		o := make([]any, len(x))
		for i := range x {
			o[i] = Clone(x[i])
		}
		return o
	case map[string]any:
		o := make(map[string]any, len(x))
		for k, e := range x {
			o[k] = Clone(e)
		}
		return o
	}
	return v
}

// Float returns the numeric value of a numeric leaf.
func Float(v any) (float64, bool) {
	switch Kind(v) {
	case "i", "u", "f", "f32":
		f, err := strconv.ParseFloat(Text(v), 64)
		return f, err == nil
	}
	return 0, false
}

// IsZeroLeaf reports whether the leaf is the zero value of its kind.
func IsZeroLeaf(v any) bool {
	switch Kind(v) {
	case "b":
		return Text(v) == "false"
	case "i", "u", "f", "f32":
		f, _ := Float(v)
		return f == 0 && !math.Signbit(f)
	case "s", "y":
		return Text(v) == ""
	}
	return false
}

// Alt builds an alternatives node: the value must equal one of the given trees.
func Alt(alts ...any) any { return map[string]any{"$alt": alts} }

// anyJSON renders a leaf as canonical JSON (for comparing `any` leaves with typed leaves).
func anyJSON(l string) string {
	var x any
	switch Kind(l) {
	case "a":
		if json.Unmarshal([]byte(Text(l)), &x) != nil {
			return ""
		}
	case "b":
		x = Text(l) == "true"
	case "i", "u", "f", "f32":
		f, err := strconv.ParseFloat(Text(l), 64)
		if err != nil {
			return ""
		}
		x = f
	case "s":
		x = Text(l)
	default:
		return ""
	}
	b, _ := json.Marshal(x)
	return string(b)
}

// BytesOf returns the bytes of a "y:" leaf.
func BytesOf(v any) ([]byte, bool) {
	s, ok := v.(string)
	if !ok || !strings.HasPrefix(s, "y:") {
		return nil, false
	}
	b, err := base64.StdEncoding.DecodeString(s[2:])
	return b, err == nil
}
