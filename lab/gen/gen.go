// Package gen draws specs from (seed, index, profile) inside the design envelope.
// It only emits DSL the goa documentation says is legal (validity by construction).
package gen

import (
	"encoding/json"
	"fmt"
	"strings"

	"verif.local/lab/spec"
	"verif.local/lab/vc"
	"verif.local/lab/vtree"
)

// Opts steer the generator.
type Opts struct {
	Profile string // http-loc validation errors security views grpc naming openapi mixed stream
	// Runtime restricts the envelope to what the runtime driver can drive (no unions, streaming, multipart, files).
	Runtime  bool
	Thorough bool
	// Files allows file servers even in Runtime mode (they can be mounted, not driven).
	Files bool
	// Avoid lists feature combinations that are open known findings of C01 (DESIGN §12); never set for C01 itself.
	Avoid map[string]bool
	// Streams allows HTTP streaming (websocket) methods in Runtime mode (gen/stream.go). Outside Runtime
	// mode every profile emits them with a modest probability; the profile "stream" makes most methods stream.
	Streams bool
	// NoStreams switches streaming methods off outside Runtime mode (checks calibrated without them).
	NoStreams bool
	// StreamForce steers the first streaming method of the design: "views" = a server stream of a result type
	// with three views none of whose attributes is required or defaulted (so every view can be judged).
	StreamForce string
	// StreamViews allows result types with views as streamed results in Runtime mode.
	StreamViews bool
	// Unions lets a share of the designs carry OneOf attributes in request/response bodies (gen/union.go).
	Unions bool
	// DocOnlyGadgets adds (openapi profile, every twelfth design) a service whose generated code is known not to compile
	// but whose documents are judged (checks that judge the documents of uncompiled designs: C07).
	DocOnlyGadgets bool
	// Multipart lets a share of the body-carrying methods be MultipartRequest() endpoints in Runtime mode (gen/multipart.go).
	Multipart bool
	// MultipartFew divides that share by three (checks that cannot decide multipart exchanges: C14).
	MultipartFew bool
	// NoGadgets switches the fixed gadget service (gadgets.go) off.
	NoGadgets bool
}

type g struct {
	r            *vc.Rand
	sr           *vc.Rand // stream of the "is this method streaming" decisions (derived: does not shift r)
	forced       bool     // Opts.StreamForce has been honoured
	o            Opts
	s            *spec.Spec
	names        map[string]bool // user type names used
	seq          int
	solo         []string                 // names of single-validation types (validation profile)
	chain        []string                 // outer aliases of alias chains whose validations sit on the innermost alias
	catchAll     map[string]*catchAllInfo // service -> first catch-all route
	inlinePair   map[*spec.Method]bool    // methods whose first two errors are an inline-typed pair sharing a status
	plainArrayOf map[string]string        // service -> result type its first method returns as a plain array
	lastPrefix   string
	// unions (union.go): own PRNG stream, the design-level decision, names in use, member types, holder type
	ur          *vc.Rand
	unions      bool
	unionNames  map[string]bool
	unionMember map[string]bool
	unionHolder string
	unionPlaced map[string]bool
}

var words = []string{"alpha", "bravo", "charlie", "delta", "echo", "foxtrot", "golf", "hotel", "india", "juliet", "kilo", "lima",
	"mike", "november", "oscar", "papa", "quebec", "romeo", "sierra", "tango", "uniform", "victor", "whiskey", "xray", "yankee", "zulu",
	"first_name", "last_name", "user_id", "item_count", "created_at", "is_active", "total_amount", "zip_code"}

// awkward-but-legal names: Go keywords, acronyms, digits, generated identifiers
var awkward = []string{"type", "func", "range", "map", "id", "url", "api", "http_url", "body", "err", "res", "payload", "view", "result",
	"v2", "x1_y2", "json", "ctx", "error", "string", "int", "default", "package", "interface", "select", "go", "var", "s", "p", "e", "c",
	"resp", "req", "v", "ok", "message", "name", "field", "value", "values", "params", "headers", "stream", "token", "key", "svc", "encoder", "decoder"}

func (x *g) chance(n, d int) bool { return x.r.Chance(n, d) }

func (x *g) pickName(used map[string]bool) string {
	for i := 0; i < 200; i++ {
		var n string
		if x.o.Profile == "naming" && x.chance(1, 2) {
			n = awkward[x.r.Intn(len(awkward))]
		} else {
			n = words[x.r.Intn(len(words))]
		}
		if x.o.Profile == "naming" && x.chance(1, 8) {
			n = strings.ToUpper(n[:1]) + n[1:]
		}
		k := spec.Norm(n)
		if k == "" || used[k] {
			continue
		}
		used[k] = true
		return n
	}
	x.seq++
	n := fmt.Sprintf("attr%d", x.seq)
	used[spec.Norm(n)] = true
	return n
}

// Generate draws one spec.
func Generate(r *vc.Rand, id string, o Opts) *spec.Spec {
	x := &g{r: r, sr: r.Derive(0x57e4), o: o, names: map[string]bool{}}
	s := &spec.Spec{ID: id}
	x.s = s
	s.API.Name = "api" + strings.ToLower(id)
	s.API.Title = "lab " + id
	s.API.Version = x.r.Pick("1.0", "0.0.1", "2")
	if x.chance(1, 3) {
		s.API.BasePath = x.r.Pick("/api", "/v1", "/base/path")
		s.AddFeature("api-base-path")
	}
	if o.Profile == "openapi" || x.chance(1, 6) {
		s.API.Meta = map[string][]string{}
		if x.chance(1, 2) {
			s.API.Meta["openapi:tag:backend"] = nil
			s.AddFeature("openapi-meta")
		}
	}
	// security schemes
	if o.Profile == "security" || x.chance(1, 5) || o.Profile == "openapi" && x.chance(1, 2) {
		x.genSchemes()
	}
	// user types
	x.genUserTypes()
	x.unionPlan()
	x.genUnionTypes() // union.go (Opts.Unions)
	// API-level errors
	if o.Profile == "errors" && x.chance(1, 2) || x.chance(1, 8) {
		e := &spec.ErrorDecl{Name: "api_" + x.r.Pick("unauthorized", "teapot", "gone")}
		s.API.Errors = append(s.API.Errors, e)
		ahe := &spec.HTTPError{Name: e.Name, Status: pickErrStatus(x.r)}
		if x.chance(1, 3) {
			ahe.Headers = append(ahe.Headers, spec.Loc{Attr: "message", Wire: "X-Api-Err-Message"})
			s.AddFeature("error-header", "inherited-error-header")
		}
		s.API.HTTPErrs = append(s.API.HTTPErrs, ahe)
		s.AddFeature("api-error")
	}
	if len(s.Schemes) > 0 && (x.chance(1, 3) || o.Profile == "security" && x.chance(1, 4)) {
		s.API.Security = x.genRequirements(1)
		s.AddFeature("api-security")
	}
	nsvc := x.r.Range(1, 2)
	if o.Thorough && x.chance(1, 3) {
		nsvc = 3
	}
	svcUsed := map[string]bool{}
	for i := 0; i < nsvc; i++ {
		x.genService(i, svcUsed)
	}
	if o.Runtime && !o.NoGadgets {
		x.genGadgetService()         // gadgets.go
		x.genSecurityGadgetService() // gadgets.go
		x.genDocOnlyGadgetService()  // gadgets.go
	}
	if !o.Runtime && !o.NoGadgets {
		x.genPathOrderGadget() // gadgets.go
		x.genServerGadget()    // gadgets.go
	}
	// a single-file server is a GET route: drop the ones whose full path is also served by a GET or HEAD endpoint of
	// ANY service (two handlers for one verb and path make the design ambiguous; goa does not detect it)
	gets := map[string]bool{}
	for _, sv := range s.Services {
		for _, m := range sv.Methods {
			if m.HTTP == nil {
				continue
			}
			for _, r := range m.HTTP.Routes {
				if r.Verb == "GET" || r.Verb == "HEAD" {
					gets[s.API.BasePath+sv.BasePath+r.Path] = true
				}
			}
		}
	}
	for _, sv := range s.Services {
		kept := sv.Files[:0]
		for _, f := range sv.Files {
			if !gets[s.API.BasePath+sv.BasePath+f.Path] {
				kept = append(kept, f)
			}
		}
		sv.Files = kept
	}
	return s
}

func pickErrStatus(r *vc.Rand) int {
	return []int{400, 401, 403, 404, 409, 410, 412, 418, 422, 429, 500, 501, 502, 503, 504}[r.Intn(15)]
}

// ---------------------------------------------------------------- security

func (x *g) genSchemes() {
	kinds := []string{"basic", "apikey", "jwt", "oauth2", "apikey"}
	n := x.r.Range(1, 3)
	if n > len(kinds) {
		n = len(kinds)
	}
	perm := x.r.Perm(len(kinds))
	seen := map[string]bool{}
	for i := 0; i < n; i++ {
		k := kinds[perm[i]]
		name := k
		if seen[name] {
			name = k + "2"
		}
		if seen[name] {
			continue
		}
		seen[name] = true
		sc := &spec.Scheme{Name: name, Kind: k}
		if k == "jwt" || k == "oauth2" {
			sc.Scopes = []string{"api:read", "api:write", "api:admin"}[:x.r.Range(1, 3)]
			if k == "oauth2" && x.chance(1, 3) {
				sc.Scopes = nil // flows without any scope
				x.s.AddFeature("oauth2-without-scopes")
			}
		}
		x.s.Schemes = append(x.s.Schemes, sc)
		x.s.AddFeature("scheme-" + k)
	}
}

// genRequirements draws 1..max alternative requirements of 1-2 schemes each.
// A scheme kind appears at most once across a method's requirements' attribute
// set with one attribute per scheme.
func (x *g) genRequirements(max int) []*spec.Requirement {
	n := x.r.Range(1, max)
	var out []*spec.Requirement
	for i := 0; i < n; i++ {
		m := 1
		if len(x.s.Schemes) > 1 && x.chance(1, 3) {
			m = 2
		}
		perm := x.r.Perm(len(x.s.Schemes))
		req := &spec.Requirement{}
		basicSeen := false
		for j := 0; j < m && j < len(perm); j++ {
			sc := x.s.Schemes[perm[j]]
			if sc.Kind == "basic" {
				if basicSeen {
					continue
				}
				basicSeen = true
			}
			req.Schemes = append(req.Schemes, sc.Name)
			if len(sc.Scopes) > 0 && x.chance(2, 3) {
				for _, sp := range sc.Scopes[:x.r.Range(1, len(sc.Scopes))] {
					if !contains(req.Scopes, sp) {
						req.Scopes = append(req.Scopes, sp)
					}
				}
			}
		}
		if len(req.Schemes) == 0 {
			continue
		}
		out = append(out, req)
	}
	// alternatives made of the SAME schemes that differ only in the scopes they require
	if x.o.Profile == "security" && len(out) > 0 && len(out) <= max && x.chance(1, 2) {
		base := out[x.r.Intn(len(out))]
		var pool []string
		for _, n := range base.Schemes {
			for _, sc := range x.s.Schemes {
				if sc.Name == n {
					for _, sp := range sc.Scopes {
						if !contains(pool, sp) {
							pool = append(pool, sp)
						}
					}
				}
			}
		}
		if len(pool) >= 2 {
			twin := &spec.Requirement{Schemes: append([]string(nil), base.Schemes...)}
			for _, i := range x.r.Perm(len(pool))[:x.r.Range(1, len(pool)-1)] {
				twin.Scopes = append(twin.Scopes, pool[i])
			}
			if !sameSet(twin.Scopes, base.Scopes) {
				out = append(out, twin)
				x.s.AddFeature("same-schemes-different-scopes")
			}
		}
	}
	return out
}

func sameSet(a, b []string) bool {
	if len(a) != len(b) {
		return false
	}
	for _, s := range a {
		if !contains(b, s) {
			return false
		}
	}
	return true
}

func contains(xs []string, s string) bool {
	for _, x := range xs {
		if x == s {
			return true
		}
	}
	return false
}

// ---------------------------------------------------------------- types

var pathPrims = []string{spec.String, spec.Int, spec.Int32, spec.Int64, spec.UInt, spec.UInt32, spec.UInt64, spec.Float32, spec.Float64, spec.Boolean}

func (x *g) prim() string {
	// strings and ints are over-weighted
	switch x.r.Intn(10) {
	case 0, 1, 2:
		return spec.String
	case 3, 4:
		return spec.Int
	case 5:
		if x.o.Profile == "validation" {
			return spec.Bytes // length bounds on bytes are documented as a pattern over the base64 text
		}
	}
	if x.o.Profile == "grpc" {
		// proto3 has no "any"
		return []string{spec.Boolean, spec.Int, spec.Int32, spec.Int64, spec.UInt, spec.UInt32, spec.UInt64, spec.Float32, spec.Float64, spec.String, spec.Bytes}[x.r.Intn(11)]
	}
	return spec.Prims[x.r.Intn(len(spec.Prims))]
}

func (x *g) typeName(base string) string {
	for i := 0; i < 100; i++ {
		n := base
		if i > 0 {
			n = fmt.Sprintf("%s%d", base, i+1)
		}
		if !x.names[spec.Norm(n)] {
			x.names[spec.Norm(n)] = true
			return n
		}
	}
	x.seq++
	return fmt.Sprintf("%sX%d", base, x.seq)
}

var typeWords = []string{"Account", "Bottle", "Cellar", "Device", "Event", "Folder", "Gadget", "Holder", "Item", "Journal"}

func (x *g) genUserTypes() {
	n := x.r.Range(0, 3)
	if x.o.Profile == "views" || x.o.Profile == "naming" {
		n = x.r.Range(1, 3)
	}
	for i := 0; i < n; i++ {
		switch {
		case x.chance(1, 4):
			x.genAlias()
		default:
			x.genObjectType("type")
		}
	}
	if x.o.Profile != "grpc" && x.chance(2, 5) {
		x.genDerivedType()
	}
	if x.o.Profile == "validation" && x.chance(2, 3) {
		// two types each holding ONE validation, in two different positions (array element, map key, map element,
		// attribute, alias)
		p := x.r.Intn(5)
		x.genSoloValidationTypes(p)
		x.genSoloValidationTypes((p + 1 + x.r.Intn(4)) % 5)
	}
	if (x.o.Profile == "validation" || x.o.Profile == "mixed") && x.o.Profile != "grpc" && x.chance(1, 2) {
		x.genAliasChain()
	}
	if x.o.Profile == "validation" && x.chance(2, 3) {
		x.genEdgeBoundsType()
	}
	if x.o.Profile == "validation" && x.chance(1, 2) {
		x.genRequiredOnlyNested()
	}
	nres := 0
	switch x.o.Profile {
	case "views":
		nres = x.r.Range(1, 2)
	case "stream":
		if x.chance(1, 2) {
			nres = 1
		}
	default:
		if x.chance(1, 3) {
			nres = 1
		}
	}
	for i := 0; i < nres; i++ {
		x.genResultType()
	}
	if x.o.Profile == "views" && x.chance(2, 3) {
		x.genNestedViewTypes()
	}
}

// genNestedViewTypes adds a leaf result type with three views and a parent result type that renders
// SEVERAL attributes of that same leaf type (direct and in a collection) under different nested views
// in each of its own views.
func (x *g) genNestedViewTypes() {
	leaf := &spec.UserType{Name: x.typeName("Leaf"), Kind: "result", Def: &spec.Type{Kind: spec.Object}}
	leaf.Def.Attrs = []*spec.Attr{
		{Name: "ident", Type: &spec.Type{Kind: spec.Int}},
		{Name: "title", Type: &spec.Type{Kind: spec.String}},
		{Name: "secret", Type: &spec.Type{Kind: spec.String}},
		{Name: "score", Type: &spec.Type{Kind: spec.Float64}},
	}
	leaf.Views = []*spec.View{
		{Name: "default", Attrs: []spec.ViewAttr{{Name: "ident"}, {Name: "title"}}},
		{Name: "tiny", Attrs: []spec.ViewAttr{{Name: "ident"}}},
		{Name: "extended", Attrs: []spec.ViewAttr{{Name: "ident"}, {Name: "title"}, {Name: "secret"}, {Name: "score"}}},
	}
	if x.chance(5, 6) {
		// "title" is required by the type but left out by the tiny view: a client that validates a nested
		// tiny rendering under another view refuses it
		leaf.Def.Required = []string{"ident", "title"}
		x.s.AddFeature("nested-view-required-outside-view")
	}
	x.s.Types = append(x.s.Types, leaf)
	ref := func() *spec.Type { return &spec.Type{Kind: spec.Ref, Ref: leaf.Name} }
	parent := &spec.UserType{Name: x.typeName("Parent"), Kind: "result", Def: &spec.Type{Kind: spec.Object}}
	attrView := ""
	if x.chance(5, 6) {
		attrView = x.r.Pick("extended", "default", "extended", "tiny", "extended")
		x.s.AddFeature("attribute-level-view")
	}
	parent.Def.Attrs = []*spec.Attr{
		{Name: "primary", Type: ref(), View: attrView},
		{Name: "secondary", Type: ref()},
		{Name: "others", Type: &spec.Type{Kind: spec.Array, Elem: &spec.Attr{Type: ref()}}},
		{Name: "extras", Type: &spec.Type{Kind: spec.Array, Elem: &spec.Attr{Type: ref()}}},
		{Name: "label", Type: &spec.Type{Kind: spec.String}},
	}
	lv := []string{"", "tiny", "extended", "default"}
	pick := func() string { return lv[x.r.Intn(len(lv))] }
	mk := func(name string, attrs ...string) *spec.View {
		v := &spec.View{Name: name}
		usedViews := map[string]bool{}
		for _, a := range attrs {
			va := spec.ViewAttr{Name: a}
			if a == "primary" && name == "tiny" {
				// the enclosing view overrides the view named on the attribute itself with a poorer one
				va.View = "tiny"
				usedViews["tiny"] = true
			} else if a != "label" {
				// different nested views for the attributes of one parent view
				for i := 0; i < 6; i++ {
					va.View = pick()
					if !usedViews[va.View] {
						break
					}
				}
				usedViews[va.View] = true
			}
			v.Attrs = append(v.Attrs, va)
		}
		return v
	}
	parent.Views = []*spec.View{
		mk("default", "primary", "secondary", "label"),
		mk("tiny", "primary", "others", "extras"),
		mk("extended", "primary", "secondary", "others", "extras", "label"),
	}
	x.s.Types = append(x.s.Types, parent)
	x.s.AddFeature("result-type", "multi-view", "nested-view-override", "nested-views-same-type")
	if x.chance(1, 2) {
		// a third level: result type attributes that follow one another in a view and hold result types themselves
		pref := func() *spec.Type { return &spec.Type{Kind: spec.Ref, Ref: parent.Name} }
		grand := &spec.UserType{Name: x.typeName("Grand"), Kind: "result", Def: &spec.Type{Kind: spec.Object}}
		grand.Def.Attrs = []*spec.Attr{
			{Name: "note", Type: &spec.Type{Kind: spec.String}},
			{Name: "first", Type: pref()},
			{Name: "next", Type: &spec.Type{Kind: spec.Ref, Ref: grand.Name}},
			{Name: "second", Type: pref()},
			{Name: "third", Type: ref()},
		}
		if x.chance(1, 2) {
			grand.Def.Required = []string{"second"}
		}
		pv := []string{"", "tiny", "extended", "default"}
		gv := func(name string, attrs ...string) *spec.View {
			v := &spec.View{Name: name}
			for _, a := range attrs {
				va := spec.ViewAttr{Name: a}
				if a == "next" {
					va.View = x.r.Pick("", "tiny", "default") // the views Grand itself defines
				} else if a != "note" {
					va.View = pv[x.r.Intn(len(pv))]
				}
				v.Attrs = append(v.Attrs, va)
			}
			return v
		}
		grand.Views = []*spec.View{
			gv("default", "note", "first", "next", "second", "third"),
			gv("tiny", "third", "second", "next"),
		}
		x.s.Types = append(x.s.Types, grand)
		x.s.AddFeature("nested-views-three-levels")
	}
}

func (x *g) genAlias() *spec.UserType {
	k := []string{spec.String, spec.Int, spec.Int32, spec.UInt32, spec.Float64, spec.Int64, spec.UInt64, spec.Float32, spec.Boolean}[x.r.Intn(9)]
	if x.chance(1, 2) {
		k = spec.String
	}
	def := &spec.Type{Kind: k}
	// alias chains: alias of alias
	if x.chance(1, 5) {
		for _, t := range x.s.Types {
			if t.Kind == "alias" {
				def = &spec.Type{Kind: spec.Ref, Ref: t.Name}
				x.s.AddFeature("alias-chain")
				break
			}
		}
	}
	ut := &spec.UserType{Name: x.typeName(x.r.Pick("Code", "Label", "Ident", "Score") + "Alias"), Kind: "alias", Def: def}
	if x.chance(2, 3) && def.Kind != spec.Ref {
		rt, _ := x.s.Resolve(def)
		if rt == nil {
			rt = def
		}
		ut.Val = x.genVal(rt.Kind, nil)
		if !ut.Val.Empty() {
			x.s.AddFeature("alias-validation")
		}
	}
	x.s.Types = append(x.s.Types, ut)
	x.s.AddFeature("alias")
	return ut
}

func (x *g) genObjectType(kind string) *spec.UserType {
	return x.genObjectTypeNamed(kind, typeWords[x.r.Intn(len(typeWords))])
}

func (x *g) genObjectTypeNamed(kind, base string) *spec.UserType {
	ut := &spec.UserType{Name: x.typeName(base), Kind: kind}
	// register before generating attrs so that recursion is possible
	x.s.Types = append(x.s.Types, ut)
	ut.Def = x.genObject(1, ut.Name)
	return ut
}

func (x *g) genObject(depth int, self string) *spec.Type {
	t := &spec.Type{Kind: spec.Object}
	n := x.r.Range(1, 4)
	if x.o.Thorough {
		n = x.r.Range(1, 6)
	}
	used := map[string]bool{}
	for i := 0; i < n; i++ {
		a := x.genAttr(depth, used, self)
		if (a.Type.Kind == spec.Array || a.Type.Kind == spec.Map) && a.Val != nil && a.Val.MinLen != nil && *a.Val.MinLen > 0 && elemRefsSelf(a.Type, self) {
			a.Val.MinLen = nil // a collection of the type under construction that may not be empty has no finite value
		}
		t.Attrs = append(t.Attrs, a)
		if !a.HasDef && x.chance(2, 5) && !refsSelf(a.Type, self) {
			t.Required = append(t.Required, a.Name)
		}
	}
	return t
}

func (x *g) genAttr(depth int, used map[string]bool, self string) *spec.Attr {
	a := &spec.Attr{Name: x.pickName(used)}
	a.Type = x.genType(depth, self)
	rt, _ := x.s.Resolve(a.Type)
	if rt == nil {
		rt = a.Type
	}
	if vp := x.valProb(); x.chance(vp, 10) && a.Type.Kind != spec.Ref {
		a.Val = x.genVal(rt.Kind, a.Type)
		if a.Val.Empty() {
			a.Val = nil
		}
	}
	// defaults on primitives (not any/bytes), respecting validations incl. alias validations
	if spec.IsPrim(rt.Kind) && rt.Kind != spec.Any && rt.Kind != spec.Bytes && x.chance(1, 5) && len(x.s.AliasVals(a.Type)) == 0 {
		if d := x.genDefault(rt.Kind, a.Val); d != nil {
			a.Default, a.HasDef = d, true
			x.s.AddFeature("default-" + rt.Kind)
		}
	}
	// defaults on collections of plain primitives (an unset collection takes the default, an
	// explicitly empty one must stay empty)
	if (rt.Kind == spec.Array || rt.Kind == spec.Map) && a.Type.Kind != spec.Ref && a.Val == nil && x.chance(1, 4) {
		if d := x.genCollectionDefault(rt); d != nil {
			a.Default, a.HasDef = d, true
			x.s.AddFeature("default-" + rt.Kind)
		}
	}
	if x.o.Profile == "naming" || x.chance(1, 25) {
		if x.chance(1, 5) && a.Type.Kind != spec.Object {
			a.Meta = map[string][]string{"struct:field:name": {"Custom" + strings.Title(spec.Norm(a.Name))}}
			// a custom field name breaks name-normalised matching: only used outside runtime profiles
			if x.o.Runtime {
				a.Meta = nil
			} else {
				x.s.AddFeature("meta-field-name")
			}
		}
	}
	if x.chance(1, 6) {
		a.Desc = "the " + a.Name
	}
	return a
}

func (x *g) valProb() int {
	switch x.o.Profile {
	case "validation":
		return 8
	case "naming", "security", "views":
		return 2
	}
	return 4
}

func (x *g) genType(depth int, self string) *spec.Type {
	maxDepth := 2
	if x.o.Thorough {
		maxDepth = 3
	}
	c := x.r.Intn(20)
	if depth <= 2 && x.chance(1, 25) {
		// three collections deep (the transform code needs distinct loop variables per nesting level)
		leaf := &spec.Attr{Type: &spec.Type{Kind: x.r.Pick(spec.Int, spec.String, spec.UInt32, spec.Boolean, spec.Float64)}}
		if leaf.Type.Kind == spec.Boolean && (x.o.Profile == "grpc" || x.o.Runtime) {
			leaf.Type.Kind = spec.String
		}
		arr := func(e *spec.Attr) *spec.Attr { return &spec.Attr{Type: &spec.Type{Kind: spec.Array, Elem: e}} }
		mp := func(e *spec.Attr) *spec.Attr {
			return &spec.Attr{Type: &spec.Type{Kind: spec.Map, Key: &spec.Attr{Type: &spec.Type{Kind: spec.String}}, Elem: e}}
		}
		shapes := []*spec.Attr{mp(arr(mp(leaf))), arr(mp(arr(leaf))), mp(mp(arr(leaf))), arr(arr(mp(leaf))), mp(arr(arr(leaf))), mp(mp(mp(leaf)))}
		x.s.AddFeature("deep-collection", "map", "nested-array")
		// collections of collections of a named object type (they need conversion between service and body types)
		var objs []*spec.UserType
		for _, t := range x.s.Types {
			if t.Kind == "type" && t.Def != nil && t.Def.Kind == spec.Object && !t.ErrorOnly && t.Name != self && !strings.HasPrefix(t.Name, "BinKeyAlias") {
				objs = append(objs, t)
			}
		}
		if len(objs) > 0 && x.o.Profile != "grpc" && x.chance(1, 2) {
			ul := &spec.Attr{Type: &spec.Type{Kind: spec.Ref, Ref: objs[x.r.Intn(len(objs))].Name}}
			shapes = []*spec.Attr{arr(arr(ul)), arr(mp(ul)), mp(arr(ul)), mp(mp(ul))}
			x.s.AddFeature("deep-collection-usertype")
		}
		return shapes[x.r.Intn(len(shapes))].Type
	}
	switch {
	case c < 9 || depth > maxDepth:
		return &spec.Type{Kind: x.prim()}
	case c < 12:
		return &spec.Type{Kind: spec.Array, Elem: x.genElem(depth+1, self)}
	case c < 14:
		kk := []string{spec.String, spec.String, spec.Int, spec.Int32, spec.UInt64, spec.Boolean}[x.r.Intn(6)]
		if (x.o.Profile == "grpc" || x.o.Runtime) && kk == spec.Boolean {
			kk = spec.String
		}
		key := &spec.Attr{Type: &spec.Type{Kind: kk}}
		if kk == spec.String && x.chance(1, 4) && x.o.Profile == "validation" {
			key.Val = x.genVal(spec.String, nil)
		} else if (kk == spec.String || kk == spec.Int) && x.o.Profile != "grpc" && x.chance(1, 6) {
			// a primitive alias that is reachable ONLY as this map's key type
			ka := &spec.UserType{Name: x.typeName("BinKeyAlias"), Kind: "alias", Def: &spec.Type{Kind: kk}}
			x.s.Types = append(x.s.Types, ka)
			key.Type = &spec.Type{Kind: spec.Ref, Ref: ka.Name}
			x.s.AddFeature("map-key-alias-only")
		}
		x.s.AddFeature("map")
		return &spec.Type{Kind: spec.Map, Key: key, Elem: x.genElem(depth+1, self)}
	case c < 16 && x.o.Profile != "grpc" && !(x.o.Runtime && depth >= 3):
		x.s.AddFeature("inline-object")
		return x.genObject(depth+1, self)
	case c < 19:
		// reference to a user type (possibly self => recursive)
		var cands []*spec.UserType
		for _, t := range x.s.Types {
			if t.Def == nil && t.Name != self {
				continue // under construction (other than self)
			}
			if t.Kind == "result" && x.o.Profile != "views" && x.o.Profile != "naming" {
				continue
			}
			if t.ErrorOnly || strings.HasPrefix(t.Name, "BinKeyAlias") {
				continue
			}
			cands = append(cands, t)
		}
		if len(cands) == 0 {
			return &spec.Type{Kind: x.prim()}
		}
		t := cands[x.r.Intn(len(cands))]
		if t.Name == self {
			x.s.AddFeature("recursive-type")
		}
		if t.Kind == "alias" {
			x.s.AddFeature("alias-attr")
		}
		return &spec.Type{Kind: spec.Ref, Ref: t.Name}
	default:
		// (goa rejects a OneOf inside an inline object that is itself an attribute: only at the first level)
		if !x.o.Runtime && x.o.Profile != "views" && depth <= 1 && x.chance(1, 2) {
			x.s.AddFeature("union")
			u := &spec.Type{Kind: spec.Union}
			used := map[string]bool{}
			for i := 0; i < x.r.Range(2, 3); i++ {
				u.Attrs = append(u.Attrs, &spec.Attr{Name: x.pickName(used), Type: &spec.Type{Kind: []string{spec.String, spec.Int, spec.Boolean, spec.Float64}[i%4]}})
			}
			return u
		}
		return &spec.Type{Kind: x.prim()}
	}
}

func (x *g) genElem(depth int, self string) *spec.Attr {
	e := &spec.Attr{}
	c := x.r.Intn(10)
	switch {
	case c < 6 || depth > 3:
		e.Type = &spec.Type{Kind: x.prim()}
	case c < 7:
		e.Type = &spec.Type{Kind: spec.Array, Elem: &spec.Attr{Type: &spec.Type{Kind: x.prim()}}}
		x.s.AddFeature("nested-array")
	default:
		e.Type = x.genType(depth, self)
		if e.Type.Kind == spec.Object {
			// inline objects as elements are printed through ArrayOf(func) which the DSL does not support: use a prim
			e.Type = &spec.Type{Kind: x.prim()}
		}
		if e.Type.Kind == spec.Union {
			e.Type = &spec.Type{Kind: x.prim()}
		}
	}
	rt, _ := x.s.Resolve(e.Type)
	if rt == nil {
		rt = e.Type
	}
	if x.chance(x.valProb(), 14) && spec.IsPrim(rt.Kind) && e.Type.Kind != spec.Ref {
		e.Val = x.genVal(rt.Kind, e.Type)
		if !e.Val.Empty() {
			x.s.AddFeature("elem-validation")
		} else {
			e.Val = nil
		}
	}
	return e
}

func fp(f float64) *float64 { return &f }
func ip(i int) *int         { return &i }

var formats = []string{"date", "date-time", "uuid", "email", "hostname", "ipv4", "ipv6", "ip", "uri", "mac", "cidr", "regexp", "json", "rfc1123"}

// Patterns with generators of matching/non matching values known to valgen.
var Patterns = []string{`^[a-z]+$`, `^[0-9]{2,4}$`, `^a.*z$`, `[A-Z][a-z]`, `^(foo|bar)[0-9]?$`, `^\p{L}+$`}

// genVal draws a satisfiable validation for a kind.
func (x *g) genVal(kind string, t *spec.Type) *spec.Val {
	v := &spec.Val{}
	switch {
	case kind == spec.String:
		switch x.r.Intn(6) {
		case 0:
			vals := [][]string{{"red", "green", "blue"}, {"a", "b"}, {"", "x"}, {"with space", "ünï", "a/b"}}[x.r.Intn(4)]
			for _, s := range vals {
				v.Enum = append(v.Enum, vtree.S(s))
			}
			x.s.AddFeature("val-enum")
		case 1, 2:
			lo := x.r.Range(0, 3)
			if x.chance(2, 3) {
				v.MinLen = ip(lo)
			}
			if x.chance(2, 3) {
				v.MaxLen = ip(lo + x.r.Range(0, 5))
			}
			x.s.AddFeature("val-length")
		case 3:
			v.Pattern = Patterns[x.r.Intn(len(Patterns))]
			x.s.AddFeature("val-pattern")
		case 4:
			v.Format = formats[x.r.Intn(len(formats))]
			x.s.AddFeature("val-format")
		case 5:
			v.MinLen = ip(1)
			v.Pattern = Patterns[0]
			x.s.AddFeature("val-length", "val-pattern")
		}
	case spec.IsNumeric(kind):
		unsigned := strings.HasPrefix(kind, "uint")
		isFloat := strings.HasPrefix(kind, "float")
		switch x.r.Intn(5) {
		case 0:
			if isFloat {
				v.Enum = []any{leafNum(kind, 1.5), leafNum(kind, 2.5), leafNum(kind, 10)}
			} else {
				v.Enum = []any{leafNum(kind, 1), leafNum(kind, 2), leafNum(kind, 3), leafNum(kind, 100)}
				if !unsigned {
					v.Enum = append(v.Enum, leafNum(kind, -7))
				}
			}
			x.s.AddFeature("val-enum")
		case 1, 2:
			lo := float64(x.r.Range(-5, 5))
			if unsigned && lo < 0 {
				lo = -lo
			}
			if isFloat && x.chance(1, 2) {
				lo += 0.5
			}
			if x.chance(2, 3) {
				v.Min = fp(lo)
			}
			if x.chance(2, 3) {
				v.Max = fp(lo + float64(x.r.Range(0, 100)))
			}
			x.s.AddFeature("val-range")
		case 3:
			lo := float64(x.r.Range(0, 5))
			if unsigned && x.chance(2, 3) {
				lo = 0 // the bound that coincides with the smallest value of the type
			}
			if x.chance(2, 3) {
				v.ExclMin = fp(lo)
			}
			if x.chance(2, 3) {
				v.ExclMax = fp(lo + float64(x.r.Range(2, 50)))
			}
			x.s.AddFeature("val-exclusive")
		case 4:
			lo := float64(x.r.Range(0, 5))
			v.Min = fp(lo)
			v.ExclMax = fp(lo + float64(x.r.Range(2, 50)))
			x.s.AddFeature("val-range", "val-exclusive")
		}
	case kind == spec.Bytes:
		// short bounds: the documented base64 pattern has a case of its own for every length mod 3 near the bound
		lo := x.r.Range(0, 1)
		if x.chance(1, 2) {
			v.MinLen = ip(lo)
		}
		if x.chance(5, 6) {
			v.MaxLen = ip(lo + x.r.Range(0, 2))
		}
		x.s.AddFeature("val-length-" + kind)
	case kind == spec.Array || kind == spec.Map:
		lo := x.r.Range(0, 2)
		if x.chance(2, 3) {
			v.MinLen = ip(lo)
		}
		if x.chance(2, 3) {
			v.MaxLen = ip(lo + x.r.Range(0, 3))
		}
		x.s.AddFeature("val-length-" + kind)
	}
	return v
}

func leafNum(kind string, f float64) string {
	switch kind {
	case spec.Float32:
		return vtree.F32(float32(f))
	case spec.Float64:
		return vtree.F(f)
	case spec.UInt, spec.UInt32, spec.UInt64:
		return vtree.U(uint64(f))
	}
	return vtree.I(int64(f))
}

// LeafNum is exported for valgen.
func LeafNum(kind string, f float64) string { return leafNum(kind, f) }

// genDefault draws a default satisfying v.
// genCollectionDefault draws a non-empty default for an array or string-keyed map whose
// elements are plain primitives without validations (nil when the type is anything else).
func (x *g) genCollectionDefault(rt *spec.Type) any {
	plain := func(a *spec.Attr) string {
		if a == nil || a.Type == nil || a.Val != nil || a.Type.Kind == spec.Ref {
			return ""
		}
		switch a.Type.Kind {
		case spec.String, spec.Int, spec.Int32, spec.Int64, spec.UInt32, spec.UInt64, spec.Float64, spec.Boolean:
			return a.Type.Kind
		}
		return ""
	}
	ek := plain(rt.Elem)
	if ek == "" {
		return nil
	}
	n := x.r.Range(1, 2)
	if rt.Kind == spec.Array {
		out := make([]any, n)
		for i := range out {
			out[i] = x.genDefault(ek, nil)
		}
		return out
	}
	if plain(rt.Key) != spec.String {
		return nil
	}
	m := map[string]any{}
	for i := 0; i < n; i++ {
		m["s:"+[]string{"base", "extra"}[i]] = x.genDefault(ek, nil)
	}
	return vtree.MkMap(m)
}

func (x *g) genDefault(kind string, v *spec.Val) any {
	if v != nil && len(v.Enum) > 0 {
		return v.Enum[x.r.Intn(len(v.Enum))]
	}
	switch {
	case kind == spec.Boolean:
		return vtree.B(x.r.Bool())
	case kind == spec.String:
		if v != nil && (v.Pattern != "" || v.Format != "") {
			return nil
		}
		n := 3
		if v != nil && v.MinLen != nil && *v.MinLen > n {
			n = *v.MinLen
		}
		if v != nil && v.MaxLen != nil && *v.MaxLen < n {
			n = *v.MaxLen
		}
		return vtree.S(strings.Repeat("d", n))
	case spec.IsNumeric(kind):
		f := float64(x.r.Range(1, 9))
		if v != nil {
			lo, hi := -1e9, 1e9
			if v.Min != nil {
				lo = *v.Min
			}
			if v.ExclMin != nil && *v.ExclMin+1 > lo {
				lo = *v.ExclMin + 1
			}
			if v.Max != nil {
				hi = *v.Max
			}
			if v.ExclMax != nil && *v.ExclMax-1 < hi {
				hi = *v.ExclMax - 1
			}
			if lo > hi {
				return nil
			}
			if f < lo {
				f = lo
			}
			if f > hi {
				f = hi
			}
		}
		if strings.HasPrefix(kind, "float") && x.chance(1, 2) && (v == nil || v.Empty()) {
			f += 0.25
		}
		if strings.HasPrefix(kind, "uint") && f < 0 {
			return nil
		}
		return leafNum(kind, f)
	}
	return nil
}

func (x *g) genResultType() *spec.UserType {
	ut := &spec.UserType{Name: x.typeName(x.r.Pick("Report", "Summary", "Listing", "Profile")), Kind: "result"}
	x.s.Types = append(x.s.Types, ut)
	ut.Def = x.genObject(1, ut.Name)
	x.s.AddFeature("result-type")
	// views: "default" is mandatory; 0-2 more
	all := ut.Def.Attrs
	mk := func(name string, keep func(i int) bool) *spec.View {
		v := &spec.View{Name: name}
		for i, a := range all {
			if !keep(i) {
				continue
			}
			va := spec.ViewAttr{Name: a.Name}
			v.Attrs = append(v.Attrs, va)
		}
		if len(v.Attrs) == 0 {
			v.Attrs = append(v.Attrs, spec.ViewAttr{Name: all[0].Name})
		}
		return v
	}
	ut.Views = append(ut.Views, mk("default", func(i int) bool { return i == 0 || x.chance(3, 4) }))
	nv := x.r.Range(0, 2)
	if x.o.Profile == "views" {
		nv = x.r.Range(1, 2)
	}
	names := []string{"tiny", "extended"}
	for i := 0; i < nv; i++ {
		if i == 0 {
			ut.Views = append(ut.Views, mk(names[i], func(j int) bool { return j == 0 || x.chance(1, 3) }))
		} else {
			ut.Views = append(ut.Views, mk(names[i], func(j int) bool { return true }))
		}
		x.s.AddFeature("multi-view")
	}
	// nested view overrides for attributes that are result types
	for _, v := range ut.Views {
		for i := range v.Attrs {
			a := ut.Def.Attr(v.Attrs[i].Name)
			t := a.Type
			if t.Kind == spec.Array && t.Elem.Type.Kind == spec.Ref {
				t = t.Elem.Type
			}
			if t.Kind != spec.Ref {
				continue
			}
			rt := x.s.Type(t.Ref)
			if rt == nil || rt.Kind != "result" {
				continue
			}
			views := rt.Views
			if rt == ut {
				views = ut.Views
			}
			if len(views) > 1 && x.chance(1, 2) {
				v.Attrs[i].View = views[x.r.Intn(len(views))].Name
				x.s.AddFeature("nested-view-override")
			}
		}
	}
	// the attribute itself may name the view of its nested result type (in Attributes): the enclosing views'
	// own overrides, where present, take precedence
	for _, a := range ut.Def.Attrs {
		t := a.Type
		if t.Kind == spec.Array && t.Elem.Type.Kind == spec.Ref {
			t = t.Elem.Type
		}
		if t.Kind != spec.Ref {
			continue
		}
		rt := x.s.Type(t.Ref)
		if rt == nil || rt.Kind != "result" || rt == ut || len(rt.Views) < 2 {
			continue
		}
		if x.chance(1, 3) {
			a.View = rt.Views[x.r.Intn(len(rt.Views))].Name
			x.s.AddFeature("attribute-level-view")
		}
	}
	// required attributes must be in every view? (not required by goa) - keep as is.
	return ut
}

// refsSelf reports whether t refers (directly, or as array element) to the type under construction:
// such attributes are never required (no finite value would exist).
func refsSelf(t *spec.Type, self string) bool {
	if self == "" || t == nil {
		return false
	}
	switch t.Kind {
	case spec.Ref:
		return t.Ref == self
	case spec.Array:
		return false // an empty array is a finite value
	case spec.Object:
		for _, a := range t.Attrs {
			if t.IsRequired(a.Name) && refsSelf(a.Type, self) {
				return true
			}
		}
	}
	return false
}

// elemRefsSelf reports whether the elements (at any depth) of a collection type refer to the type under construction.
func elemRefsSelf(t *spec.Type, self string) bool {
	if self == "" || t == nil {
		return false
	}
	switch t.Kind {
	case spec.Ref:
		return t.Ref == self
	case spec.Array:
		return elemRefsSelf(t.Elem.Type, self)
	case spec.Map:
		return elemRefsSelf(t.Elem.Type, self) || elemRefsSelf(t.Key.Type, self)
	case spec.Object:
		for _, a := range t.Attrs {
			if elemRefsSelf(a.Type, self) {
				return true
			}
		}
	}
	return false
}

// genSoloValidationTypes adds a user type whose ONLY validation sits at one chosen position (array
// element, map key, map element, attribute, alias) and a wrapper type that merely refers to it: the
// generators decide per type whether any validation code is needed at all, and these are the edge cases
// of that decision.
func (x *g) genSoloValidationTypes(pos int) {
	kind := []string{spec.String, spec.Int, spec.Int32, spec.UInt32, spec.Float64}[x.r.Intn(5)]
	val := x.genVal(kind, nil)
	for i := 0; val.Empty() && i < 5; i++ {
		val = x.genVal(kind, nil)
	}
	if val.Empty() {
		return
	}
	solo := &spec.UserType{Name: x.typeName("Solo"), Kind: "type", Def: &spec.Type{Kind: spec.Object}}
	x.s.Types = append(x.s.Types, solo)
	carrier := &spec.Attr{Name: "carrier"}
	switch pos {
	case 0:
		carrier.Type = &spec.Type{Kind: spec.Array, Elem: &spec.Attr{Type: &spec.Type{Kind: kind}, Val: val}}
		x.s.AddFeature("solo-validation-array-elem")
	case 1:
		if kind != spec.String && !spec.IsInt(kind) {
			kind = spec.String
			val = x.genVal(kind, nil)
			for i := 0; val.Empty() && i < 8; i++ {
				val = x.genVal(kind, nil)
			}
			if val.Empty() {
				val = &spec.Val{MinLen: ip(2)}
			}
		}
		carrier.Type = &spec.Type{Kind: spec.Map, Key: &spec.Attr{Type: &spec.Type{Kind: kind}, Val: val}, Elem: &spec.Attr{Type: &spec.Type{Kind: spec.Int}}}
		x.s.AddFeature("solo-validation-map-key")
	case 2:
		carrier.Type = &spec.Type{Kind: spec.Map, Key: &spec.Attr{Type: &spec.Type{Kind: spec.String}}, Elem: &spec.Attr{Type: &spec.Type{Kind: kind}, Val: val}}
		x.s.AddFeature("solo-validation-map-elem")
	case 3:
		carrier.Type = &spec.Type{Kind: kind}
		carrier.Val = val
		x.s.AddFeature("solo-validation-attribute")
	case 4:
		al := &spec.UserType{Name: x.typeName("SoloAlias"), Kind: "alias", Def: &spec.Type{Kind: kind}, Val: val}
		x.s.Types = append(x.s.Types, al)
		carrier.Type = &spec.Type{Kind: spec.Ref, Ref: al.Name}
		x.s.AddFeature("solo-validation-alias")
	}
	solo.Def.Attrs = []*spec.Attr{carrier, {Name: "plain", Type: &spec.Type{Kind: spec.String}}}
	// wrappers: a type that only refers to the solo type, directly and through a collection
	wrap := &spec.UserType{Name: x.typeName("Wrap"), Kind: "type", Def: &spec.Type{Kind: spec.Object}}
	ref := &spec.Type{Kind: spec.Ref, Ref: solo.Name}
	switch x.r.Intn(3) {
	case 0:
		wrap.Def.Attrs = []*spec.Attr{{Name: "inner", Type: ref}}
	case 1:
		wrap.Def.Attrs = []*spec.Attr{{Name: "inner", Type: &spec.Type{Kind: spec.Array, Elem: &spec.Attr{Type: ref}}}}
	case 2:
		wrap.Def.Attrs = []*spec.Attr{{Name: "inner", Type: &spec.Type{Kind: spec.Map, Key: &spec.Attr{Type: &spec.Type{Kind: spec.String}}, Elem: &spec.Attr{Type: ref}}}}
	}
	wrap.Def.Attrs = append(wrap.Def.Attrs, &spec.Attr{Name: "note", Type: &spec.Type{Kind: spec.String}})
	x.s.Types = append(x.s.Types, wrap)
	x.solo = append(x.solo, solo.Name, wrap.Name)
}

// genAliasChain adds an alias of an alias (optionally of a third alias) whose validations sit on the INNERMOST
// alias only: every attribute typed by the outer alias inherits them through the chain, in every location.
func (x *g) genAliasChain() {
	kind := []string{spec.String, spec.String, spec.Int, spec.Int32, spec.UInt32, spec.Float64, spec.Int64}[x.r.Intn(7)]
	val := x.genVal(kind, nil)
	for i := 0; val.Empty() && i < 8; i++ {
		val = x.genVal(kind, nil)
	}
	if val.Empty() {
		return
	}
	inner := &spec.UserType{Name: x.typeName("InnerAlias"), Kind: "alias", Def: &spec.Type{Kind: kind}, Val: val}
	x.s.Types = append(x.s.Types, inner)
	prev := inner
	depth := x.r.Range(1, 2)
	for i := 0; i < depth; i++ {
		outer := &spec.UserType{Name: x.typeName("ChainAlias"), Kind: "alias", Def: &spec.Type{Kind: spec.Ref, Ref: prev.Name}}
		x.s.Types = append(x.s.Types, outer)
		prev = outer
	}
	x.chain = append(x.chain, prev.Name)
	x.s.AddFeature("alias", "alias-chain", "alias-validation", "alias-chain-inner-validation")
}

func cloneAttr(a *spec.Attr) *spec.Attr {
	b, _ := json.Marshal(a)
	var c spec.Attr
	_ = json.Unmarshal(b, &c)
	return &c
}

// genDerivedType adds a user type that inherits from an earlier object type: Extend(base) merges every base
// attribute (and its requiredness) into the derived type; Reference(base) lets attributes spelled without a type
// take type, validations, default, description and requiredness from the base attribute of the same name. The
// spec holds the EFFECTIVE definition (what the design means); dslprint spells it the inherited way.
func (x *g) genDerivedType() {
	var bases []*spec.UserType
	for _, t := range x.s.Types {
		if t.Kind == "type" && t.Def != nil && t.Def.Kind == spec.Object && !t.ErrorOnly && t.Extend == "" && t.Reference == "" &&
			len(t.Def.Attrs) > 0 && !strings.HasPrefix(t.Name, "Solo") && !strings.HasPrefix(t.Name, "Wrap") {
			bases = append(bases, t)
		}
	}
	if len(bases) == 0 {
		return
	}
	b := bases[x.r.Intn(len(bases))]
	d := &spec.UserType{Name: x.typeName("Derived"), Kind: "type"}
	x.s.Types = append(x.s.Types, d)
	used := map[string]bool{}
	for _, a := range b.Def.Attrs {
		used[spec.Norm(a.Name)] = true
	}
	def := &spec.Type{Kind: spec.Object}
	for i, n := 0, x.r.Range(1, 2); i < n; i++ {
		a := x.genAttr(1, used, d.Name)
		def.Attrs = append(def.Attrs, a)
		if !a.HasDef && x.chance(1, 3) && !refsSelf(a.Type, d.Name) {
			def.Required = append(def.Required, a.Name)
		}
	}
	if x.chance(1, 2) {
		d.Extend = b.Name
		for _, a := range b.Def.Attrs {
			c := cloneAttr(a)
			c.Inherit = "extend"
			c.InhReq = b.Def.IsRequired(a.Name)
			def.Attrs = append(def.Attrs, c)
			if c.InhReq {
				def.Required = append(def.Required, a.Name)
			}
		}
		x.s.AddFeature("extend")
	} else {
		d.Reference = b.Name
		n := 0
		for i, a := range b.Def.Attrs {
			if !(x.chance(2, 3) || (n == 0 && i == len(b.Def.Attrs)-1)) {
				continue
			}
			n++
			c := cloneAttr(a)
			c.Inherit = "reference"
			c.InhReq = b.Def.IsRequired(a.Name)
			def.Attrs = append(def.Attrs, c)
			switch {
			case c.InhReq:
				def.Required = append(def.Required, a.Name)
			case !c.HasDef && x.chance(1, 4) && !refsSelf(c.Type, b.Name):
				def.Required = append(def.Required, a.Name) // required by the derived type only
			}
		}
		x.s.AddFeature("reference")
	}
	d.Def = def
}

// genRequiredOnlyNested adds a user type whose ONLY validation is a required attribute and a wrapper that holds
// it inside collections of collections: the validation code has to reach it through every level.
func (x *g) genRequiredOnlyNested() {
	ro := &spec.UserType{Name: x.typeName("ReqOnly"), Kind: "type", Def: &spec.Type{Kind: spec.Object}}
	ro.Def.Attrs = []*spec.Attr{
		{Name: "must", Type: &spec.Type{Kind: x.r.Pick(spec.Int, spec.String, spec.Float64, spec.UInt32)}},
		{Name: "may", Type: &spec.Type{Kind: spec.String}},
	}
	ro.Def.Required = []string{"must"}
	x.s.Types = append(x.s.Types, ro)
	ul := func() *spec.Attr { return &spec.Attr{Type: &spec.Type{Kind: spec.Ref, Ref: ro.Name}} }
	arr := func(e *spec.Attr) *spec.Attr { return &spec.Attr{Type: &spec.Type{Kind: spec.Array, Elem: e}} }
	mp := func(e *spec.Attr) *spec.Attr {
		return &spec.Attr{Type: &spec.Type{Kind: spec.Map, Key: &spec.Attr{Type: &spec.Type{Kind: spec.String}}, Elem: e}}
	}
	shapes := []*spec.Attr{mp(arr(ul())), mp(mp(ul())), arr(mp(ul())), arr(arr(ul())), mp(arr(mp(ul()))), arr(mp(arr(ul()))), mp(ul()), arr(ul())}
	wrap := &spec.UserType{Name: x.typeName("Nest"), Kind: "type", Def: &spec.Type{Kind: spec.Object}}
	perm := x.r.Perm(len(shapes))
	for i, j := range perm[:x.r.Range(1, 2)] {
		a := shapes[j]
		a.Name = fmt.Sprintf("held%d", i+1)
		wrap.Def.Attrs = append(wrap.Def.Attrs, a)
	}
	wrap.Def.Attrs = append(wrap.Def.Attrs, &spec.Attr{Name: "note", Type: &spec.Type{Kind: spec.String}})
	x.s.Types = append(x.s.Types, wrap)
	x.solo = append(x.solo, wrap.Name, wrap.Name)
	x.s.AddFeature("required-only-in-nested-collections")
}

// genEdgeBoundsType adds a user type whose numeric bounds coincide with the limits of their Go types and whose length
// bounds are the smallest possible: the places where "this check can never fail" shortcuts go wrong.
func (x *g) genEdgeBoundsType() {
	all := []*spec.Attr{
		{Name: "count_pos", Type: &spec.Type{Kind: spec.UInt}, Val: &spec.Val{ExclMin: fp(0)}},
		{Name: "count32_pos", Type: &spec.Type{Kind: spec.UInt32}, Val: &spec.Val{ExclMin: fp(0), Max: fp(4294967295)}},
		{Name: "big_pos", Type: &spec.Type{Kind: spec.UInt64}, Val: &spec.Val{ExclMin: fp(0)}},
		{Name: "low32", Type: &spec.Type{Kind: spec.Int32}, Val: &spec.Val{Min: fp(-2147483648), ExclMax: fp(0)}},
		{Name: "neg", Type: &spec.Type{Kind: spec.Int}, Val: &spec.Val{ExclMax: fp(0)}},
		{Name: "unit", Type: &spec.Type{Kind: spec.Float32}, Val: &spec.Val{Min: fp(0), ExclMax: fp(1)}},
		{Name: "one_rune", Type: &spec.Type{Kind: spec.String}, Val: &spec.Val{MinLen: ip(1), MaxLen: ip(1)}},
		{Name: "one_elem", Type: &spec.Type{Kind: spec.Array, Elem: &spec.Attr{Type: &spec.Type{Kind: spec.UInt32}, Val: &spec.Val{ExclMin: fp(0)}}}, Val: &spec.Val{MaxLen: ip(1)}},
	}
	ut := &spec.UserType{Name: x.typeName("Edges"), Kind: "type", Def: &spec.Type{Kind: spec.Object}}
	perm := x.r.Perm(len(all))
	for _, i := range perm[:x.r.Range(3, 5)] {
		ut.Def.Attrs = append(ut.Def.Attrs, all[i])
	}
	x.s.Types = append(x.s.Types, ut)
	x.solo = append(x.solo, ut.Name, ut.Name)
	x.s.AddFeature("edge-bounds")
}
