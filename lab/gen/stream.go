package gen

import (
	"verif.local/lab/spec"
)

// HTTP streaming methods (StreamingPayload / StreamingResult over websocket).
//
// A websocket endpoint is a GET whose request has no body, so the initial payload of a streaming
// method is drawn here from types whose attributes can ALL travel in the path, the query string,
// headers or cookies; genHTTP then distributes them (it never falls back to the body for a streaming
// method). The streamed message types are drawn from the whole type envelope: they travel as JSON
// websocket messages.

// wantStream decides whether the next method of sv is a streaming method. The decision is drawn from a
// derived PRNG stream so that designs without streaming methods are exactly what they were before
// streaming methods existed.
func (x *g) wantStream(sv *spec.Service) bool {
	if sv.NoHTTP || sv.GRPC {
		return false
	}
	if x.o.Runtime && !x.o.Streams || x.o.NoStreams {
		return false
	}
	if x.o.Profile == "stream" {
		return x.sr.Chance(3, 4)
	}
	return x.sr.Chance(1, 8)
}

// genStream draws the kind, the initial payload, the streaming payload and the (streaming) result of m.
func (x *g) genStream(m *spec.Method) {
	m.Stream = []string{"server", "client", "bidi"}[x.r.Intn(3)]
	x.s.AddFeature("stream-" + m.Stream)
	// ---- initial payload (the handshake request)
	switch c := x.r.Intn(8); {
	case c == 0:
		x.s.AddFeature("stream-init-none")
	case c == 1:
		k := pathPrims[x.r.Intn(len(pathPrims))]
		m.Payload = &spec.Attr{Type: &spec.Type{Kind: k}}
		if x.chance(1, 2) {
			m.Payload.Val = x.genVal(k, nil)
			if m.Payload.Val.Empty() || !x.pathOK(nil, m.Payload) {
				m.Payload.Val = nil
			}
		}
		x.s.AddFeature("stream-init-primitive")
	case c <= 3:
		ut := &spec.UserType{Name: x.typeName("StreamInit"), Kind: "type"}
		x.s.Types = append(x.s.Types, ut)
		ut.Def = x.genStreamInitObject()
		m.Payload = &spec.Attr{Type: &spec.Type{Kind: spec.Ref, Ref: ut.Name}}
		x.s.AddFeature("stream-init-usertype")
	default:
		m.Payload = &spec.Attr{Type: x.genStreamInitObject()}
		x.s.AddFeature("stream-init-inline")
	}
	// ---- messages
	if x.o.StreamForce == "views" && !x.forced {
		x.forced = true
		x.s.Features = removeFeature(x.s.Features, "stream-"+m.Stream)
		m.Stream = "server"
		x.s.AddFeature("stream-server", "stream-result-resulttype", "stream-result-views-forced")
		m.Result = &spec.Attr{Type: &spec.Type{Kind: spec.Ref, Ref: x.genOpenViewType().Name}}
		return
	}
	switch m.Stream {
	case "server":
		m.Result = x.genStreamMsg(true, "stream-result-")
	case "client":
		m.StreamP = x.genStreamPayload()
		if x.chance(3, 4) {
			m.Result = x.genStreamMsg(true, "stream-final-result-")
		} else {
			x.s.AddFeature("stream-final-result-none")
		}
	case "bidi":
		m.StreamP = x.genStreamPayload()
		m.Result = x.genStreamMsg(true, "stream-result-")
	}
}

// genStreamPayload draws the StreamingPayload type. Runtime designs must compile on the tree under test,
// so they stay clear of the trigger class of findings/C01-stream-body-http-type (a streaming payload that
// reaches a primitive alias type; unions are outside the runtime envelope anyway).
func (x *g) genStreamPayload() *spec.Attr {
	a := x.genStreamMsg(false, "stream-payload-")
	for i := 0; x.o.Runtime && x.reachesAlias(a.Type, map[string]bool{}) && i < 8; i++ {
		a = x.genStreamMsg(false, "stream-payload-")
	}
	if x.o.Runtime && x.reachesAlias(a.Type, map[string]bool{}) {
		a = &spec.Attr{Type: &spec.Type{Kind: spec.String}}
		x.s.AddFeature("stream-payload-primitive", "stream-payload-primitive-string")
	}
	return a
}

// reachesAlias reports whether t reaches an alias user type through attributes, elements, keys and user types.
func (x *g) reachesAlias(t *spec.Type, seen map[string]bool) bool {
	if t == nil {
		return false
	}
	switch t.Kind {
	case spec.Ref:
		if seen[t.Ref] {
			return false
		}
		seen[t.Ref] = true
		ut := x.s.Type(t.Ref)
		if ut == nil {
			return false
		}
		return ut.Kind == "alias" || x.reachesAlias(ut.Def, seen)
	case spec.Array, spec.Map:
		if t.Key != nil && x.reachesAlias(t.Key.Type, seen) {
			return true
		}
		return t.Elem != nil && x.reachesAlias(t.Elem.Type, seen)
	case spec.Object, spec.Union:
		for _, a := range t.Attrs {
			if x.reachesAlias(a.Type, seen) {
				return true
			}
		}
	}
	return false
}

// stripStringLengths removes string length validations from a message type that is not a user type
// (findings/C01-stream-validation-utf8-import: the websocket files lack the unicode/utf8 import).
func stripStringLengths(a *spec.Attr) {
	if a == nil || a.Type == nil {
		return
	}
	switch a.Type.Kind {
	case spec.String:
		if a.Val != nil {
			a.Val.MinLen, a.Val.MaxLen = nil, nil
			if a.Val.Empty() {
				a.Val = nil
			}
		}
	case spec.Array, spec.Map:
		stripStringLengths(a.Type.Key)
		stripStringLengths(a.Type.Elem)
	}
}

// genStreamInitObject draws an object whose attributes are primitives (no bytes, no any), primitive
// aliases or arrays of primitives: everything a handshake request can carry outside a body.
func (x *g) genStreamInitObject() *spec.Type {
	t := &spec.Type{Kind: spec.Object}
	n := x.r.Range(1, 3)
	used := map[string]bool{}
	for i := 0; i < n; i++ {
		a := &spec.Attr{Name: x.pickName(used)}
		k := pathPrims[x.r.Intn(len(pathPrims))]
		if x.chance(1, 2) {
			k = x.r.Pick(spec.String, spec.Int)
		}
		switch c := x.r.Intn(8); {
		case c == 0:
			a.Type = &spec.Type{Kind: spec.Array, Elem: &spec.Attr{Type: &spec.Type{Kind: k}}}
			x.s.AddFeature("stream-init-array")
		case c == 1 && !x.o.Runtime && x.primAlias() != "":
			// (not in runtime designs: an alias that is also reachable from a custom error type gets an Error()
			// method, after which the client encoder's fmt.Sprintf("%v") prints it as "" — the runtime envelope
			// excludes types shared between errors and payloads, DESIGN §13.1)
			a.Type = &spec.Type{Kind: spec.Ref, Ref: x.primAlias()}
			x.s.AddFeature("stream-init-alias")
		default:
			a.Type = &spec.Type{Kind: k}
		}
		if a.Type.Kind == k {
			if x.chance(x.valProb(), 10) {
				a.Val = x.genVal(k, a.Type)
				if a.Val.Empty() {
					a.Val = nil
				}
			}
			if x.chance(1, 5) {
				if d := x.genDefault(k, a.Val); d != nil {
					a.Default, a.HasDef = d, true
					x.s.AddFeature("default-" + k)
				}
			}
		}
		t.Attrs = append(t.Attrs, a)
		if !a.HasDef && x.chance(2, 5) {
			t.Required = append(t.Required, a.Name)
		}
	}
	return t
}

// primAlias returns the name of an alias of a primitive that can travel outside a body ("" if none).
func (x *g) primAlias() string {
	for _, t := range x.s.Types {
		if t.Kind != "alias" || t.Def == nil || len(t.Name) >= 11 && t.Name[:11] == "BinKeyAlias" {
			continue
		}
		rt, _ := x.s.Resolve(&spec.Type{Kind: spec.Ref, Ref: t.Name})
		if rt != nil && spec.IsPrim(rt.Kind) && rt.Kind != spec.Any && rt.Kind != spec.Bytes {
			return t.Name
		}
	}
	return ""
}

// genStreamMsg draws the type of a streamed message (or of the final result of a client stream).
func (x *g) genStreamMsg(result bool, tag string) *spec.Attr {
	var a *spec.Attr
	c := x.r.Intn(11)
	if !result && x.o.Profile == "stream" && x.chance(1, 4) {
		// a streamed payload that IS a collection whose elements carry a validation (the server reads such messages
		// into a slice or map, not into a struct)
		ik := x.r.Pick(spec.Int, spec.Int64, spec.UInt32)
		elem := &spec.Attr{Type: &spec.Type{Kind: ik}, Val: x.genVal(ik, nil)}
		for i := 0; elem.Val.Empty() && i < 6; i++ {
			elem.Val = x.genVal(ik, nil)
		}
		if elem.Val.Empty() {
			elem.Val = &spec.Val{Min: fp(1)}
		}
		if x.chance(1, 2) {
			a = &spec.Attr{Type: &spec.Type{Kind: spec.Array, Elem: elem}}
			x.s.AddFeature(tag+"array", tag+"collection-of-validated-elements")
		} else {
			a = &spec.Attr{Type: &spec.Type{Kind: spec.Map, Key: &spec.Attr{Type: &spec.Type{Kind: spec.String}}, Elem: elem}}
			x.s.AddFeature(tag+"map", tag+"collection-of-validated-elements")
		}
		return a
	}
	viewsOK := result && (!x.o.Runtime || x.o.StreamViews)
	if rts := x.resultTypes(); (c >= 9 || x.o.Profile == "stream" && c >= 7) && viewsOK && rts != nil {
		t := rts[x.r.Intn(len(rts))]
		if x.chance(1, 4) {
			a = &spec.Attr{Type: &spec.Type{Kind: spec.Array, Collection: true, Elem: &spec.Attr{Type: &spec.Type{Kind: spec.Ref, Ref: t.Name}}}}
			x.s.AddFeature(tag + "collection")
		} else {
			a = &spec.Attr{Type: &spec.Type{Kind: spec.Ref, Ref: t.Name}}
			x.s.AddFeature(tag + "resulttype")
		}
		if len(t.Views) > 1 && x.chance(1, 3) {
			a.View = t.Views[x.r.Intn(len(t.Views))].Name
			x.s.AddFeature(tag + "fixed-view")
		}
		return a
	}
	switch {
	case c < 3 || c >= 9:
		a = &spec.Attr{Type: x.genObject(1, "")}
		x.s.AddFeature(tag + "inline")
	case c < 6:
		if ts := x.objectTypes(); ts != nil {
			a = &spec.Attr{Type: &spec.Type{Kind: spec.Ref, Ref: ts[x.r.Intn(len(ts))].Name}}
		} else {
			a = &spec.Attr{Type: &spec.Type{Kind: spec.Ref, Ref: x.genObjectTypeNamed("type", "Message").Name}}
		}
		x.s.AddFeature(tag + "usertype")
	case c == 6:
		k := x.prim()
		a = &spec.Attr{Type: &spec.Type{Kind: k}}
		if x.chance(1, 2) {
			a.Val = x.genVal(k, nil)
			if a.Val.Empty() {
				a.Val = nil
			}
		}
		x.s.AddFeature(tag+"primitive", tag+"primitive-"+k)
	case c == 7:
		a = &spec.Attr{Type: &spec.Type{Kind: spec.Array, Elem: x.genElem(2, "")}}
		x.s.AddFeature(tag + "array")
	default:
		a = &spec.Attr{Type: &spec.Type{Kind: spec.Map, Key: &spec.Attr{Type: &spec.Type{Kind: spec.String}}, Elem: x.genElem(2, "")}}
		x.s.AddFeature(tag + "map")
	}
	if x.o.Runtime {
		stripStringLengths(a)
	}
	return a
}

func removeFeature(fs []string, f string) []string {
	out := fs[:0]
	for _, g := range fs {
		if g != f {
			out = append(out, g)
		}
	}
	return out
}

// genOpenViewType adds a result type with the views default / tiny / extended whose attributes are all
// optional and without defaults: no view hides a required attribute, so every projection can be judged.
func (x *g) genOpenViewType() *spec.UserType {
	ut := &spec.UserType{Name: x.typeName("Feed"), Kind: "result", Def: &spec.Type{Kind: spec.Object}}
	used := map[string]bool{}
	kinds := []string{spec.Int, spec.String, spec.Boolean, spec.Float64, spec.UInt32}
	n := x.r.Range(3, 5)
	for i := 0; i < n; i++ {
		a := &spec.Attr{Name: x.pickName(used), Type: &spec.Type{Kind: kinds[x.r.Intn(len(kinds))]}}
		if i == n-1 {
			a.Type = &spec.Type{Kind: spec.Array, Elem: &spec.Attr{Type: &spec.Type{Kind: spec.String}}}
		}
		ut.Def.Attrs = append(ut.Def.Attrs, a)
	}
	all := ut.Def.Attrs
	view := func(name string, k int) *spec.View {
		v := &spec.View{Name: name}
		for _, a := range all[:k] {
			v.Attrs = append(v.Attrs, spec.ViewAttr{Name: a.Name})
		}
		return v
	}
	ut.Views = []*spec.View{view("default", 2), view("tiny", 1), view("extended", len(all))}
	x.s.Types = append(x.s.Types, ut)
	x.s.AddFeature("result-type", "multi-view")
	return ut
}
