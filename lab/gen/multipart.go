package gen

import "verif.local/lab/spec"

// MultipartRequest() endpoints for the runtime profiles (Opts.Multipart).
//
// goa generates only the plumbing of such an endpoint (the multipart reader / writer, the call of the user's
// decoder / encoder function, the MERGE of the request's path and query parameters, headers and cookies into
// the payload the user decoder produced); the runtime driver supplies the two user functions (rt/multipart.go).
// A method is eligible when it is a POST/PUT/PATCH with an object payload that the design lets travel in a
// plain body (no Body(...) form, no MapParams) with at least one body attribute; methods that also map
// attributes to the path, the query string, headers or cookies are preferred (the merge is the interesting
// part). Payloads holding a OneOf attribute in their body are left alone: the lab's multipart codec writes
// plain JSON and goa's JSON form of a union is judged elsewhere (DESIGN §13.8).
//
// The decision is drawn from a PRNG stream derived from the design's stream at the moment of the decision
// (never from g.r), so a design without a drawn method is exactly what it was before this file existed, and
// a drawn one differs by the MultipartRequest() line (and, for half of them, one cookie attribute) only.

// genMultipart decides whether the endpoint of m is a multipart endpoint (Runtime mode, Opts.Multipart).
func (x *g) genMultipart(sv *spec.Service, m *spec.Method, hasBody bool, verb string) {
	h := m.HTTP
	if !x.o.Runtime || !x.o.Multipart || h == nil || h.Multipart || sv.GRPC || m.Stream != "" || m.Payload == nil {
		return
	}
	if !hasBody || verb == "GET" || verb == "DELETE" || h.Body != "" || h.MapParams != "" || h.SkipReqBody {
		return
	}
	rt, _ := x.s.Resolve(m.Payload.Type)
	if rt == nil || rt.Kind != spec.Object {
		return
	}
	nbody, nparams := 0, 0
	for _, a := range rt.Attrs {
		switch {
		case a.Sec != "":
			// credentials travel where the security scheme says
		case LocIsBody(h, a.Name):
			nbody++
			if x.holdsUnion(a.Type, 0) {
				return
			}
		default:
			nparams++
		}
	}
	if nbody == 0 {
		return
	}
	mr := x.r.Derive(0x3a17)
	num, den := 1, 12
	if nparams > 0 {
		num, den = 1, 5
	}
	if len(h.Cookies) > 0 {
		num, den = 1, 2 // cookies are the rarest request element: keep a multipart method merging one in every run
	}
	if x.o.MultipartFew {
		den *= 3
	}
	if !mr.Chance(num, den) {
		return
	}
	h.Multipart = true
	x.s.AddFeature("multipart", "multipart-request")
	if nparams > 0 {
		x.s.AddFeature("multipart-with-params")
	}
	// cookies are the rarest request element (one attribute in twenty): half of the multipart methods whose
	// payload object the method owns get an optional one to merge, under a wire name of its own
	if len(h.Cookies) == 0 && m.Payload.Type.Kind == spec.Object && mr.Chance(1, 2) {
		used := map[string]bool{}
		for _, a := range rt.Attrs {
			used[spec.Norm(a.Name)] = true
		}
		n := "session_ck"
		for used[spec.Norm(n)] {
			n += "x"
		}
		rt.Attrs = append(rt.Attrs, &spec.Attr{Name: n, Type: &spec.Type{Kind: []string{spec.Int, spec.String, spec.UInt32}[mr.Intn(3)]}})
		// (optional: a required cookie is the trigger of a listed C04 finding that hides parameter violations)
		h.Cookies = append(h.Cookies, spec.Loc{Attr: n, Wire: []string{"", "MPSID", "mp-sess"}[mr.Intn(3)]})
		x.s.AddFeature("cookie", "multipart-with-params")
	}
	if len(h.Cookies) > 0 {
		x.s.AddFeature("multipart-with-cookie")
	}
	// a required string attribute NAMED body, carried by a header: the names goa's own plumbing uses for the request
	// body must not decide which decoded elements are merged into the payload
	if m.Payload.Type.Kind == spec.Object && mr.Chance(1, 2) {
		taken := false
		for _, a := range rt.Attrs {
			if spec.Norm(a.Name) == "body" {
				taken = true
			}
		}
		if !taken {
			rt.Attrs = append(rt.Attrs, &spec.Attr{Name: "body", Type: &spec.Type{Kind: spec.String}})
			rt.Required = append(rt.Required, "body")
			h.Headers = append(h.Headers, spec.Loc{Attr: "body", Wire: "X-Mp-Body"})
			x.s.AddFeature("header", "multipart-attribute-named-body")
		}
	}
}

// holdsUnion reports whether a value of type t can hold a OneOf attribute.
func (x *g) holdsUnion(t *spec.Type, depth int) bool {
	if t == nil || depth > 12 {
		return false
	}
	switch t.Kind {
	case spec.Union:
		return true
	case spec.Ref:
		if ut := x.s.Type(t.Ref); ut != nil {
			return x.holdsUnion(ut.Def, depth+1)
		}
	case spec.Array:
		return x.holdsUnion(t.Elem.Type, depth+1)
	case spec.Map:
		return x.holdsUnion(t.Elem.Type, depth+1) || x.holdsUnion(t.Key.Type, depth+1)
	case spec.Object:
		for _, a := range t.Attrs {
			if x.holdsUnion(a.Type, depth+1) {
				return true
			}
		}
	}
	return false
}
