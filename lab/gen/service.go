package gen

import (
	"fmt"
	"strings"

	"verif.local/lab/spec"
	"verif.local/lab/vtree"
)

var svcWords = []string{"calc", "storage", "sommelier", "accounts", "catalog", "tracker"}
var methWords = []string{"add", "list", "show", "update", "remove", "rate", "pick", "upload", "query", "submit"}

func (x *g) genService(i int, used map[string]bool) {
	sv := &spec.Service{}
	for {
		sv.Name = svcWords[x.r.Intn(len(svcWords))]
		if x.o.Profile == "naming" && x.chance(1, 3) {
			sv.Name = x.r.Pick("type", "http", "svc", "goa", "client", "server", "service")
		}
		if !used[sv.Name] {
			used[sv.Name] = true
			break
		}
	}
	if x.chance(1, 2) {
		sv.BasePath = "/" + sv.Name
		x.s.AddFeature("service-base-path")
	}
	if x.o.Profile == "grpc" {
		sv.GRPC = true
		sv.NoHTTP = x.chance(1, 2)
	}
	if x.o.Profile == "errors" && x.chance(1, 2) || x.chance(1, 6) {
		e := &spec.ErrorDecl{Name: "svc_" + x.r.Pick("unavailable", "conflict", "locked")}
		if x.chance(1, 3) {
			e.Temporary = true
		}
		sv.Errors = append(sv.Errors, e)
		if !sv.NoHTTP {
			he := &spec.HTTPError{Name: e.Name, Status: pickErrStatus(x.r)}
			if x.chance(1, 3) {
				// an error response declared once for the service, inherited by the methods, whose message travels in
				// a header named differently from the attribute
				he.Headers = append(he.Headers, spec.Loc{Attr: "message", Wire: "X-Svc-Err-Message"})
				x.s.AddFeature("error-header", "inherited-error-header")
			} else if x.chance(1, 3) {
				he.Cookies = append(he.Cookies, spec.Loc{Attr: "id", Wire: "svc-err-id"})
				x.s.AddFeature("error-cookie", "inherited-error-cookie")
			}
			sv.HTTPErrs = append(sv.HTTPErrs, he)
		}
		x.s.AddFeature("service-error")
	}
	// refer to an API-level error definition (its HTTP mapping is inherited from the API)
	if len(x.s.API.Errors) > 0 && x.chance(2, 3) {
		ae := x.s.API.Errors[0]
		sv.Errors = append(sv.Errors, &spec.ErrorDecl{Name: ae.Name})
		x.s.AddFeature("api-error-referenced")
	}
	if len(x.s.Schemes) > 0 {
		// requirements declared on the service are inherited by every method that does not override them
		n := 3
		if x.o.Profile == "security" {
			n = 2
		}
		k := x.r.Intn(n)
		if x.o.Profile == "security" && len(x.s.API.Security) > 0 && x.chance(1, 2) {
			k = 0 // API-level AND service-level requirements: the service's win for its methods
		}
		switch k {
		case 0:
			sv.Security = x.genRequirements(2)
			x.s.AddFeature("service-security")
		}
	}
	nm := x.r.Range(1, 3)
	if x.o.Thorough {
		nm = x.r.Range(1, 4)
	}
	mused := map[string]bool{}
	for j := 0; j < nm; j++ {
		x.genMethod(sv, j, mused)
		if j == 0 && nm < 3 && x.plainArrayOf[sv.Name] != "" {
			nm = 3 // the plain-array gadget needs the methods that return the collection (dynamic view, fixed view)
		}
	}
	if (x.o.Profile == "openapi" || x.chance(1, 10)) && (!x.o.Runtime || x.o.Files) && !sv.NoHTTP && x.chance(1, 2) {
		sv.Files = append(sv.Files, &spec.FileServer{Path: fmt.Sprintf("/static%d/{*filepath}", i), File: "public"})
		if x.chance(1, 2) {
			sv.Files = append(sv.Files, &spec.FileServer{Path: fmt.Sprintf("/doc%d.json", i), File: "gen/http/openapi.json"})
		}
		x.s.AddFeature("file-server")
		// a single file served on the very path a non-GET endpoint uses: both operations belong to one path item
		if x.chance(1, 2) {
			for _, m := range sv.Methods {
				if m.HTTP == nil || len(m.HTTP.Routes) == 0 {
					continue
				}
				r := m.HTTP.Routes[0]
				if r.Verb != "GET" && r.Verb != "HEAD" && r.Path != "" && !strings.Contains(r.Path, "{") {
					sv.Files = append(sv.Files, &spec.FileServer{Path: r.Path, File: "public/index.html"})
					x.s.AddFeature("file-server-shares-endpoint-path")
					break
				}
			}
		}
	}
	x.s.Services = append(x.s.Services, sv)
}

func (x *g) genMethod(sv *spec.Service, j int, used map[string]bool) {
	m := &spec.Method{}
	for {
		m.Name = methWords[x.r.Intn(len(methWords))]
		if x.o.Profile == "naming" && x.chance(1, 3) {
			m.Name = x.r.Pick("type", "new", "mount", "use", "service", "func", "client", "endpoint", "decode", "string", "error")
		}
		if !used[m.Name] {
			used[m.Name] = true
			break
		}
	}
	// ---- HTTP streaming (websocket) methods: payload, streaming payload and result come from stream.go
	streaming := x.wantStream(sv)
	if streaming {
		x.genStream(m)
	}
	// ---- payload
	pk := 0
	if !streaming {
		pk = x.r.Intn(10)
	}
	switch {
	case streaming:
	case pk == 0 && x.o.Profile != "security":
		// no payload
		x.s.AddFeature("payload-none")
	case pk == 1 && x.o.Profile != "security" && x.o.Profile != "grpc" && x.objectTypes() != nil && x.chance(1, 3):
		// the whole payload is a collection of collections of a named object type
		ts := x.objectTypes()
		ul := &spec.Attr{Type: &spec.Type{Kind: spec.Ref, Ref: ts[x.r.Intn(len(ts))].Name}}
		inner := &spec.Attr{Type: &spec.Type{Kind: spec.Array, Elem: ul}}
		if x.chance(1, 2) {
			inner = &spec.Attr{Type: &spec.Type{Kind: spec.Map, Key: &spec.Attr{Type: &spec.Type{Kind: spec.String}}, Elem: ul}}
		}
		m.Payload = &spec.Attr{Type: &spec.Type{Kind: spec.Array, Elem: inner}}
		x.s.AddFeature("payload-array", "payload-collection-of-collections-of-usertype")
	case (pk == 1 || pk == 2 && x.o.Profile == "openapi") && x.o.Profile != "security":
		// primitive / array / map payload (the openapi profile draws primitives more often: they are the payloads that
		// travel as a whole in one path, query or header parameter)
		sel := x.r.Intn(3)
		if pk == 2 {
			sel = 0
		}
		switch sel {
		case 0:
			k := x.prim()
			if k == spec.Any && x.o.Profile == "grpc" {
				k = spec.String
			}
			m.Payload = &spec.Attr{Type: &spec.Type{Kind: k}}
			if x.chance(1, 2) {
				m.Payload.Val = x.genVal(k, nil)
			}
			x.s.AddFeature("payload-primitive")
		case 1:
			m.Payload = &spec.Attr{Type: &spec.Type{Kind: spec.Array, Elem: x.genElem(2, "")}}
			x.s.AddFeature("payload-array")
		case 2:
			m.Payload = &spec.Attr{Type: &spec.Type{Kind: spec.Map, Key: &spec.Attr{Type: &spec.Type{Kind: spec.String}}, Elem: x.genElem(2, "")}}
			x.s.AddFeature("payload-map")
		}
	case pk <= 4 && x.objectTypes() != nil && x.o.Profile != "security":
		ts := x.objectTypes()
		t := ts[x.r.Intn(len(ts))]
		m.Payload = &spec.Attr{Type: &spec.Type{Kind: spec.Ref, Ref: t.Name}}
		x.s.AddFeature("payload-usertype")
	default:
		m.Payload = &spec.Attr{Type: x.genObject(1, "")}
		x.s.AddFeature("payload-inline")
	}
	// validation profile: carry a single-validation type in the body of payload and result
	if len(x.solo) > 0 && !streaming && m.Payload != nil && m.Payload.Type.Kind == spec.Object && x.chance(2, 3) {
		first := x.solo[x.r.Intn(len(x.solo))]
		m.Payload.Type.Attrs = append(m.Payload.Type.Attrs, &spec.Attr{Name: "solo_in", Type: &spec.Type{Kind: spec.Ref, Ref: first}})
		if second := x.solo[x.r.Intn(len(x.solo))]; second != first && len(x.solo) > 2 {
			m.Payload.Type.Attrs = append(m.Payload.Type.Attrs, &spec.Attr{Name: "solo_in2", Type: &spec.Type{Kind: spec.Ref, Ref: second}})
		}
	}
	// a map of primitives that genHTTP may send in the query string (name[key]=value)
	if (x.o.Profile == "http-loc" || x.o.Profile == "mixed") && m.Payload != nil && m.Payload.Type.Kind == spec.Object && x.chance(1, 4) {
		used := map[string]bool{}
		for _, a := range m.Payload.Type.Attrs {
			used[spec.Norm(a.Name)] = true
		}
		n := "lookup"
		for used[spec.Norm(n)] {
			n += "x"
		}
		elem := &spec.Attr{Type: &spec.Type{Kind: x.r.Pick(spec.Int, spec.String, spec.Int64, spec.Boolean, spec.Float64, spec.UInt32)}}
		if x.chance(1, 4) {
			elem = &spec.Attr{Type: &spec.Type{Kind: spec.Array, Elem: &spec.Attr{Type: &spec.Type{Kind: x.r.Pick(spec.String, spec.Int)}}}}
		}
		m.Payload.Type.Attrs = append(m.Payload.Type.Attrs, &spec.Attr{Name: n, Type: &spec.Type{Kind: spec.Map,
			Key: &spec.Attr{Type: &spec.Type{Kind: x.r.Pick(spec.String, spec.String, spec.Int)}}, Elem: elem}})
		x.s.AddFeature("map", "payload-map-of-primitives")
	}
	// an array of non-string primitives with a default value that genHTTP sends in the query string or a header
	// (the caller may leave it unset: the service must then see the default)
	if (x.o.Profile == "http-loc" || x.o.Profile == "mixed") && !streaming && m.Payload != nil && m.Payload.Type.Kind == spec.Object && x.chance(1, 3) {
		used := map[string]bool{}
		for _, a := range m.Payload.Type.Attrs {
			used[spec.Norm(a.Name)] = true
		}
		n := "sizes"
		for used[spec.Norm(n)] {
			n += "x"
		}
		at := &spec.Type{Kind: spec.Array, Elem: &spec.Attr{Type: &spec.Type{Kind: x.r.Pick(spec.Int, spec.Int64, spec.UInt32, spec.Float64, spec.Boolean, spec.Int32)}}}
		if d := x.genCollectionDefault(at); d != nil {
			m.Payload.Type.Attrs = append(m.Payload.Type.Attrs, &spec.Attr{Name: n, Type: at, Default: d, HasDef: true})
			x.s.AddFeature("default-array", "param-array-default")
		}
	}
	// an attribute typed by the outer alias of a chain (validations on the innermost alias), wherever genHTTP puts it
	if len(x.chain) > 0 && m.Payload != nil && m.Payload.Type.Kind == spec.Object && x.chance(2, 3) {
		m.Payload.Type.Attrs = append(m.Payload.Type.Attrs, &spec.Attr{Name: "chain_in", Type: &spec.Type{Kind: spec.Ref, Ref: x.chain[x.r.Intn(len(x.chain))]}})
	}
	x.unionInto(m, "payload") // union.go (Opts.Unions)
	// ---- security (needs an object payload we own: inline)
	if len(x.s.Schemes) > 0 {
		switch {
		case m.Payload != nil && m.Payload.Type.Kind == spec.Object && (x.chance(1, 3) || len(x.s.EffectiveSecurity(sv, m)) == 0 && x.chance(1, 2)):
			m.Security = x.genRequirements(3)
			x.s.AddFeature("method-security")
			// one requirement of two schemes: a scheme the design already uses elsewhere FIRST, then one used nowhere yet
			if len(x.s.Schemes) >= 2 && x.chance(1, 2) {
				used := map[string]bool{}
				note := func(rs []*spec.Requirement) {
					for _, r := range rs {
						for _, n := range r.Schemes {
							used[n] = true
						}
					}
				}
				note(x.s.API.Security)
				for _, osv := range x.s.Services {
					note(osv.Security)
					for _, om := range osv.Methods {
						note(om.Security)
					}
				}
				note(sv.Security)
				var seen, fresh *spec.Scheme
				for _, sc := range x.s.Schemes {
					if used[sc.Name] && seen == nil {
						seen = sc
					}
					if !used[sc.Name] && fresh == nil {
						fresh = sc
					}
				}
				if seen != nil && fresh != nil && !(seen.Kind == "basic" && fresh.Kind == "basic") {
					m.Security = []*spec.Requirement{{Schemes: []string{seen.Name, fresh.Name}}}
					x.s.AddFeature("requirement-seen-scheme-then-new-scheme")
				}
			}
		case x.chance(1, 6) && len(x.s.EffectiveSecurity(sv, m)) > 0:
			m.NoSec = true
			x.s.AddFeature("method-nosecurity")
		}
		x.addSecurityAttrs(sv, m)
	}
	// ---- result
	rk := 0
	if !streaming {
		rk = x.r.Intn(10)
		if x.o.Profile == "views" && (len(sv.Methods) == 1 || len(sv.Methods) == 2) && x.plainArrayOf[sv.Name] != "" {
			rk = 3 // the method after a plain-array method returns the collection of the same type
		}
	}
	textResult := !streaming && x.o.Profile != "grpc" && x.o.Profile != "views" && (x.o.Profile == "http-loc" && x.chance(1, 5) || x.chance(1, 14))
	switch {
	case streaming:
	case textResult:
		// a String or Bytes result (genResponses announces it with a text media type most of the time)
		m.Result = &spec.Attr{Type: &spec.Type{Kind: x.r.Pick(spec.Bytes, spec.String, spec.Bytes)}}
		x.s.AddFeature("result-primitive", "result-text-candidate")
	case rk == 0:
		x.s.AddFeature("result-none")
	case (rk == 1 && x.chance(1, 3) || rk == 2 && (x.o.Profile == "http-loc" || x.o.Profile == "mixed") && x.chance(1, 2)) && x.o.Profile != "grpc" && x.objectTypes() != nil:
		// the whole result is a collection of collections of a named object type (one that requires attributes when
		// there is one: a body that skipped the conversion to its HTTP type is then refused by the client)
		ts := x.objectTypes()
		pick := ts[x.r.Intn(len(ts))]
		for _, c := range ts {
			if c.Def != nil && len(c.Def.Required) > 0 && x.chance(1, 2) {
				pick = c
			}
		}
		ul := &spec.Attr{Type: &spec.Type{Kind: spec.Ref, Ref: pick.Name}}
		inner := &spec.Attr{Type: &spec.Type{Kind: spec.Array, Elem: ul}}
		if x.chance(1, 2) {
			inner = &spec.Attr{Type: &spec.Type{Kind: spec.Map, Key: &spec.Attr{Type: &spec.Type{Kind: spec.String}}, Elem: ul}}
		}
		m.Result = &spec.Attr{Type: &spec.Type{Kind: spec.Array, Elem: inner}}
		x.s.AddFeature("result-array", "result-collection-of-collections-of-usertype")
	case rk == 1:
		switch x.r.Intn(3) {
		case 0:
			k := x.prim()
			m.Result = &spec.Attr{Type: &spec.Type{Kind: k}}
			x.s.AddFeature("result-primitive")
		case 1:
			m.Result = &spec.Attr{Type: &spec.Type{Kind: spec.Array, Elem: x.genElem(2, "")}}
			x.s.AddFeature("result-array")
		case 2:
			m.Result = &spec.Attr{Type: &spec.Type{Kind: spec.Map, Key: &spec.Attr{Type: &spec.Type{Kind: spec.String}}, Elem: x.genElem(2, "")}}
			x.s.AddFeature("result-map")
		}
	case rk <= 5 && (x.resultTypes() != nil || x.objectTypes() != nil):
		if rts := x.resultTypes(); rts != nil && (x.o.Profile == "views" || x.chance(1, 2)) {
			t := rts[x.r.Intn(len(rts))]
			if x.o.Profile == "views" && len(rts) >= 2 && x.chance(1, 2) {
				// the nested-view gadget types come last: the deepest ones are returned more often
				t = rts[len(rts)-1-x.r.Intn(2)]
			}
			if x.o.Profile == "views" && len(sv.Methods) == 2 && x.plainArrayOf[sv.Name] != "" {
				// ... and a third method returns the same collection and lets the service choose the view (next to the
				// method above, whose view is FIXED to "default")
				for _, c := range rts {
					if c.Name == x.plainArrayOf[sv.Name] {
						t = c
					}
				}
				m.Result = &spec.Attr{Type: &spec.Type{Kind: spec.Array, Collection: true, Elem: &spec.Attr{Type: &spec.Type{Kind: spec.Ref, Ref: t.Name}}}}
				x.s.AddFeature("result-collection", "result-dynamic-view-after-fixed-default")
			} else if x.o.Profile == "views" && len(sv.Methods) == 1 && x.plainArrayOf[sv.Name] != "" {
				// the collection of the type the first method returns as a plain array, view fixed to "default"
				for _, c := range rts {
					if c.Name == x.plainArrayOf[sv.Name] {
						t = c
					}
				}
				m.Result = &spec.Attr{Type: &spec.Type{Kind: spec.Array, Collection: true, Elem: &spec.Attr{Type: &spec.Type{Kind: spec.Ref, Ref: t.Name}}}, View: "default"}
				x.s.AddFeature("result-collection", "result-fixed-view", "result-collection-after-plain-array")
			} else if x.o.Profile == "views" && len(sv.Methods) == 0 && x.chance(1, 3) {
				// a type that requires attributes its default view leaves out
				found := false
				for _, c := range rts {
					if requiredOutsideDefaultView(c) {
						t, found = c, true
					}
				}
				if !found {
					t = x.genItemType()
				}
				if x.plainArrayOf == nil {
					x.plainArrayOf = map[string]string{}
				}
				x.plainArrayOf[sv.Name] = t.Name
				// a plain array of the result type (no projection: every attribute travels), declared BEFORE the methods
				// that return the type or its collection under a view: both shapes share response body type names
				m.Result = &spec.Attr{Type: &spec.Type{Kind: spec.Array, Elem: &spec.Attr{Type: &spec.Type{Kind: spec.Ref, Ref: t.Name}}}}
				x.s.AddFeature("result-array-of-resulttype")
			} else if x.chance(1, 4) {
				m.Result = &spec.Attr{Type: &spec.Type{Kind: spec.Array, Collection: true, Elem: &spec.Attr{Type: &spec.Type{Kind: spec.Ref, Ref: t.Name}}}}
				x.s.AddFeature("result-collection")
			} else {
				m.Result = &spec.Attr{Type: &spec.Type{Kind: spec.Ref, Ref: t.Name}}
				x.s.AddFeature("result-resulttype")
			}
			if len(t.Views) > 1 && m.Result.View == "" && x.chance(1, 4) && (m.Result.Type.Kind != spec.Array || m.Result.Type.Collection) {
				m.Result.View = t.Views[x.r.Intn(len(t.Views))].Name
				x.s.AddFeature("result-fixed-view")
			}
		} else if ts := x.objectTypes(); ts != nil {
			t := ts[x.r.Intn(len(ts))]
			m.Result = &spec.Attr{Type: &spec.Type{Kind: spec.Ref, Ref: t.Name}}
			x.s.AddFeature("result-usertype")
		}
	default:
		m.Result = &spec.Attr{Type: x.genObject(1, "")}
		x.s.AddFeature("result-inline")
	}
	if len(x.chain) > 0 && m.Result != nil && m.Result.Type.Kind == spec.Object && x.chance(1, 2) {
		m.Result.Type.Attrs = append(m.Result.Type.Attrs, &spec.Attr{Name: "chain_out", Type: &spec.Type{Kind: spec.Ref, Ref: x.chain[x.r.Intn(len(x.chain))]}})
	}
	if len(x.solo) > 0 && m.Result != nil && m.Result.Type.Kind == spec.Object && x.chance(2, 3) {
		m.Result.Type.Attrs = append(m.Result.Type.Attrs, &spec.Attr{Name: "solo_out", Type: &spec.Type{Kind: spec.Ref, Ref: x.solo[x.r.Intn(len(x.solo))]}})
	}
	x.unionInto(m, "result") // union.go (Opts.Unions)
	// ---- errors
	ne := 0
	if x.o.Profile == "errors" {
		ne = x.r.Range(1, 3)
	} else if x.chance(1, 3) {
		ne = 1
	}
	for k := 0; k < ne; k++ {
		e := &spec.ErrorDecl{Name: fmt.Sprintf("%s_%d", x.r.Pick("not_found", "bad_thing", "too_many", "invalid"), k)}
		switch x.r.Intn(6) {
		case 0:
			if x.o.Runtime {
				// a dedicated type: sharing a type between errors and payloads/results is a listed C01 finding
				ut := x.genObjectTypeNamed("type", strings.Title(strings.ReplaceAll(e.Name, "_", ""))+"Err")
				ut.ErrorOnly = true
				e.Type = &spec.Type{Kind: spec.Ref, Ref: ut.Name}
				x.s.AddFeature("error-usertype")
			} else if ts := x.plainObjectTypes(); ts != nil {
				e.Type = &spec.Type{Kind: spec.Ref, Ref: ts[x.r.Intn(len(ts))].Name}
				x.s.AddFeature("error-usertype")
			}
		case 1:
			e.Type = &spec.Type{Kind: x.r.Pick(spec.String, spec.Int, spec.Boolean, spec.Float64)}
			x.s.AddFeature("error-primitive")
		case 2:
			e.Timeout, e.Temporary, e.Fault = x.r.Bool(), x.r.Bool(), x.r.Bool()
			x.s.AddFeature("error-flags")
		case 3:
			if x.o.Profile == "errors" {
				e.Type = &spec.Type{Kind: spec.Array, Elem: &spec.Attr{Type: &spec.Type{Kind: x.r.Pick(spec.String, spec.Int)}}}
				x.s.AddFeature("error-array")
			}
		}
		// two errors with different inline (non user) types: they will share a status below
		if x.o.Profile == "errors" && k == 1 && x.chance(1, 4) {
			m.Errors[0].Type = &spec.Type{Kind: spec.String}
			m.Errors[0].Timeout, m.Errors[0].Temporary, m.Errors[0].Fault = false, false, false
			e.Type = &spec.Type{Kind: spec.Array, Elem: &spec.Attr{Type: &spec.Type{Kind: spec.String}}}
			e.Timeout, e.Temporary, e.Fault = false, false, false
			x.s.AddFeature("errors-inline-types-pair")
			switch x.r.Intn(3) {
			case 0:
				// two inline types of the SAME JSON type that differ below the top level
				m.Errors[0].Type = &spec.Type{Kind: spec.Array, Elem: &spec.Attr{Type: &spec.Type{Kind: spec.Int}}}
				x.s.AddFeature("errors-inline-types-pair-same-json-type")
			case 1:
				m.Errors[0].Type = &spec.Type{Kind: spec.Map, Key: &spec.Attr{Type: &spec.Type{Kind: spec.String}}, Elem: &spec.Attr{Type: &spec.Type{Kind: spec.Int}}}
				e.Type = &spec.Type{Kind: spec.Map, Key: &spec.Attr{Type: &spec.Type{Kind: spec.String}}, Elem: &spec.Attr{Type: &spec.Type{Kind: spec.String}}}
				x.s.AddFeature("errors-inline-types-pair-same-json-type")
			}
			if x.inlinePair == nil {
				x.inlinePair = map[*spec.Method]bool{}
			}
			x.inlinePair[m] = true
		}
		// one error name means one Go type per service: a name another method of this service already uses keeps
		// its name only when both use the default error type (then the two methods may still map it to different
		// statuses); otherwise it gets the method's index
		for _, om := range sv.Methods {
			for _, oe := range om.Errors {
				if oe.Name == e.Name && (oe.Type != nil || e.Type != nil) {
					e.Name = fmt.Sprintf("%s_m%d", e.Name, j)
				}
			}
		}
		m.Errors = append(m.Errors, e)
		x.s.AddFeature("method-error")
	}
	if !sv.NoHTTP {
		x.genHTTP(sv, m, j)
	}
	if sv.GRPC {
		x.genGRPC(sv, m)
	}
	sv.Methods = append(sv.Methods, m)
}

func (x *g) objectTypes() []*spec.UserType {
	var out []*spec.UserType
	for _, t := range x.s.Types {
		if t.Kind == "type" && t.Def != nil && t.Def.Kind == spec.Object && !t.ErrorOnly {
			out = append(out, t)
		}
	}
	return out
}

// plainObjectTypes are object types usable as custom error types.
func (x *g) plainObjectTypes() []*spec.UserType { return x.objectTypes() }

func (x *g) resultTypes() []*spec.UserType {
	var out []*spec.UserType
	for _, t := range x.s.Types {
		if t.Kind == "result" && t.Def != nil {
			out = append(out, t)
		}
	}
	return out
}

// addSecurityAttrs adds one payload attribute per scheme used by the effective requirements.
func (x *g) addSecurityAttrs(sv *spec.Service, m *spec.Method) {
	reqs := x.s.EffectiveSecurity(sv, m)
	if len(reqs) == 0 {
		return
	}
	if m.Payload == nil {
		m.Payload = &spec.Attr{Type: &spec.Type{Kind: spec.Object}}
	}
	if m.Payload.Type.Kind != spec.Object {
		// security attributes need an object payload we own: replace
		if m.Stream != "" {
			m.Payload = &spec.Attr{Type: x.genStreamInitObject()}
		} else {
			m.Payload = &spec.Attr{Type: x.genObject(1, "")}
		}
	}
	t := m.Payload.Type
	used := map[string]bool{}
	for _, a := range t.Attrs {
		used[spec.Norm(a.Name)] = true
	}
	seen := map[string]bool{}
	add := func(name, sec string) {
		n := name
		for used[spec.Norm(n)] {
			n += "x"
		}
		used[spec.Norm(n)] = true
		t.Attrs = append(t.Attrs, &spec.Attr{Name: n, Type: &spec.Type{Kind: spec.String}, Sec: sec})
		// credentials are required when there is a single requirement; optional with alternatives
		if len(reqs) == 1 {
			t.Required = append(t.Required, n)
		}
	}
	for _, rq := range reqs {
		for _, sn := range rq.Schemes {
			if seen[sn] {
				continue
			}
			seen[sn] = true
			sc := x.s.Scheme(sn)
			switch sc.Kind {
			case "basic":
				add("user", "username")
				add("pass", "password")
			case "apikey":
				add("key_"+sn, "apikey:"+sn)
			case "jwt":
				add("token", "token")
			case "oauth2":
				add("access", "accesstoken")
			}
		}
	}
}

var headerWire = []string{"X-Request-Tag", "X-Lab", "x-lower", "Accept-Thing", "X-MiXed-Case", "If-Lab", "X_Under"}
var cookieWire = []string{"SID", "sess-id", "c_1", "Lab.Cookie", "track"}
var queryWire = []string{"q", "filter", "sort-by", "pageSize", "x.y", "Z"}

// genHTTP distributes the payload over the request and the result over the response.
func (x *g) genHTTP(sv *spec.Service, m *spec.Method, idx int) {
	h := &spec.HTTP{}
	m.HTTP = h
	seg := fmt.Sprintf("/%s", strings.ReplaceAll(m.Name, "_", "-"))
	path := seg
	hasBody := false
	usedWire := map[string]bool{}
	wire := func(pool []string, attr string) string {
		if x.chance(1, 2) {
			return ""
		}
		for i := 0; i < 10; i++ {
			w := pool[x.r.Intn(len(pool))]
			if !usedWire[strings.ToLower(w)] {
				usedWire[strings.ToLower(w)] = true
				return w
			}
		}
		return ""
	}
	if p := m.Payload; p != nil {
		rt, _ := x.s.Resolve(p.Type)
		if rt == nil {
			rt = p.Type
		}
		switch {
		case rt.Kind == spec.Object:
			owned := p.Type.Kind == spec.Object
			hasBasic, authHeaderUsed := false, false
			for _, a := range rt.Attrs {
				usedWire[strings.ToLower(a.Name)] = true
				if a.Sec == "username" {
					hasBasic = true
				}
			}
			for _, a := range rt.Attrs {
				at, _ := x.s.Resolve(a.Type)
				if at == nil {
					at = a.Type
				}
				isAliased := a.Type.Kind == spec.Ref
				prim := spec.IsPrim(at.Kind) && at.Kind != spec.Any && at.Kind != spec.Bytes
				arrPrim := at.Kind == spec.Array && func() bool {
					et, _ := x.s.Resolve(at.Elem.Type)
					if et == nil {
						et = at.Elem.Type
					}
					return spec.IsPrim(et.Kind) && et.Kind != spec.Any && et.Kind != spec.Bytes && at.Elem.Type.Kind != spec.Ref
				}()
				_ = isAliased
				// a map of primitives (or of arrays of primitives) keyed by a primitive can travel in the query string
				mapPrim := at.Kind == spec.Map && a.Type.Kind != spec.Ref && func() bool {
					okPrim := func(t *spec.Type) bool {
						return t.Kind != spec.Ref && spec.IsPrim(t.Kind) && t.Kind != spec.Any && t.Kind != spec.Bytes
					}
					if !okPrim(at.Key.Type) {
						return false
					}
					et := at.Elem.Type
					if et.Kind == spec.Array {
						return okPrim(et.Elem.Type)
					}
					return okPrim(et)
				}()
				// security attributes: where they travel. At most one credential may use the
				// Authorization header (basic auth always does).
				if a.Sec != "" {
					switch {
					case a.Sec == "username" || a.Sec == "password":
						authHeaderUsed = true // implicit basic auth
					case strings.HasPrefix(a.Sec, "apikey:"):
						if x.chance(1, 2) {
							h.Query = append(h.Query, spec.Loc{Attr: a.Name, Wire: wire(queryWire, a.Name)})
							x.s.AddFeature("apikey-query")
						} else {
							w := x.r.Pick("X-API-Key", "X-Key", "")
							for _, l := range h.Headers {
								if w != "" && strings.EqualFold(l.WireName(), w) {
									w = w + "-" + strings.TrimPrefix(a.Sec, "apikey:") // a second API key scheme needs a header of its own
								}
							}
							h.Headers = append(h.Headers, spec.Loc{Attr: a.Name, Wire: w})
							x.s.AddFeature("apikey-header")
						}
					default:
						c := x.r.Intn(4)
						if x.o.Profile == "security" && len(m.Security) == 0 && !m.NoSec && x.chance(2, 3) {
							// methods that INHERIT their requirements carry the credential in different places
							c = []int{0, 3, 1, 3}[idx%4]
						}
						if (hasBasic || authHeaderUsed) && c < 2 {
							c = 2
						}
						switch c {
						case 3:
							// the token travels in the query string
							h.Query = append(h.Query, spec.Loc{Attr: a.Name, Wire: wire(queryWire, a.Name)})
							x.s.AddFeature("token-query")
						case 0:
							// implicit: Authorization header
							authHeaderUsed = true
							x.s.AddFeature("token-implicit")
						case 1:
							h.Headers = append(h.Headers, spec.Loc{Attr: a.Name, Wire: "Authorization"})
							authHeaderUsed = true
							x.s.AddFeature("token-authorization")
						case 2:
							h.Headers = append(h.Headers, spec.Loc{Attr: a.Name, Wire: "X-Token-" + a.Name})
							x.s.AddFeature("token-custom-header")
						}
					}
					continue
				}
				where := x.r.Intn(10)
				if x.o.Profile == "http-loc" || x.o.Profile == "openapi" {
					where = x.r.Intn(7)
				}
				if arrPrim && a.HasDef && strings.HasPrefix(a.Name, "sizes") {
					where = 1 + x.r.Intn(4) // the defaulted array gadget: query string or header
				}
				if m.Stream != "" && where > 5 {
					// a websocket handshake is a GET without body: every attribute travels in the path, the
					// query string, a header or a cookie (stream.go only draws attributes that can)
					where = x.r.Intn(6)
				}
				switch {
				case where == 0 && prim && !a.HasDef && owned && x.pathOK(rt, a) && strings.Count(path, "{") < 2:
					path += "/{" + a.Name + "}"
					h.Path = append(h.Path, spec.Loc{Attr: a.Name})
					if !rt.IsRequired(a.Name) {
						rt.Required = append(rt.Required, a.Name)
					}
					x.s.AddFeature("path-param", "path-"+at.Kind)
				case where <= 4 && mapPrim && !a.HasDef && x.chance(2, 3):
					h.Query = append(h.Query, spec.Loc{Attr: a.Name, Wire: wire(queryWire, a.Name)})
					x.s.AddFeature("query-param", "query-map")
				case where <= 4 && at.Kind == spec.Bytes && a.Type.Kind != spec.Ref && !a.HasDef && x.chance(1, 2):
					// bytes travel verbatim in a query parameter or a header
					if x.chance(1, 2) {
						h.Query = append(h.Query, spec.Loc{Attr: a.Name, Wire: wire(queryWire, a.Name)})
						x.s.AddFeature("query-param", "query-bytes")
					} else {
						h.Headers = append(h.Headers, spec.Loc{Attr: a.Name, Wire: wire(headerWire, a.Name)})
						x.s.AddFeature("header", "header-bytes")
					}
				case where <= 2 && (prim || arrPrim):
					h.Query = append(h.Query, spec.Loc{Attr: a.Name, Wire: wire(queryWire, a.Name)})
					x.s.AddFeature("query-param")
					if arrPrim {
						x.s.AddFeature("query-array")
					}
					if a.HasDef {
						x.s.AddFeature("query-default")
					}
				case where <= 4 && (prim || arrPrim):
					h.Headers = append(h.Headers, spec.Loc{Attr: a.Name, Wire: wire(headerWire, a.Name)})
					x.s.AddFeature("header")
					if arrPrim {
						x.s.AddFeature("header-array")
					}
					if a.HasDef {
						x.s.AddFeature("header-default")
					}
				case where == 5 && prim && x.chance(1, 2):
					h.Cookies = append(h.Cookies, spec.Loc{Attr: a.Name, Wire: wire(cookieWire, a.Name)})
					x.s.AddFeature("cookie")
				case m.Stream != "":
					if mapPrim || x.chance(1, 2) {
						// (a map can only travel in the query string)
						h.Query = append(h.Query, spec.Loc{Attr: a.Name, Wire: wire(queryWire, a.Name)})
						x.s.AddFeature("query-param")
					} else {
						h.Headers = append(h.Headers, spec.Loc{Attr: a.Name, Wire: wire(headerWire, a.Name)})
						x.s.AddFeature("header")
					}
				default:
					hasBody = true
				}
			}
			// explicit body forms
			if hasBody && x.chance(1, 6) {
				// Body("attr") when exactly one attribute is left
				left := x.unmapped(rt, h)
				if len(left) == 1 {
					h.Body = "attr:" + left[0]
					x.s.AddFeature("body-attr")
				}
			}
		default:
			// non-object payload: body, or (primitive) a single path/query/header element
			k := rt.Kind
			prim := spec.IsPrim(k) && k != spec.Any && k != spec.Bytes
			switch {
			case prim && x.o.Profile == "openapi" && m.Stream == "" && x.chance(2, 5):
				// (the generated client of such a method does not compile — a listed C01 finding — the documents are
				// judged all the same)
				h.Headers = append(h.Headers, spec.Loc{Attr: "", Wire: "X-Val"})
				x.s.AddFeature("payload-primitive-header")
			case prim && x.chance(1, 3):
				path += "/{val}"
				h.Path = append(h.Path, spec.Loc{Attr: "", Wire: "val"})
				x.s.AddFeature("payload-primitive-path")
			case prim && (x.chance(1, 3) || m.Stream != "" && (x.o.Runtime || x.chance(1, 2))):
				h.Query = append(h.Query, spec.Loc{Attr: "", Wire: "val"})
				x.s.AddFeature("payload-primitive-query")
			case prim && (x.chance(1, 3) || m.Stream != ""):
				h.Headers = append(h.Headers, spec.Loc{Attr: "", Wire: "X-Val"})
				x.s.AddFeature("payload-primitive-header")
			default:
				hasBody = true
			}
		}
	}
	// trailing catch-all wildcard {*name}: a plain string attribute of an inline object payload that would
	// otherwise travel in the body; a later method of the same service may share the pattern under
	// another verb with its own wildcard name
	var avoid map[string]bool
	if p := m.Payload; p != nil && m.Stream == "" && p.Type.Kind == spec.Object && !strings.Contains(path, "{") && h.Body == "" &&
		(x.chance(1, 6) || (x.o.Profile == "http-loc" && x.chance(1, 2)) || x.catchAll[sv.Name] != nil && x.chance(2, 3)) {
		has := false
		for _, a := range p.Type.Attrs {
			if a.Type.Kind == spec.String && a.Val.Empty() && !a.HasDef && a.Sec == "" && LocIsBody(h, a.Name) {
				has = true
			}
		}
		if !has {
			used := map[string]bool{}
			for _, a := range p.Type.Attrs {
				used[spec.Norm(a.Name)] = true
			}
			n := "rest_path"
			for used[spec.Norm(n)] {
				n += "x"
			}
			p.Type.Attrs = append(p.Type.Attrs, &spec.Attr{Name: n, Type: &spec.Type{Kind: spec.String}})
		}
		for _, a := range p.Type.Attrs {
			if a.Type.Kind == spec.String && a.Val.Empty() && !a.HasDef && a.Sec == "" && LocIsBody(h, a.Name) {
				if prev := x.catchAll[sv.Name]; prev != nil && len(prev.verbs) < 3 && x.chance(2, 3) {
					path = prev.prefix
					avoid = prev.verbs
					x.s.AddFeature("path-catchall-shared-pattern")
				}
				x.lastPrefix = path
				path += "/{*" + a.Name + "}"
				h.Path = append(h.Path, spec.Loc{Attr: a.Name})
				if !p.Type.IsRequired(a.Name) {
					p.Type.Required = append(p.Type.Required, a.Name)
				}
				x.s.AddFeature("path-catchall")
				hasBody = len(x.unmapped(p.Type, h)) > 0
				break
			}
		}
	}
	verb := "GET"
	if hasBody {
		verb = x.r.Pick("POST", "PUT", "PATCH", "POST")
	} else if m.Stream != "" {
		// websocket endpoints are GET
	} else if x.chance(1, 3) {
		verb = x.r.Pick("DELETE", "POST", "PUT")
	}
	if avoid[verb] {
		for _, alt := range []string{"PUT", "PATCH", "POST", "DELETE"} {
			if !avoid[alt] && (hasBody || alt == "DELETE" || alt == "PUT") {
				verb = alt
				break
			}
		}
	}
	if avoid[verb] {
		for _, alt := range []string{"POST", "PUT", "PATCH", "DELETE", "GET"} {
			if !avoid[alt] {
				verb = alt
				break
			}
		}
	}
	if strings.Contains(path, "{*") {
		if avoid != nil {
			avoid[verb] = true
		} else {
			if x.catchAll == nil {
				x.catchAll = map[string]*catchAllInfo{}
			}
			x.catchAll[sv.Name] = &catchAllInfo{prefix: x.lastPrefix, verbs: map[string]bool{verb: true}}
		}
	}
	h.Routes = append(h.Routes, spec.Route{Verb: verb, Path: path})
	// multipart requests and raw (skipped) bodies: generation-level features (C01/C07), never driven at run time
	if !x.o.Runtime && !sv.GRPC && m.Stream == "" {
		switch {
		case hasBody && verb != "GET" && h.Body == "" && x.chance(1, 7):
			h.Multipart = true
			x.s.AddFeature("multipart-request")
		case !hasBody && x.chance(1, 9):
			h.SkipReqBody = true
			x.s.AddFeature("skip-request-body")
		}
	}
	x.genMultipart(sv, m, hasBody, verb) // multipart.go (Opts.Multipart): driven at run time with the lab's codec
	// (a streaming endpoint with two routes crashes the OpenAPI 3 generator: findings/C01-stream-multi-route-openapi3;
	// kept for C01, not emitted for the runtime checks which need the generated code)
	if !strings.Contains(path, "{*") && (m.Stream == "" && (x.chance(1, 6) || (x.o.Profile == "openapi" && x.chance(1, 2))) || m.Stream != "" && !x.o.Runtime && x.chance(1, 10)) {
		alt := "/alt" + path
		h.Routes = append(h.Routes, spec.Route{Verb: verb, Path: alt})
		x.s.AddFeature("multi-route")
	}
	// ---- responses (a streaming endpoint answers the handshake; its results travel as websocket messages)
	if m.Stream == "" {
		x.genResponses(sv, m)
	}
	// ---- error responses
	for _, e := range m.Errors {
		he := &spec.HTTPError{Name: e.Name, Status: pickErrStatus(x.r)}
		if e.Type == nil {
			// default ErrorResult type: sometimes carry the message in a header, sometimes no body at all
			switch x.r.Intn(5) {
			case 0:
				he.Headers = append(he.Headers, spec.Loc{Attr: "message", Wire: "X-Err-Message"})
				x.s.AddFeature("error-header")
			case 1:
				he.Body = "empty"
				x.s.AddFeature("error-body-empty")
			case 2:
				// the error's id travels in a cookie whose name is not the attribute's
				he.Cookies = append(he.Cookies, spec.Loc{Attr: "id", Wire: x.r.Pick("err-id", "lab.err", "E_ID")})
				x.s.AddFeature("error-cookie")
			}
		}
		m.HTTP.Errors = append(m.HTTP.Errors, he)
	}
	// several errors on one status (goa-error header disambiguates)
	inlinePair := x.inlinePair[m]
	if len(m.HTTP.Errors) >= 2 && (x.chance(1, 2) || inlinePair) {
		m.HTTP.Errors[1].Status = m.HTTP.Errors[0].Status
		x.s.AddFeature("errors-share-status")
	}
	// three errors of ONE Go type (the default error type): two share a status, the third has a status of its own
	if len(m.Errors) >= 3 && len(m.HTTP.Errors) >= 3 && !inlinePair && x.chance(1, 2) {
		for i := 0; i < 3; i++ {
			m.Errors[i].Type = nil
			m.HTTP.Errors[i].Headers, m.HTTP.Errors[i].Body = nil, ""
		}
		m.HTTP.Errors[1].Status = m.HTTP.Errors[0].Status
		for m.HTTP.Errors[2].Status == m.HTTP.Errors[0].Status {
			m.HTTP.Errors[2].Status = pickErrStatus(x.r)
		}
		x.s.AddFeature("errors-share-status", "errors-same-type-two-groups")
	}
}

// pathOK: path parameters cannot carry validations that allow the empty string only, etc. Keep simple.
func (x *g) pathOK(rt *spec.Type, a *spec.Attr) bool {
	if a.Val != nil && len(a.Val.Enum) > 0 {
		for _, e := range a.Val.Enum {
			if vtree.Text(e) == "" {
				return false
			}
		}
	}
	if a.Val != nil && a.Val.MaxLen != nil && *a.Val.MaxLen == 0 {
		return false
	}
	return true
}

func (x *g) unmapped(rt *spec.Type, h *spec.HTTP) []string {
	mapped := map[string]bool{}
	for _, l := range [][]spec.Loc{h.Path, h.Query, h.Headers, h.Cookies} {
		for _, e := range l {
			mapped[e.Attr] = true
		}
	}
	var out []string
	for _, a := range rt.Attrs {
		if !mapped[a.Name] && a.Sec != "username" && a.Sec != "password" {
			out = append(out, a.Name)
		}
	}
	return out
}

func (x *g) genResponses(sv *spec.Service, m *spec.Method) {
	h := m.HTTP
	r := &spec.HTTPResponse{}
	if m.Result == nil {
		if !x.o.Runtime && !sv.GRPC && m.Stream == "" && x.chance(1, 12) {
			h.SkipRespBody = true
			x.s.AddFeature("skip-response-body")
		}
		r.Status = []int{204, 200, 202}[x.r.Intn(3)]
		if x.chance(2, 3) {
			// default response (let goa pick 204)
			return
		}
		h.Responses = append(h.Responses, r)
		return
	}
	r.Status = []int{200, 200, 201, 202}[x.r.Intn(4)]
	rt, ut := x.s.Resolve(m.Result.Type)
	if rt == nil {
		rt = m.Result.Type
	}
	isView := ut != nil && ut.Kind == "result"
	if rt.Kind == spec.Object && !isView {
		bodyLeft := 0
		for _, a := range rt.Attrs {
			at, _ := x.s.Resolve(a.Type)
			if at == nil {
				at = a.Type
			}
			prim := spec.IsPrim(at.Kind) && at.Kind != spec.Any && at.Kind != spec.Bytes
			arrPrim := at.Kind == spec.Array && func() bool {
				et := at.Elem.Type
				return spec.IsPrim(et.Kind) && et.Kind != spec.Any && et.Kind != spec.Bytes
			}()
			c := x.r.Intn(10)
			switch {
			case c <= 1 && (prim || arrPrim):
				w := ""
				if x.chance(1, 2) {
					w = x.r.Pick("X-Result-Tag", "Location", "X-Count", "ETag") + ""
					for _, e := range r.Headers {
						if strings.EqualFold(e.WireName(), w) {
							w = ""
						}
					}
				}
				r.Headers = append(r.Headers, spec.Loc{Attr: a.Name, Wire: w})
				x.s.AddFeature("response-header")
				if a.HasDef {
					x.s.AddFeature("response-header-default")
				}
			case prim && (c == 2 && x.chance(1, 2) || len(r.Cookies) > 0 && x.chance(3, 4) || x.o.Profile == "http-loc" && c == 3):
				cw := ""
				if x.chance(1, 2) {
					cw = x.r.Pick("SID", "sess-id", "c_1", "Lab.Cookie")
					for _, e := range r.Cookies {
						if e.WireName() == cw {
							cw = ""
						}
					}
					for _, a2 := range rt.Attrs {
						if a2.Name == cw {
							cw = ""
						}
					}
				}
				r.Cookies = append(r.Cookies, spec.Loc{Attr: a.Name, Wire: cw})
				x.s.AddFeature("response-cookie")
				if len(r.Cookies) > 1 {
					x.s.AddFeature("response-cookies-several")
				}
			default:
				bodyLeft++
			}
		}
		// tagged responses: a string attribute selects an alternative status
		if x.chance(1, 4) || (x.o.Profile == "http-loc" && x.chance(1, 2)) {
			for _, a := range rt.Attrs {
				if a.Type.Kind == spec.String && a.Val.Empty() && !a.HasDef && !inLocs(r.Headers, a.Name) && !inLocs(r.Cookies, a.Name) {
					// 1-2 alternatives selected by different values of the same attribute (1-3 success responses in all)
					statuses := []int{201, 202, 206}
					vals := []string{"special", "created", "x y"}
					perm := x.r.Perm(3)
					nalt := 2
					if x.chance(1, 3) {
						nalt = 1
					}
					used := 0
					for _, pi := range perm {
						if used >= nalt {
							break
						}
						if statuses[pi] == r.Status {
							continue
						}
						tagged := &spec.HTTPResponse{Status: statuses[pi], TagAttr: a.Name, TagValue: vals[pi]}
						tagged.Headers = append([]spec.Loc(nil), r.Headers...)
						tagged.Cookies = append([]spec.Loc(nil), r.Cookies...)
						// an explicit body that does not carry the tag attribute (the client restores it from the response
						// selected): Body(Empty) or Body("other"); only when everything dropped is optional without default
						if !isView && !rt.IsRequired(a.Name) && x.chance(1, 2) {
							var rest []*spec.Attr
							clean := true
							for _, b := range rt.Attrs {
								if b.Name == a.Name || inLocs(r.Headers, b.Name) || inLocs(r.Cookies, b.Name) {
									continue
								}
								rest = append(rest, b)
								if rt.IsRequired(b.Name) || b.HasDef {
									clean = false
								}
							}
							switch {
							case !clean:
							case len(rest) > 0 && x.chance(1, 2) && rest[0].Type.Kind != spec.Union:
								// (Body("attr") naming a OneOf attribute is a listed goa defect: trigger body-is-union)
								pick := rest[0]
								for _, b := range rest {
									if b.Type.Kind != spec.Union && x.chance(1, 2) {
										pick = b
									}
								}
								tagged.Body = "attr:" + pick.Name
								x.s.AddFeature("tagged-response-explicit-body", "response-body-attr")
							default:
								tagged.Body = "empty"
								x.s.AddFeature("tagged-response-explicit-body", "response-body-empty")
							}
						}
						h.Responses = append(h.Responses, tagged)
						used++
					}
					x.s.AddFeature("tagged-response")
					if used > 1 {
						x.s.AddFeature("tagged-response-multi")
					}
					break
				}
			}
		}
	}
	if !x.o.Runtime && !sv.GRPC && m.Stream == "" && !isView && rt.Kind == spec.Object && len(h.Responses) == 0 && x.chance(1, 9) {
		// the service streams the response body itself: every result attribute must travel in a header
		all := true
		for _, a := range rt.Attrs {
			if !inLocs(r.Headers, a.Name) {
				all = false
			}
		}
		if all && len(r.Cookies) == 0 {
			h.SkipRespBody = true
			x.s.AddFeature("skip-response-body")
		}
	}
	if x.chance(1, 8) && !isView && rt.Kind == spec.Object {
		r.ContentType = x.r.Pick("application/json", "application/vnd.lab+json")
		x.s.AddFeature("response-content-type")
	}
	// text bodies: a String or Bytes result announced with a text media type travels verbatim (text encoder/decoder)
	if (rt.Kind == spec.String || rt.Kind == spec.Bytes) && m.Result.Type.Kind != spec.Ref && (x.chance(1, 2) || x.o.Profile == "http-loc") {
		r.ContentType = x.r.Pick("text/plain", "text/html", "application/vnd.lab+txt", "text/plain; charset=utf-8")
		x.s.AddFeature("response-content-type-text", "response-text-"+rt.Kind)
	}
	h.Responses = append(h.Responses, r)
}

// genItemType adds a result type whose default and tiny views leave out required attributes.
func (x *g) genItemType() *spec.UserType {
	it := &spec.UserType{Name: x.typeName("Item"), Kind: "result", Def: &spec.Type{Kind: spec.Object}}
	it.Def.Attrs = []*spec.Attr{
		{Name: "ident", Type: &spec.Type{Kind: spec.Int}},
		{Name: "name", Type: &spec.Type{Kind: spec.String}},
		{Name: "secret", Type: &spec.Type{Kind: spec.String}},
		{Name: "rank", Type: &spec.Type{Kind: spec.Int}},
		{Name: "note", Type: &spec.Type{Kind: spec.String}},
	}
	it.Def.Required = []string{"ident", "name", "secret", "rank"}
	it.Views = []*spec.View{
		{Name: "default", Attrs: []spec.ViewAttr{{Name: "ident"}, {Name: "name"}}},
		{Name: "tiny", Attrs: []spec.ViewAttr{{Name: "ident"}}},
	}
	x.s.Types = append(x.s.Types, it)
	x.s.AddFeature("result-type", "multi-view", "view-omits-required")
	return it
}

// requiredOutsideDefaultView reports whether a result type requires an attribute its default view does not list.
func requiredOutsideDefaultView(t *spec.UserType) bool {
	if t.Def == nil || t.Def.Kind != spec.Object {
		return false
	}
	for _, v := range t.Views {
		if v.Name != "default" {
			continue
		}
		in := map[string]bool{}
		for _, a := range v.Attrs {
			in[a.Name] = true
		}
		for _, r := range t.Def.Required {
			if !in[r] {
				return true
			}
		}
	}
	return false
}

func inLocs(ls []spec.Loc, attr string) bool {
	for _, l := range ls {
		if l.Attr == attr {
			return true
		}
	}
	return false
}

func (x *g) genGRPC(sv *spec.Service, m *spec.Method) {
	g := &spec.GRPC{}
	m.GRPC = g
	// field tags on payload/result object attributes (inline only; user types get tags at definition)
	x.s.AddFeature("grpc")
}

type catchAllInfo struct {
	prefix string
	verbs  map[string]bool // verbs already mounted on the shared pattern
}

// LocIsBody reports whether an attribute is not mapped to path/query/header/cookie.
func LocIsBody(h *spec.HTTP, attr string) bool {
	for _, ls := range [][]spec.Loc{h.Path, h.Query, h.Headers, h.Cookies} {
		for _, l := range ls {
			if l.Attr == attr {
				return false
			}
		}
	}
	return true
}
