package gen

import (
	"verif.local/lab/spec"
	"verif.local/lab/vtree"
)

// genGadgetService adds one service whose methods are fixed combinations of design features that the random
// generator reaches only now and then (each is the trigger of a seeded change a seed once missed): several response
// cookies with names of their own, tagged responses with explicit bodies that do not carry the optional tag
// attribute, whole bodies that are collections of collections of a user type with required attributes, a bytes
// result announced as text, defaulted arrays of non-string primitives in the query string and a header. The
// decision to add it comes from a derived PRNG stream: designs that do not draw it are what they were.
func (x *g) genGadgetService() {
	if x.o.Profile != "http-loc" && x.o.Profile != "mixed" {
		return
	}
	gr := x.r.Derive(0x6ad6e75)
	if !gr.Chance(1, 2) {
		return
	}
	for _, sv := range x.s.Services {
		if sv.Name == "gadgets" {
			return
		}
	}
	str := func() *spec.Type { return &spec.Type{Kind: spec.String} }
	intT := func() *spec.Type { return &spec.Type{Kind: spec.Int} }
	cell := &spec.UserType{Name: x.typeName("GCell"), Kind: "type", Def: &spec.Type{Kind: spec.Object}}
	cell.Def.Attrs = []*spec.Attr{
		// multi-word names: the Go field (DisplayName) and the JSON member (display_name) differ by more than case
		{Name: "display_name", Type: str()},
		{Name: "unit_qty", Type: intT()},
		{Name: "side_note", Type: str()},
	}
	cell.Def.Required = []string{"display_name", "unit_qty"}
	x.s.Types = append(x.s.Types, cell)
	ref := func() *spec.Attr { return &spec.Attr{Type: &spec.Type{Kind: spec.Ref, Ref: cell.Name}} }
	arr := func(e *spec.Attr) *spec.Attr { return &spec.Attr{Type: &spec.Type{Kind: spec.Array, Elem: e}} }
	mp := func(e *spec.Attr) *spec.Attr {
		return &spec.Attr{Type: &spec.Type{Kind: spec.Map, Key: &spec.Attr{Type: str()}, Elem: e}}
	}
	nosec := len(x.s.API.Security) > 0

	// 1. cookies with their own names + tagged responses with explicit bodies
	jarRes := &spec.Type{Kind: spec.Object, Attrs: []*spec.Attr{
		{Name: "token", Type: str()},
		{Name: "count", Type: intT()},
		{Name: "flag", Type: str()},
		{Name: "kind", Type: str()},
		{Name: "detail", Type: str()},
		{Name: "extra", Type: str()},
	}}
	cookies := []spec.Loc{{Attr: "token", Wire: "g-token"}, {Attr: "count", Wire: "g.count"}, {Attr: "flag"}}
	jar := &spec.Method{Name: "jar", NoSec: nosec,
		Payload: &spec.Attr{Type: &spec.Type{Kind: spec.Object, Attrs: []*spec.Attr{{Name: "ident", Type: str()}}, Required: []string{"ident"}}},
		Result:  &spec.Attr{Type: jarRes},
		HTTP: &spec.HTTP{Routes: []spec.Route{{Verb: "POST", Path: "/jar"}},
			Responses: []*spec.HTTPResponse{
				{Status: 200, Cookies: cookies},
				{Status: 202, TagAttr: "kind", TagValue: "queued", Cookies: cookies, Body: "attr:detail"},
				{Status: 206, TagAttr: "kind", TagValue: "partial", Cookies: cookies, Body: "empty"},
			}}}
	// 2./3. whole bodies that are collections of collections of a user type
	grid := &spec.Method{Name: "grid", NoSec: nosec, Result: arr(arr(ref())),
		HTTP: &spec.HTTP{Routes: []spec.Route{{Verb: "GET", Path: "/grid"}}}}
	cells := &spec.Method{Name: "cells", NoSec: nosec, Payload: arr(arr(ref())), Result: arr(mp(ref())),
		HTTP: &spec.HTTP{Routes: []spec.Route{{Verb: "POST", Path: "/cells"}}}}
	// (the same service also sends a PLAIN collection of the type: the constructors of the two bodies must not share a name)
	plain := &spec.Method{Name: "plain", NoSec: nosec, Payload: arr(ref()), Result: arr(ref()),
		HTTP: &spec.HTTP{Routes: []spec.Route{{Verb: "POST", Path: "/plain"}}}}
	// 4. bytes announced as text
	blob := &spec.Method{Name: "blob", NoSec: nosec, Result: &spec.Attr{Type: &spec.Type{Kind: spec.Bytes}},
		HTTP: &spec.HTTP{Routes: []spec.Route{{Verb: "GET", Path: "/blob"}}, Responses: []*spec.HTTPResponse{{Status: 200, ContentType: "text/plain"}}}}
	// a NAMED map type carried by a query parameter (name[key]=value, like an inline map)
	filters := &spec.UserType{Name: x.typeName("GFilters"), Kind: "alias", Def: &spec.Type{Kind: spec.Map, Key: &spec.Attr{Type: str()}, Elem: &spec.Attr{Type: str()}}}
	x.s.Types = append(x.s.Types, filters)
	// a NAMED array type whose elements are of a named primitive type with a validation of its own, in the query too
	one := 1.0
	gid := &spec.UserType{Name: x.typeName("GId"), Kind: "alias", Def: intT(), Val: &spec.Val{Min: &one}}
	gids := &spec.UserType{Name: x.typeName("GIds"), Kind: "alias", Def: &spec.Type{Kind: spec.Array, Elem: &spec.Attr{Type: &spec.Type{Kind: spec.Ref, Ref: gid.Name}}}}
	x.s.Types = append(x.s.Types, gid, gids)
	// 5. defaulted arrays of non-string primitives outside the body
	sizes := &spec.Method{Name: "sizes", NoSec: nosec,
		Payload: &spec.Attr{Type: &spec.Type{Kind: spec.Object, Attrs: []*spec.Attr{
			{Name: "sizes", Type: &spec.Type{Kind: spec.Array, Elem: &spec.Attr{Type: intT()}}, Default: []any{vtree.I(10), vtree.I(20)}, HasDef: true},
			{Name: "flags", Type: &spec.Type{Kind: spec.Array, Elem: &spec.Attr{Type: &spec.Type{Kind: spec.Boolean}}}, Default: []any{vtree.B(true), vtree.B(false)}, HasDef: true},
			{Name: "note", Type: str()},
			{Name: "filters", Type: &spec.Type{Kind: spec.Ref, Ref: filters.Name}},
			{Name: "ids", Type: &spec.Type{Kind: spec.Ref, Ref: gids.Name}},
			// collections with non-empty defaults in the BODY: unset takes the default, explicitly empty stays empty
			{Name: "tags", Type: &spec.Type{Kind: spec.Array, Elem: &spec.Attr{Type: str()}}, Default: []any{vtree.S("a"), vtree.S("b")}, HasDef: true},
			{Name: "limits", Type: &spec.Type{Kind: spec.Map, Key: &spec.Attr{Type: str()}, Elem: &spec.Attr{Type: intT()}}, Default: vtree.MkMap(map[string]any{"s:base": vtree.I(1)}), HasDef: true},
		}}},
		HTTP: &spec.HTTP{Routes: []spec.Route{{Verb: "POST", Path: "/sizes"}},
			Query: []spec.Loc{{Attr: "sizes"}, {Attr: "ids"}}, Headers: []spec.Loc{{Attr: "flags", Wire: "X-G-Flags"}}}}
	// 6. the same nested collection as the explicit body of a response (Body("sheet")), next to a header
	sheet := &spec.Method{Name: "sheet", NoSec: nosec,
		Result: &spec.Attr{Type: &spec.Type{Kind: spec.Object, Attrs: []*spec.Attr{
			{Name: "sheet", Type: arr(arr(ref())).Type},
			{Name: "label", Type: str()},
		}}},
		HTTP: &spec.HTTP{Routes: []spec.Route{{Verb: "GET", Path: "/sheet"}},
			Responses: []*spec.HTTPResponse{{Status: 200, Headers: []spec.Loc{{Attr: "label", Wire: "X-G-Label"}}, Body: "attr:sheet"}}}}
	// (a map parameter makes the Swagger 2.0 document invalid, a listed finding that hides later errors of the same
	// document: half of the gadget services only)
	if x.r.Derive(0xf117e5).Chance(1, 2) {
		sizes.HTTP.Query = append(sizes.HTTP.Query, spec.Loc{Attr: "filters"})
	}
	// 7. primitive alias types that declare a default of their own, used by attributes that declare ANOTHER default:
	// the attribute's default is the one unset values take, in requests (query, body) and responses (header, body)
	gtok := &spec.UserType{Name: x.typeName("GTok"), Kind: "alias", Def: str(), AliasDefault: vtree.S("type-level")}
	gnum := &spec.UserType{Name: x.typeName("GNum"), Kind: "alias", Def: intT(), AliasDefault: vtree.I(3)}
	x.s.Types = append(x.s.Types, gtok, gnum)
	tok := func(n, d string) *spec.Attr {
		return &spec.Attr{Name: n, Type: &spec.Type{Kind: spec.Ref, Ref: gtok.Name}, Default: vtree.S(d), HasDef: true}
	}
	num := func(n string, d int64) *spec.Attr {
		return &spec.Attr{Name: n, Type: &spec.Type{Kind: spec.Ref, Ref: gnum.Name}, Default: vtree.I(d), HasDef: true}
	}
	dflt := &spec.Method{Name: "dflt", NoSec: nosec,
		Payload: &spec.Attr{Type: &spec.Type{Kind: spec.Object, Attrs: []*spec.Attr{tok("pq", "attr-q"), num("pn", 8), tok("pb", "attr-b"), {Name: "note", Type: str()}}}},
		Result:  &spec.Attr{Type: &spec.Type{Kind: spec.Object, Attrs: []*spec.Attr{tok("hb", "attr-h"), num("nb", 8), tok("bb", "attr-bb"), {Name: "note", Type: str()}}}},
		HTTP: &spec.HTTP{Routes: []spec.Route{{Verb: "POST", Path: "/dflt"}},
			Query:     []spec.Loc{{Attr: "pq"}, {Attr: "pn"}},
			Responses: []*spec.HTTPResponse{{Status: 200, Headers: []spec.Loc{{Attr: "hb", Wire: "X-G-Hb"}}}}}}
	// a change that breaks the whole-body methods at compile time must not hide the others: one variant per design
	methods := []*spec.Method{jar, blob, sizes, sheet, dflt}
	if gr.Chance(1, 2) {
		methods = []*spec.Method{jar, grid, cells, plain, blob, sizes, dflt}
	}
	x.s.Services = append(x.s.Services, &spec.Service{Name: "gadgets", BasePath: "/gadgets", Methods: methods})
	x.s.AddFeature("gadget-service", "response-cookies-several", "tagged-response-explicit-body", "result-collection-of-collections-of-usertype",
		"payload-collection-of-collections-of-usertype", "response-text-bytes", "param-array-default")
}

// genSecurityGadgetService adds (openapi and security runtime profiles, derived PRNG stream) a service with two
// schemes of its own and two methods: the first requires the JWT alone, the second the JWT AND an API key in one
// requirement — a scheme the documents have already met at the same location, followed by one they have not.
func (x *g) genSecurityGadgetService() {
	if x.o.Profile != "openapi" && x.o.Profile != "security" {
		return
	}
	gr := x.r.Derive(0x5ec6ad)
	if !gr.Chance(1, 2) {
		return
	}
	for _, sv := range x.s.Services {
		if sv.Name == "secgadgets" {
			return
		}
	}
	x.s.Schemes = append(x.s.Schemes,
		&spec.Scheme{Name: "gjwt", Kind: "jwt", Scopes: []string{"g:read", "g:write"}},
		&spec.Scheme{Name: "gkey", Kind: "apikey"},
		&spec.Scheme{Name: "gkey2", Kind: "apikey"},
		&spec.Scheme{Name: "gkey3", Kind: "apikey"},
		&spec.Scheme{Name: "goauth", Kind: "oauth2"}) // flows without any scope
	str := func() *spec.Type { return &spec.Type{Kind: spec.String} }
	list := &spec.Method{Name: "list",
		Security: []*spec.Requirement{{Schemes: []string{"gjwt"}, Scopes: []string{"g:read"}}},
		Payload: &spec.Attr{Type: &spec.Type{Kind: spec.Object, Attrs: []*spec.Attr{
			{Name: "token", Type: str(), Sec: "token"}, {Name: "note", Type: str()}}, Required: []string{"token"}}},
		Result: &spec.Attr{Type: str()},
		HTTP:   &spec.HTTP{Routes: []spec.Route{{Verb: "POST", Path: "/list"}}}}
	create := &spec.Method{Name: "create",
		Security: []*spec.Requirement{{Schemes: []string{"gjwt", "gkey"}, Scopes: []string{"g:write"}}},
		Payload: &spec.Attr{Type: &spec.Type{Kind: spec.Object, Attrs: []*spec.Attr{
			{Name: "token", Type: str(), Sec: "token"}, {Name: "key_gkey", Type: str(), Sec: "apikey:gkey"}, {Name: "note", Type: str()}},
			Required: []string{"token", "key_gkey"}}},
		Result: &spec.Attr{Type: str()},
		HTTP: &spec.HTTP{Routes: []spec.Route{{Verb: "POST", Path: "/create"}},
			Headers: []spec.Loc{{Attr: "key_gkey", Wire: "X-G-Key"}}}}
	// two schemes of the SAME kind in one requirement: both callbacks must accept (schemes of their own: gkey must
	// stay a scheme that the documents meet only AFTER gjwt, in create)
	pair := &spec.Method{Name: "pair",
		Security: []*spec.Requirement{{Schemes: []string{"gkey3", "gkey2"}}},
		Payload: &spec.Attr{Type: &spec.Type{Kind: spec.Object, Attrs: []*spec.Attr{
			{Name: "key_gkey3", Type: str(), Sec: "apikey:gkey3"}, {Name: "key_gkey2", Type: str(), Sec: "apikey:gkey2"}, {Name: "note", Type: str()}},
			Required: []string{"key_gkey3", "key_gkey2"}}},
		Result: &spec.Attr{Type: str()},
		HTTP: &spec.HTTP{Routes: []spec.Route{{Verb: "POST", Path: "/pair"}},
			Headers: []spec.Loc{{Attr: "key_gkey3", Wire: "X-G-Key3"}}, Query: []spec.Loc{{Attr: "key_gkey2", Wire: "k2"}}}}
	// an OAuth2 scheme that declares no scope
	flow := &spec.Method{Name: "flow",
		Security: []*spec.Requirement{{Schemes: []string{"goauth"}}},
		Payload: &spec.Attr{Type: &spec.Type{Kind: spec.Object, Attrs: []*spec.Attr{
			{Name: "access", Type: str(), Sec: "accesstoken"}, {Name: "note", Type: str()}}, Required: []string{"access"}}},
		Result: &spec.Attr{Type: str()},
		HTTP:   &spec.HTTP{Routes: []spec.Route{{Verb: "POST", Path: "/flow"}}}}
	x.s.Services = append(x.s.Services, &spec.Service{Name: "secgadgets", BasePath: "/secgadgets", Methods: []*spec.Method{list, create, pair, flow}})
	// a requirement declared on the SERVICE and inherited by two methods that carry the credential in different
	// places (the Authorization header, then the query string): each endpoint must look where ITS mapping says
	tokPayload := func() *spec.Attr {
		return &spec.Attr{Type: &spec.Type{Kind: spec.Object, Attrs: []*spec.Attr{
			{Name: "token", Type: str(), Sec: "token"}, {Name: "note", Type: str()}}, Required: []string{"token"}}}
	}
	viahdr := &spec.Method{Name: "viahdr", Payload: tokPayload(), Result: &spec.Attr{Type: str()},
		HTTP: &spec.HTTP{Routes: []spec.Route{{Verb: "POST", Path: "/viahdr"}}}}
	viaquery := &spec.Method{Name: "viaquery", Payload: tokPayload(), Result: &spec.Attr{Type: str()},
		HTTP: &spec.HTTP{Routes: []spec.Route{{Verb: "POST", Path: "/viaquery"}}, Query: []spec.Loc{{Attr: "token", Wire: "t"}}}}
	viahdr2 := &spec.Method{Name: "viahdr2", Payload: tokPayload(), Result: &spec.Attr{Type: str()},
		HTTP: &spec.HTTP{Routes: []spec.Route{{Verb: "POST", Path: "/viahdr2"}}, Headers: []spec.Loc{{Attr: "token", Wire: "X-G-Token"}}}}
	if len(x.s.API.Security) > 0 {
		// (a design with API-level requirements keeps the services it had: a change that confuses the two levels must
		// meet payloads written for the level that really applies, not crash on this one)
		return
	}
	x.s.Services = append(x.s.Services, &spec.Service{Name: "secinherit", BasePath: "/secinherit",
		Security: []*spec.Requirement{{Schemes: []string{"gjwt"}, Scopes: []string{"g:read"}}},
		Methods:  []*spec.Method{viahdr, viaquery, viahdr2}})
	x.s.AddFeature("service-security", "inherited-requirement-credential-in-different-places", "token-query")
	x.s.AddFeature("security-gadget-service", "requirement-seen-scheme-then-new-scheme", "scheme-jwt", "scheme-apikey", "scheme-oauth2", "oauth2-without-scopes", "method-security")
}

// genServerGadget gives a share of the generation-only designs (C01, C09: never the runtime profiles, whose drivers
// do not use the example mains) explicit Server declarations: the services listed in ANOTHER order than they are
// declared in, a second server listing a subset, and — for half of them — two extra services that each own a
// MultipartRequest endpoint, so that the per-server plumbing of the example mains (one encoder / decoder function
// per multipart endpoint, passed positionally) is exercised with an order that differs from the declaration order.
func (x *g) genServerGadget() {
	gr := x.r.Derive(0x5e7fe7)
	if !gr.Chance(1, 3) {
		return
	}
	str := func() *spec.Type { return &spec.Type{Kind: spec.String} }
	if gr.Chance(1, 2) {
		nosec := len(x.s.API.Security) > 0
		for _, n := range []string{"mpfirst", "mpsecond"} {
			dup := false
			for _, sv := range x.s.Services {
				if sv.Name == n {
					dup = true
				}
			}
			if dup {
				continue
			}
			m := &spec.Method{Name: "upload", NoSec: nosec,
				Payload: &spec.Attr{Type: &spec.Type{Kind: spec.Object, Attrs: []*spec.Attr{{Name: "title", Type: str()}, {Name: "part", Type: &spec.Type{Kind: spec.Bytes}}}, Required: []string{"title"}}},
				Result:  &spec.Attr{Type: str()},
				HTTP:    &spec.HTTP{Routes: []spec.Route{{Verb: "POST", Path: "/upload"}}, Multipart: true}}
			x.s.Services = append(x.s.Services, &spec.Service{Name: n, BasePath: "/" + n, Methods: []*spec.Method{m}})
		}
		x.s.AddFeature("multipart-request", "server-gadget-multipart-services")
	}
	var names []string
	grpc := false
	for _, sv := range x.s.Services {
		names = append(names, sv.Name)
		grpc = grpc || sv.GRPC
	}
	// reversed declaration order: differs from it as soon as there are two services
	rev := make([]string, len(names))
	for i, n := range names {
		rev[len(names)-1-i] = n
	}
	uris := []string{"http://localhost:8000"}
	if grpc {
		uris = append(uris, "grpc://localhost:8080")
	}
	x.s.API.Servers = append(x.s.API.Servers, &spec.Server{Name: "front", Services: rev, Hosts: []spec.Host{{Name: "dev", URIs: uris}}})
	x.s.AddFeature("server-declared")
	if len(names) > 1 {
		x.s.AddFeature("server-services-reordered")
	}
	if len(names) > 1 && gr.Chance(1, 2) {
		// a second server for the last declared service alone
		last := names[len(names)-1]
		u2 := []string{"http://localhost:8100"}
		for _, sv := range x.s.Services {
			if sv.Name == last && sv.GRPC {
				u2 = append(u2, "grpc://localhost:8180")
			}
		}
		x.s.API.Servers = append(x.s.API.Servers, &spec.Server{Name: "side", Services: []string{last}, Hosts: []spec.Host{{Name: "dev", URIs: u2}}})
		x.s.AddFeature("server-second")
	}
}

// genPathOrderGadget gives a share of the generation-only designs a method whose payload travels in the request path
// as three parameters of different kinds (an array of Int32, a Boolean, an array of Float32), one of which the design
// also declares with Param(...), so that the declaration order differs from the order of the route: whatever walks the path parameters must
// agree on one order, or the generated path builder formats a value with another parameter's conversion.
func (x *g) genPathOrderGadget() {
	gr := x.r.Derive(0x9a7401d)
	if !gr.Chance(1, 3) {
		return
	}
	for _, sv := range x.s.Services {
		if sv.Name == "pathorder" {
			return
		}
	}
	arrOf := func(k string) *spec.Type {
		return &spec.Type{Kind: spec.Array, Elem: &spec.Attr{Type: &spec.Type{Kind: k}}}
	}
	m := &spec.Method{Name: "lookup", NoSec: len(x.s.API.Security) > 0,
		Payload: &spec.Attr{Type: &spec.Type{Kind: spec.Object, Attrs: []*spec.Attr{
			{Name: "ids", Type: arrOf(spec.Int32)}, {Name: "label", Type: &spec.Type{Kind: spec.Boolean}}, {Name: "ratios", Type: arrOf(spec.Float32)}},
			Required: []string{"ids", "label", "ratios"}}},
		HTTP: &spec.HTTP{Routes: []spec.Route{{Verb: "GET", Path: "/{ids}/{label}/{ratios}"}},
			Path:               []spec.Loc{{Attr: "ids"}, {Attr: "label"}, {Attr: "ratios"}},
			ExplicitPathParams: []string{"label"}}}
	// two more methods of the same service send a plain collection and a collection of collections of ONE user type:
	// the constructors of the two request bodies must not share a name
	it := &spec.UserType{Name: x.typeName("POItem"), Kind: "type", Def: &spec.Type{Kind: spec.Object,
		Attrs: []*spec.Attr{{Name: "name", Type: &spec.Type{Kind: spec.String}}, {Name: "qty", Type: &spec.Type{Kind: spec.Int}}}, Required: []string{"name"}}}
	x.s.Types = append(x.s.Types, it)
	ref := func() *spec.Attr { return &spec.Attr{Type: &spec.Type{Kind: spec.Ref, Ref: it.Name}} }
	arr := func(e *spec.Attr) *spec.Attr { return &spec.Attr{Type: &spec.Type{Kind: spec.Array, Elem: e}} }
	plain := &spec.Method{Name: "plain", NoSec: m.NoSec, Payload: arr(ref()),
		HTTP: &spec.HTTP{Routes: []spec.Route{{Verb: "PATCH", Path: "/plain"}}}}
	nested := &spec.Method{Name: "nested", NoSec: m.NoSec, Payload: arr(arr(ref())),
		HTTP: &spec.HTTP{Routes: []spec.Route{{Verb: "PUT", Path: "/nested"}}}}
	x.s.Services = append(x.s.Services, &spec.Service{Name: "pathorder", BasePath: "/pathorder", Methods: []*spec.Method{m, plain, nested}})
	x.s.AddFeature("payload-collection-and-collection-of-collections-of-one-type")
	x.s.AddFeature("path-param", "path-array", "path-params-declared-in-another-order")
}

// genDocOnlyGadgetService adds (Opts.DocOnlyGadgets, openapi profile, every twelfth design) a
// service with one method whose payload is a primitive carried by a request header: the generated client of such
// a method does not compile (listed C01 finding), the documents are judged all the same — the header is required,
// whatever the (absent) required list of the payload says.
func (x *g) genDocOnlyGadgetService() {
	if !x.o.DocOnlyGadgets || x.o.Profile != "openapi" {
		return
	}
	// by design number, not by chance: every twelfth design (an openapi-profile slot of the profile cycle of C07)
	n := 0
	for _, ch := range x.s.ID {
		if ch < '0' || ch > '9' {
			return
		}
		n = n*10 + int(ch-'0')
	}
	if n%12 != 0 {
		return
	}
	for _, sv := range x.s.Services {
		if sv.Name == "rawhdr" {
			return
		}
	}
	m := &spec.Method{Name: "probe", NoSec: len(x.s.API.Security) > 0,
		Payload: &spec.Attr{Type: &spec.Type{Kind: spec.String}},
		Result:  &spec.Attr{Type: &spec.Type{Kind: spec.String}},
		HTTP:    &spec.HTTP{Routes: []spec.Route{{Verb: "GET", Path: "/probe"}}, Headers: []spec.Loc{{Attr: "", Wire: "X-G-Raw"}}}}
	x.s.Services = append(x.s.Services, &spec.Service{Name: "rawhdr", BasePath: "/rawhdr", Methods: []*spec.Method{m}})
	x.s.AddFeature("payload-primitive-header", "doc-only-gadget-service")
}
