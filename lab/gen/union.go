package gen

import (
	"fmt"
	"strings"

	"verif.local/lab/spec"
)

// OneOf (union) attributes for the runtime profiles (Opts.Unions).
//
// goa's own restrictions decide where a union may sit (expr/attribute.go): an inline object BELOW the top
// level of a payload/result may not define a OneOf ("define the object with Type instead"), the members
// may not be arrays or maps, and a user type member gets its union marker method in the service package.
// The lab therefore places unions at the top level of an inline payload / result object and inside named
// user types (which the payloads and results then refer to, directly or through an array), with 2-3 members
// drawn from the primitives and from dedicated named object types. Every OneOf attribute of a design has a
// name of its own (goa names the Go types of primitive members after the attribute and the member only), and
// a user type is a member of one union only.
//
// Every decision below is drawn from a PRNG stream derived from the design's seed (g.ur), never from g.r:
// a design that is not chosen to carry unions is exactly what it was before unions existed; a chosen one
// differs from its former self only through the attributes added here (genHTTP draws once per attribute).

var unionWords = []string{"choice", "variant", "either", "selector", "shape_of", "kind_of", "option", "content"}
var unionAltWords = []string{"as_text", "count", "flag", "ratio", "code", "label", "amount", "note", "big_id", "small"}

// unionPlan decides, once per design, whether it carries unions.
func (x *g) unionPlan() {
	x.ur = x.r.Derive(0x0e0f)
	if !x.o.Unions {
		return
	}
	num := 1 // of 4
	if x.o.Profile == "validation" {
		num = 2 // C04's matter: validations inside the selected alternative
	}
	x.unions = x.ur.Chance(num, 4)
}

// withUnionRand runs f with the union stream in place of the design's main stream (the helpers of the
// generator all draw from x.r).
func (x *g) withUnionRand(f func()) {
	old := x.r
	x.r = x.ur
	defer func() { x.r = old }()
	f()
}

// unionName returns a OneOf attribute name unused in the design and in the object it goes to.
func (x *g) unionName(used map[string]bool) string {
	for i := 0; i < 50; i++ {
		n := unionWords[x.r.Intn(len(unionWords))]
		if i >= 8 {
			n = fmt.Sprintf("%s%d", n, i)
		}
		k := spec.Norm(n)
		if x.unionNames[k] || used[k] {
			continue
		}
		if x.unionNames == nil {
			x.unionNames = map[string]bool{}
		}
		x.unionNames[k] = true
		used[k] = true
		return n
	}
	x.seq++
	return fmt.Sprintf("oneof%d", x.seq)
}

// genUnionMemberType adds a small named object type used as the member of one union: snake_case attribute
// names (so that the design's names differ from the Go field names), validations, one required attribute.
func (x *g) genUnionMemberType() *spec.UserType {
	ut := &spec.UserType{Name: x.typeName(x.r.Pick("Circle", "Square", "Segment", "Marker")), Kind: "type", Def: &spec.Type{Kind: spec.Object}}
	used := map[string]bool{}
	names := []string{"center_x", "side_len", "line_width", "tag_name", "is_filled", "item_count"}
	kinds := []string{spec.Int, spec.Float64, spec.UInt32, spec.String, spec.Boolean, spec.Int64}
	perm := x.r.Perm(len(names))
	n := x.r.Range(1, 3)
	for i := 0; i < n; i++ {
		a := &spec.Attr{Name: names[perm[i]], Type: &spec.Type{Kind: kinds[perm[i]]}}
		used[spec.Norm(a.Name)] = true
		if a.Type.Kind != spec.Boolean && x.chance(2, 3) {
			if v := x.genVal(a.Type.Kind, nil); !v.Empty() {
				a.Val = v
			}
		}
		ut.Def.Attrs = append(ut.Def.Attrs, a)
		if i == 0 || x.chance(1, 3) {
			ut.Def.Required = append(ut.Def.Required, a.Name)
		}
	}
	x.s.Types = append(x.s.Types, ut)
	x.unionMember[ut.Name] = true
	return ut
}

// genUnion draws a OneOf attribute.
func (x *g) genUnion(used map[string]bool) *spec.Attr {
	u := &spec.Type{Kind: spec.Union}
	a := &spec.Attr{Name: x.unionName(used), Type: u}
	n := x.r.Range(2, 3)
	altUsed := map[string]bool{}
	prims := []string{spec.String, spec.Int, spec.Boolean, spec.Float64, spec.Int64, spec.UInt32, spec.String, spec.Int32, spec.UInt64, spec.Float32}
	sameKind := x.chance(1, 3) // two members of one Go kind: only the Type name tells them apart
	var first string
	for i := 0; i < n; i++ {
		alt := &spec.Attr{}
		for {
			alt.Name = unionAltWords[x.r.Intn(len(unionAltWords))]
			if !altUsed[alt.Name] {
				altUsed[alt.Name] = true
				break
			}
		}
		switch {
		case i == n-1 && x.chance(1, 2):
			mt := x.genUnionMemberType()
			alt.Type = &spec.Type{Kind: spec.Ref, Ref: mt.Name}
			x.s.AddFeature("union-usertype-member")
		default:
			k := prims[x.r.Intn(len(prims))]
			if i == 1 && sameKind && first != "" {
				k = first
				x.s.AddFeature("union-same-kind-members")
			}
			if i == 0 {
				first = k
			}
			alt.Type = &spec.Type{Kind: k}
			vp := 2
			if x.o.Profile == "validation" {
				vp = 3
			}
			if k != spec.Boolean && x.chance(vp, 4) {
				if v := x.genVal(k, nil); !v.Empty() {
					alt.Val = v
					x.s.AddFeature("union-member-validation")
				}
			}
		}
		u.Attrs = append(u.Attrs, alt)
	}
	x.s.AddFeature("union")
	return a
}

func usedNames(t *spec.Type) map[string]bool {
	used := map[string]bool{}
	for _, a := range t.Attrs {
		used[spec.Norm(a.Name)] = true
	}
	return used
}

// genUnionTypes runs after the user types were drawn: one named user type of the design (an existing plain
// one, else a new one) receives a OneOf attribute and becomes the design's "union holder".
func (x *g) genUnionTypes() {
	if !x.unions {
		return
	}
	x.withUnionRand(func() {
		x.unionMember = map[string]bool{}
		based := map[string]bool{}
		for _, t := range x.s.Types {
			based[t.Extend], based[t.Reference] = true, true
		}
		var cands []*spec.UserType
		for _, t := range x.s.Types {
			if t.Kind == "type" && t.Def != nil && t.Def.Kind == spec.Object && !t.ErrorOnly && t.Extend == "" && t.Reference == "" && !based[t.Name] &&
				!strings.HasPrefix(t.Name, "Solo") && !strings.HasPrefix(t.Name, "Wrap") && !strings.HasPrefix(t.Name, "Edges") {
				cands = append(cands, t)
			}
		}
		var holder *spec.UserType
		if len(cands) > 0 && x.chance(2, 3) {
			holder = cands[x.r.Intn(len(cands))]
		} else {
			holder = &spec.UserType{Name: x.typeName("Holder"), Kind: "type", Def: &spec.Type{Kind: spec.Object}}
			holder.Def.Attrs = []*spec.Attr{{Name: "caption", Type: &spec.Type{Kind: spec.String}}}
			x.s.Types = append(x.s.Types, holder)
		}
		ua := x.genUnion(usedNames(holder.Def))
		holder.Def.Attrs = append(holder.Def.Attrs, ua)
		if x.chance(1, 2) {
			holder.Def.Required = append(holder.Def.Required, ua.Name)
			x.s.AddFeature("union-required")
		}
		x.unionHolder = holder.Name
		x.s.AddFeature("union-in-usertype")
	})
}

// unionInto adds a union to the inline object payload (what == "payload") or result of a plain method:
// a OneOf attribute of its own, an attribute typed by the union holder, or an array of holders.
func (x *g) unionInto(m *spec.Method, what string) {
	if !x.unions || m.Stream != "" {
		return
	}
	at := m.Payload
	if what == "result" {
		at = m.Result
	}
	if at == nil || at.Type.Kind != spec.Object {
		return
	}
	x.withUnionRand(func() {
		// the first eligible object of the design always gets one; later ones two times out of three
		if x.unionPlaced[what] && !x.chance(2, 3) {
			return
		}
		if x.unionPlaced == nil {
			x.unionPlaced = map[string]bool{}
		}
		x.unionPlaced[what] = true
		t := at.Type
		used := usedNames(t)
		switch c := x.r.Intn(5); {
		case c <= 1 || x.unionHolder == "":
			ua := x.genUnion(used)
			t.Attrs = append(t.Attrs, ua)
			if x.chance(1, 2) {
				t.Required = append(t.Required, ua.Name)
				x.s.AddFeature("union-required")
			}
			x.s.AddFeature("union-toplevel-" + what)
		case c <= 3:
			n := "held"
			for used[spec.Norm(n)] {
				n += "x"
			}
			t.Attrs = append(t.Attrs, &spec.Attr{Name: n, Type: &spec.Type{Kind: spec.Ref, Ref: x.unionHolder}})
			if x.chance(1, 3) {
				t.Required = append(t.Required, n)
			}
			x.s.AddFeature("union-holder-in-" + what)
		default:
			n := "held_list"
			for used[spec.Norm(n)] {
				n += "x"
			}
			t.Attrs = append(t.Attrs, &spec.Attr{Name: n, Type: &spec.Type{Kind: spec.Array, Elem: &spec.Attr{Type: &spec.Type{Kind: spec.Ref, Ref: x.unionHolder}}}})
			x.s.AddFeature("union-holder-in-"+what, "union-holder-array")
		}
		x.s.AddFeature("union-in-" + what)
	})
}
