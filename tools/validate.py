#!/usr/bin/env python3-vt
import json,sys,glob,jsonschema
ms=json.load(open('/root/.vp/MANIFEST.schema.json')); es=json.load(open('/root/.vp/EVIDENCE.schema.json'))
m=json.load(open('/verif/MANIFEST.json')); jsonschema.validate(m,ms)
props=[json.loads(l)['id'] for l in open('/verif/properties.jsonl')]
claimed=[c['property_id'] for c in m['checks']]; na=[n['property_id'] for n in m.get('not_applicable',[])]
missing=[p for p in props if p not in claimed and p not in na]
print('manifest valid; claimed',len(claimed),'na',len(na),'unlisted',missing)
for f in sorted(glob.glob('/verif/evidence/*.json')):
    try:
        jsonschema.validate(json.load(open(f)),es); print('ok',f)
    except Exception as e:
        print('INVALID',f,str(e)[:300]); sys.exit(1)
