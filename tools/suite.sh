#!/bin/bash
# tools/suite.sh [repo]: run goa's own suite (hooks off) and compare with /root/.vp/BASELINE.json
export GOFLAGS=-mod=mod GOPROXY=off GOSUMDB=off GOTOOLCHAIN=local
R="${1:-/repo}"; cd "$R" || exit 2
go test -json -vet=off -count=1 -timeout 25m ./... 2>/dev/null > /var/tmp/suite.$$.json
python3 - /var/tmp/suite.$$.json <<'PY'
import json,sys,ast
res={}
for l in open(sys.argv[1]):
    try: e=json.loads(l)
    except: continue
    if e.get('Action') in('pass','fail') and e.get('Test'): res[e['Package']+'::'+e['Test']]=e['Action']
b=json.load(open('/root/.vp/BASELINE.json')); sp=b['stable_pass'] if isinstance(b['stable_pass'],list) else ast.literal_eval(b['stable_pass'])
missing=[t for t in sp if res.get(t)!='pass']
print('pass',len([1 for v in res.values() if v=='pass']),'baseline',len(sp),'missing',len(missing),missing[:5])
PY
rm -f /var/tmp/suite.$$.json
