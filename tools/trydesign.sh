#!/bin/bash
# tools/trydesign.sh <design.go> [repo]: run the real goa CLI (gen + example) over one design file in a scratch
# module and compile the output (gen/ only needs no protoc when the design has no gRPC). Prints the first errors.
export GOFLAGS=-mod=mod GOPROXY=off GOSUMDB=off GOTOOLCHAIN=local
REPO="${2:-/repo}"; D=/var/tmp/try.$$; mkdir -p $D/design; trap "rm -rf $D" EXIT
cp "$1" $D/design/design.go
cat > $D/go.mod <<M
module try
go 1.23.0
require (
	goa.design/goa/v3 v3.0.0
	goa.design/clue v0.0.0
)
replace goa.design/goa/v3 => $REPO
replace goa.design/clue => /verif/standins/clue
M
cp $REPO/go.sum $D/go.sum
(cd $REPO && go build -o $D/goa ./cmd/goa) || exit 2
cd $D
echo "== goa gen"; ./goa gen try/design 2>&1 | tail -${TAIL:-15}
echo "== goa example"; ./goa example try/design 2>&1 | tail -5
cp -r . /var/tmp/d1/out 2>/dev/null; echo "== go build"; go build ./... 2>&1 | head -${TAIL:-15}
