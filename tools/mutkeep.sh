#!/bin/bash
# tools/mutkeep.sh <worktree> <id> "<caught-by text>": keep a confirmed seeded change under /verif/seeded/<id>/ and remove the worktree
WT="$1"; ID="$2"; CAUGHT="$3"
D=/verif/seeded/$ID; mkdir -p $D
cp $WT/OUT/patch.diff $D/patch.diff
rm -rf $D/demo; cp -r $WT/OUT/demo $D/demo; rm -f $D/demo/*.log; find $D/demo -name '*.bin' -delete; find $D/demo -type f -size +400k -delete
python3 - "$WT" "$D" "$CAUGHT" <<'PY'
import json,sys
wt,d,caught=sys.argv[1:4]
try: meta=json.load(open(wt+'/OUT/meta.json'))
except Exception as e: meta={"error":str(e)}
try: meta['confirmed_by_lead']=json.load(open(wt+'/OUT/confirm.json'))
except Exception: pass
meta['what_was_run']="tools/mutcheck.sh: go build ./...; OUT/demo/run.sh with the change (must fail) and with the change stashed (must pass); full suite compared with BASELINE.json; then the registered checks with VERIF_REPO=<worktree>"
meta['caught_by']=caught
meta['demo_paths_note']="the demonstration was written for the scratch worktree "+wt+"; paths inside run.sh refer to it"
json.dump(meta,open(d+'/meta.json','w'),indent=1)
PY
git -C /repo worktree remove --force $WT && echo "kept $D, removed $WT"
