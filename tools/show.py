#!/usr/bin/env python3
"""tools/show.py <key-prefix> [n]: print the witnesses of replay files whose key starts with the prefix."""
import json, glob, sys, re, base64
pref = sys.argv[1]; n = int(sys.argv[2]) if len(sys.argv) > 2 else 1
shown = 0
for f in sorted(glob.glob(__import__('os').environ.get('REPLAYS','/verif/replays')+'/*.json')):
    d = json.load(open(f)); k = d['key']
    if not k.startswith(pref): continue
    w = d['witness']; print('=======', k, f); print('WHAT', d['what'][:600])
    ex = w.get('exchange')
    if ex:
        if ex.get('panic'):
            st = ex['panic']; i = st.find('panic('); print(st[i:i+900])
        c = ex['case']
        print('CASE class=%s note=%s' % (c.get('class'), c.get('note')))
        print('SENT', json.dumps(c.get('sent'))[:700])
        print('OUTCOME', json.dumps(c.get('outcome'))[:700])
        if c.get('raw'): print('RAW', c['raw']['method'], c['raw']['url'], c['raw'].get('header'), base64.b64decode(c['raw'].get('body') or '').decode(errors='replace')[:300])
        if ex.get('wire_req'): print('REQ', ex['wire_req']['method'], ex['wire_req']['url'], ex['wire_req']['header'], base64.b64decode(ex['wire_req'].get('body') or '').decode(errors='replace')[:400])
        if ex.get('stub_in'): print('STUB', json.dumps(ex['stub_in']['payload'])[:500])
        if ex.get('wire_resp'): print('RESP', ex['wire_resp']['status'], ex['wire_resp']['header'], base64.b64decode(ex['wire_resp'].get('body') or '').decode(errors='replace')[:500])
        if ex.get('client_out'): print('CLIENT', json.dumps(ex['client_out'])[:600])
        if ex.get('auth'): print('AUTH', ex['auth'])
        m = re.search(r'Method\("%s".*?\n\t\t\}\)\n' % re.escape(c['method']), w['dsl'], re.S)
        if m: print(m.group(0)[:2500])
        if '--types' in sys.argv:
            i = w['dsl'].find('API('); j = w['dsl'].find('Service('); print(w['dsl'][i:j][:4000])
    else:
        print(json.dumps(w)[:3000])
    shown += 1
    if shown >= n: break
