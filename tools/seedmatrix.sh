#!/bin/bash
# tools/seedmatrix.sh [seeds] [ids...]: every kept seeded change (seeded/<id>/patch.diff) applied to a scratch
# worktree of /repo at HEAD, the quick tier of its property run against it at several VERIF_SEED values.
# Prints one line per (id, seed): the number of violations reported (0 = missed at that seed).
# The worktree lives under /tmp and is removed at the end; /repo itself is never touched.
export GOFLAGS=-mod=mod GOPROXY=off GOSUMDB=off GOTOOLCHAIN=local
HERE="$(cd "$(dirname "$0")/.." && pwd)"
SEEDS="${1:-1,2,3}"; shift
IDS="$@"
[ -z "$IDS" ] && IDS=$(ls "$HERE/seeded")
WT=/tmp/wt-seedmatrix-$$
git -C /repo worktree add --detach "$WT" HEAD >/dev/null 2>&1 || exit 2
trap 'git -C /repo worktree remove --force "$WT" >/dev/null 2>&1' EXIT
for id in $IDS; do
  P="$HERE/seeded/$id/patch.diff"
  [ -f "$P" ] || continue
  git -C "$WT" reset -q --hard HEAD; git -C "$WT" clean -fdq
  if ! git -C "$WT" apply "$P" 2>/dev/null; then
    # the code around the change moved since it was written: try a three-way merge, give up on a conflict
    if ! git -C "$WT" apply --3way "$P" >/dev/null 2>&1 || [ -n "$(git -C "$WT" diff --name-only --diff-filter=U)" ]; then
      git -C "$WT" reset -q --hard HEAD
      echo "$id patch-does-not-apply-to-HEAD"; continue
    fi
  fi
  if ! (cd "$WT" && go build ./... >/dev/null 2>&1); then echo "$id does-not-build-on-HEAD"; continue; fi
  # the checks named in the record of the change (caught_by), the property's own check first
  CS=$(python3 - "$HERE/seeded/$id/meta.json" "${id:0:3}" <<'PY'
import json,re,sys
m=json.load(open(sys.argv[1])); own=sys.argv[2]
cs=[own]+[c for c in re.findall(r'C\d\d', m.get('caught_by','')) if c!=own]
seen=[]
for c in cs:
    if c not in seen: seen.append(c)
print(' '.join(seen))
PY
)
  for s in ${SEEDS//,/ }; do
    line="$id seed=$s"
    for C in $CS; do
      out=$(cd "$HERE" && VERIF_REPO="$WT" VERIF_SEED=$s ./check $C --tier quick 2>&1 | grep "^SUMMARY" | tail -1)
      v=$(echo "$out" | sed -n 's/.*violations=\([0-9]*\).*/\1/p')
      line="$line $C=${v:-?}"
    done
    echo "$line"
  done
done
