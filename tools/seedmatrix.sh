#!/bin/bash
# tools/seedmatrix.sh [seeds] [ids...]: every kept seeded change (seeded/<id>/patch.diff) applied to a scratch
# worktree of /repo at HEAD, the quick tier of its property run against it at several VERIF_SEED values.
# Prints one line per (id, seed): the number of violations reported (0 = missed at that seed).
# The worktree lives under /tmp and is removed at the end; /repo itself is never touched.
export GOFLAGS=-mod=mod GOPROXY=off GOSUMDB=off GOTOOLCHAIN=local
HERE="$(cd "$(dirname "$0")/.." && pwd)"
SEEDS="${1:-1,2,3}"; shift
IDS="$@"
[ -z "$IDS" ] && IDS=$(ls "$HERE/seeded")
WT=/tmp/wt-seedmatrix-$$
git -C /repo worktree add --detach "$WT" HEAD >/dev/null 2>&1 || exit 2
trap 'git -C /repo worktree remove --force "$WT" >/dev/null 2>&1' EXIT
for id in $IDS; do
  P="$HERE/seeded/$id/patch.diff"
  [ -f "$P" ] || continue
  git -C "$WT" checkout -q -- . ; git -C "$WT" clean -fdq
  if ! git -C "$WT" apply "$P" 2>/dev/null; then
    if ! git -C "$WT" apply --3way "$P" >/dev/null 2>&1; then echo "$id patch-does-not-apply"; continue; fi
  fi
  C=${id:0:3}
  for s in ${SEEDS//,/ }; do
    out=$(cd "$HERE" && VERIF_REPO="$WT" VERIF_SEED=$s ./check $C --tier quick 2>&1 | grep "^SUMMARY" | tail -1)
    v=$(echo "$out" | sed -n 's/.*violations=\([0-9]*\).*/\1/p')
    i=$(echo "$out" | sed -n 's/.*inconclusive=\([0-9]*\).*/\1/p')
    echo "$id seed=$s violations=${v:-?} inconclusive=${i:-?}"
  done
done
