#!/usr/bin/env python3
"""tools/mut_prompt.py <Cxx> <tag>: prints the prompt for a fresh mutation agent and creates its worktree."""
import json, sys, subprocess, os
pid, tag = sys.argv[1], sys.argv[2]
steer = sys.argv[3] if len(sys.argv) > 3 else ''
props = {json.loads(l)['id']: json.loads(l) for l in open('/verif/properties.jsonl')}
p = props[pid]
wt = f"/tmp/mut-{pid.lower()}{tag}"
if not os.path.exists(wt):
    subprocess.run(['git', '-C', '/repo', 'worktree', 'add', '-q', '--detach', wt, 'HEAD'], check=True)
print(f"""You are given a scratch git worktree of the Go project goadesign/goa (module goa.design/goa/v3, a design-first framework: a DSL evaluates into an expression model, then generators emit HTTP/gRPC server, client and OpenAPI code) at {wt}. The sandbox is OFFLINE: every shell call needs `export GOFLAGS=-mod=mod GOPROXY=off GOSUMDB=off GOTOOLCHAIN=local`. Work ONLY inside {wt} (never touch /repo, never read or write /verif). `protoc` is not installed, so the tests TestProtoFiles and TestMessageDefSection in grpc/codegen fail before and after any change: ignore them.

Here is a semantic property that the current code is supposed to satisfy:

TITLE: {p['title']}
STATEMENT: {p['statement']}
SCOPE (what it quantifies over): {p['quantifier']['text']}

Your task: make ONE small, realistic change to the goa source code (the kind of slip a maintainer could make in a refactor or a "performance" / "cleanup" patch; 1-15 changed lines, possibly at two cooperating sites that each look fine alone) that BREAKS this property while
  (a) the project still compiles (`go build ./...`),
  (b) the existing test suite still passes exactly as before (`go test -count=1 ./...` — apart from the two always-failing protoc tests), and
  (c) the breakage needs something SPECIFIC to manifest — a particular interleaving, a crash or fault at a particular point, a multi-step sequence of operations, an unusual input or design feature combination, or two sites cooperating — not something ordinary use would expose at once.
{('To keep independent attempts diverse, aim this attempt at: ' + steer + chr(10)) if steer else ''}Then write a DEMONSTRATION: a Go test or small program (it may generate code with goa's generators into a temp dir inside {wt} and compile/run it, or call library functions directly) that FAILS with your change and PASSES on the unchanged code. Keep the demonstration self-contained and deterministic if at all possible (if it is probabilistic, say with which probability and make it loop until it is reliable).

Deliver, in {wt}/OUT/ :
  - patch.diff : `git diff` of your change to goa (source files only, not the demonstration),
  - demo/ : the demonstration files plus a `run.sh` that exits 0 when the property holds and non-zero when it is violated, runnable from {wt} (run.sh may cd and go test/go run; the demo Go files may live inside the worktree's module, e.g. {wt}/OUT/demo is fine if you use the module goa.design/goa/v3 via a relative test package, or create a tiny module with `replace goa.design/goa/v3 => {wt}` and copy {wt}/go.sum),
  - meta.json : {{"property": "{pid}", "summary": "<what the change does>", "needs": "<what is needed for it to manifest>", "files": [...], "verified": {{"build": true/false, "suite_unchanged": true/false, "demo_fails_with_change": true/false, "demo_passes_without_change": true/false}}}}.
Verify all four facts yourself (to run the demo without the change use `git diff > /tmp/x.diff; git apply -R /tmp/x.diff; ...; git apply /tmp/x.diff` with a file name of your own, or a second copy; do NOT use `git stash`: the stash is shared with other worktrees of this repository). Leave the worktree WITH your change applied. Final message: 10 lines max summarising the change, what it needs to manifest, and the verification results.""")
