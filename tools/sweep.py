#!/usr/bin/env python3
"""tools/sweep.py <props comma> <seeds comma> [tier]: run checks at several seeds, aggregate violation keys."""
import sys, subprocess, json, os, collections
props = sys.argv[1].split(','); seeds = sys.argv[2].split(','); tier = sys.argv[3] if len(sys.argv) > 3 else 'quick'
agg = collections.defaultdict(lambda: collections.defaultdict(int)); what = {}
for p in props:
    for s in seeds:
        env = dict(os.environ, VERIF_SEED=s)
        r = subprocess.run(['/verif/check', p, '--tier', tier], capture_output=True, text=True, errors="replace", env=env)
        for l in r.stdout.splitlines():
            if l.startswith('VIOLATION'):
                k = l.split(' key=', 1)[1]
                # key ends where the 'what' text starts: keys have no spaces except E2 ones; use evidence instead
            if l.startswith('SUMMARY') or l.startswith('INCONCL'):
                print(p, 'seed', s, 'rc', r.returncode, l[:160], flush=True)
        try:
            ev = json.load(open(f'/verif/evidence/{p}.json'))
            for k in ev['coverage'].get('violation_keys', []):
                agg[p][k] += 1
        except Exception as e:
            print('no evidence', p, e)
for p in props:
    print('=====', p)
    for k, n in sorted(agg[p].items()):
        print(f'  {n:2d}  {k}')
json.dump({p: dict(v) for p, v in agg.items()}, open('/tmp/sweep.json', 'w'), indent=1)
