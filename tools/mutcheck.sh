#!/bin/bash
# tools/mutcheck.sh <worktree> <Cxx> [more checks...]: confirm a seeded change (OUT/patch.diff, OUT/demo/run.sh)
# and run the registered checks against it. Prints a summary; writes <worktree>/OUT/confirm.json.
export GOFLAGS=-mod=mod GOPROXY=off GOSUMDB=off GOTOOLCHAIN=local
WT="$1"; shift
cd "$WT" || exit 2
echo "== build with change"; go build ./... && B=true || B=false
echo "== demo with change (expect non-zero)"; (cd "$WT" && timeout 900 bash OUT/demo/run.sh >OUT/demo_with.log 2>&1); RC1=$?; echo "rc=$RC1"
echo "== suite with change"; go test -json -vet=off -count=1 -timeout 25m ./... 2>/dev/null > OUT/suite.json; PASS=$(python3 - <<'EOF'
import json
res={}
for l in open('OUT/suite.json'):
    try: e=json.loads(l)
    except: continue
    if e.get('Action') in('pass','fail') and e.get('Test'): res[e['Package']+'::'+e['Test']]=e['Action']
import ast
b=json.load(open('/root/.vp/BASELINE.json')); sp=b['stable_pass'] if isinstance(b['stable_pass'],list) else ast.literal_eval(b['stable_pass'])
missing=[t for t in sp if res.get(t)!='pass']
print(len([1 for v in res.values() if v=='pass']), len(missing), missing[:3])
EOF
); echo "pass/missing: $PASS"; rm -f OUT/suite.json
echo "== demo without change (expect 0)"; git diff -- . ':!OUT' > OUT/.cur.diff; git apply -R OUT/.cur.diff; (cd "$WT" && timeout 900 bash OUT/demo/run.sh >OUT/demo_without.log 2>&1); RC0=$?; git apply OUT/.cur.diff; rm -f OUT/.cur.diff; echo "rc=$RC0"
git diff --stat -- . ':!OUT' | tail -1
for C in "$@"; do
  echo "== /verif check $C against the change"
  (cd /verif && VERIF_REPO="$WT" ./check $C --tier quick 2>&1 | grep -v "^KNOWN" | grep "VIOLATION\|SUMMARY\|INCONCL" | sed 's/replay=[^ ]* //' | cut -c1-260 | sort -u | head -8)
done
echo "{\"build\": $B, \"demo_rc_with_change\": $RC1, \"demo_rc_without_change\": $RC0, \"suite\": \"$PASS\"}" > OUT/confirm.json
cat OUT/confirm.json
