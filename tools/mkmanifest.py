#!/usr/bin/env python3
"""Regenerates /verif/MANIFEST.json from the table below (single source for the registered checks)."""
import json, os, subprocess
ROOT = os.path.dirname(os.path.dirname(os.path.abspath(__file__)))
props = [json.loads(l) for l in open(os.path.join(ROOT, 'properties.jsonl'))]
E1 = "E1-design-lab"; E2 = "E2-library-monitors"; E3 = "E3-real-cli"
# id -> (engine, technique, level text, level note)
CHECKS = {
 "C09": (E3, "runtime monitoring of generator runs: sha256/size/mtime manifests of the output tree after every step of real tool invocations (K fresh generator processes with varied GOMAXPROCS, two generations in one process, and gen/example/edit histories through the REAL goa CLI built from /repo), compared file by file",
         "Specs rich in multi-key Meta are generated K times in fresh processes and twice in one process; gen,gen / gen,example,edit,example / example,gen / stray-file histories are run through the real cmd/goa binary over one directory; every difference in file list, bytes or mtime of a pre-existing example file is a violation keyed by file role.",
         "Identical command lines and output paths across runs (the header comment embeds them); designs goa cannot generate (C01) are skipped; two same-process regeneration differences are listed known findings."),
 "C10": (E2, "runtime monitoring of generator runs: generated gRPC designs (payload shapes x streaming kinds x metadata mappings x hostile names) run through the real goa generators in a fresh process each; the emitted .proto is parsed by the lab's own strict proto3 parser and compared with the spec (field numbers, uniqueness, one rpc per method with the designed streaming direction); the generated Go is compiled against stand-in *.pb.go files that follow protoc-gen-go's naming algorithm",
         "A fixed matrix plus PRNG-generated gRPC designs; every generated proto file is parsed and judged against the spec; every generated gRPC package is type-checked against the stand-in message API; generator panics/timeouts are violations keyed by stack. Runtime half: one driver process per compiling design runs the REAL generated client -> in-process loopback (pbrt, tap events req_md/req/resp/header/trailer/status) -> generated server -> recording stub; valid payloads/results over the boundary classes, every streamed message in order (client, server, bidi), boundary probes on both sides of every validation rule sent through the generated client AND as hand-built protobuf messages; offline oracle: tree received == tree sent (+defaults), metadata placement, stub never invoked on an invalid message.",
         "protoc/protoc-gen-go are absent: well-formedness is decided by the lab's proto3 parser and the Go API by stand-in pb.go files (an assumption, stated in the evidence). The loopback transcribes grpc-go's observable semantics (metadata rules, header/trailer delivery, status conversion) and normalises messages to what proto3 carries; designs hit by the open generation-time findings do not compile and are not driven; response headers/trailers cannot be driven on the pinned tree (finding D11); declared errors are counted, not judged (C05 owns them); the status code of a rejection (goa answers Unknown, not InvalidArgument) is counted, not judged."),
 "C11": (E2, "runtime monitoring: instrumented roots/expressions record every DSL/Prepare/Validate/Finalize callback of the real eval.RunDSL; phase-barrier automaton + reference topological order + error accounting over the recorded log",
         "Every digraph on <=4 labelled roots (cyclic ones included) x every registration order is run through the real eval engine (exhaustive for that sub-space), plus random 5-6 root cases with dynamic registration and error scripts; the callback log is judged by an independent automaton.",
         "Trusts the instrumented test roots; dependency targets never registered and ReportError from Prepare/Finalize are outside the envelope."),
 "C12": (E2, "runtime monitoring of DSL evaluation: generated DSL call sequences (every exported dsl function from a go/ast scan of /repo/dsl, misplaced/repeated/ill-typed arguments; 'wild' and grammar-guided 'tidy' programs) interpreted in child processes against the real dsl + eval.RunDSL, panics/stack overflows/timeouts classified from the child's output; dangling-reference mutants (34 classes) of valid base designs must be rejected with an error naming the dangling name",
         "Each program is a tree of real DSL calls executed by a child interpreter (one batch per child, program logged before it runs); outcome = accepted | errors (non-empty, located) | panic | fatal | timeout. Mutants replace one reference (attribute, scheme, view, error name, ...) of a valid lab design by a name that does not exist.",
         "Trusts the child interpreter and the go/ast function table; argument shapes outside the table's hints are not generated; a timeout (90 s wall, generous) is reported as nontermination only after a re-run in a fresh child reproduces it."),
 "C13": (E2, "runtime monitoring: generated type graphs (cycles, unions, tags, validations) run through the real expr.Dup/DupAtt/Hash/Equal; copy-mutation classes checked with an independent reflection snapshot walker; reference structural-equality oracle from the documented Hash rules; repeated calls and child-process canaries for termination",
         "All permutations of objects/unions with <=4 members x all flag combinations (exhaustive for that sub-space), random graphs to depth 5 with cycles, 24 copy-mutation classes, each hash repeated in-process; pairs with one known finite difference must hash differently.",
         "Differences on which the Hash doc comment is silent (union type names, user vs result type kind) are counted, not judged; folded vs unfolded presentations are not compared."),
 "C15": (E2, "runtime monitoring: grid workload (Accept x designed type x pre-set header x value) against the real encoders/decoders; oracle = stdlib format detection + round trip + literal fallback rules",
         "Samples (quick) or enumerates (thorough, exhaustive over the enumerated literals) the response grid and the request grid; every cell is executed against the real goahttp encoder/decoder pair and judged by an oracle that shares no code with goa.",
         "Trusts stdlib json/xml/gob and the monitor's own Content-Type tokenizer; value kinds limited to the enumerated literals."),
 "C16": (E2, "runtime monitoring: generated unambiguous pattern sets mounted on the real Muxer, requests over recorder and real sockets, handler/middleware-side recording of Vars/ResolvePattern, reference matcher + identity-on-values oracle, table-snapshot hook invariant",
         "Pattern sets unambiguous by construction are mounted on goahttp.NewMuxer(); URLs built by substituting escaped hostile values are sent through httptest recorder and a real httptest.Server; handlers and Use()d middlewares record what they saw; 404 bodies are decoded in the negotiated type.",
         "Trusts net/http URL parsing and chi's precedence inside unambiguous sets; dot segments and empty single-segment values excluded (cleaned by net/http/chi); Use after first Handle panics in chi and is not judged."),
 "C19": (E2, "runtime monitoring + Go race detector: real HTTP middlewares behind httptest servers and real gRPC interceptors over bufconn, handler-side context probes, downstream header/metadata taps, counting ID funcs, recorder-vs-capture comparison; reference model of the documented option semantics",
         "Option combinations x inbound values x HTTP/gRPC unary/stream x call chains of depth 1-4 are executed against the real middlewares; samplers and StreamCanceler are hammered from 16 goroutines under -race; race reports are read from the GORACE log and de-duplicated by function pair.",
         "Trusts net/http, grpc-go and bufconn; ambiguous option orders accept both documented readings; non-ASCII IDs not sent over real gRPC hops (grpc-go refuses them)."),
 "C17": (E2, "runtime monitoring + Go race detector: per-format constructive generators and single-point corruptions against the real ValidateFormat/ValidatePattern, independent grammar recognisers as second opinion, per-operation expected verdicts from 1-16 goroutines sharing the pattern cache, cache-invariant hook at quiescent points",
         "Valid-by-construction and malformed-by-construction instances of the 14 formats, RE2 patterns from a grammar with matching/non-matching values, and concurrent rounds (child processes, race log read back) are executed against the real validators.",
         "Debatable spellings (leap seconds, name-addr e-mails, leading zeros...) are not generated in either direction; hostname and uri misjudgements are listed known findings per corruption class."),
 "C18": (E2, "runtime monitoring: generated workloads against the real pkg/http/grpc error code, reference-model oracle over recorded results",
         "Every generated error sequence is merged under every parenthesisation with fresh originals and judged by an oracle computed from the case description; HTTP/gRPC status tables are enumerated exhaustively (8 flag combinations x names).",
         "Trusts the Go runtime, errors.Is/As, grpc status package. Message separator not asserted."),
}

E1TECH = "runtime monitoring: generated designs run through the real goa generators, generated client/server compiled and driven by reflection with taps (client_in, wire_req, auth, stub_in, wire_resp, client_out); offline oracle from the spec (design intent)"
E1NOTE = "Trusts the lab's spec printer/value builder, net/http, the Go compiler; designs whose generated code does not compile are excluded (C01); transport-imposed value alphabets for headers/cookies."
CHECKS.update({
 "C02": (E1, E1TECH + "; expected stub payload = sent payload + defaults with documented ambiguity classes", "Valid payloads over the boundary value classes are sent through the generated client, the wire (serialise + re-parse) and the generated server to a recording stub; every difference between the tree sent and the tree the service method received is a violation.", E1NOTE + " MultipartRequest() endpoints are driven with the lab's own user encoder/decoder (one JSON part, DESIGN 13.9): goa's plumbing is judged there, not a codec. OneOf unions travel in request and response bodies (DESIGN 13.8)."),
 "C03": (E1, E1TECH + "; scripted results returned by the stub compared with the client's return value and the designed status", "The stub returns scripted valid results (tagged alternatives selected by value); status code, header placement and the value returned by the generated client are compared with the script.", E1NOTE),
 "C04": (E1, E1TECH + "; reference validator (written from the DSL documentation) decides validity of boundary probes; stub-invoked iff valid", "Boundary probes on both sides of every validation rule, removed required attributes and malformed wire encodings are sent through the generated client and hand-encoded; the reference validator decides validity; results violating the result's constraints are returned to the generated client; short websocket streams in which one streamed message carries a boundary probe.", E1NOTE + " Formats judged by construction class (C17 owns exactness)."),
 "C05": (E1, E1TECH + "; literal status table and declared error responses from the spec", "Every declared error (default type: 8 flag combinations, wrapped/joined; custom types), undeclared service errors, plain Go errors and hand-encoded decode failures are provoked; status, goa-error header, body, WriteHeader count and the client's error are judged.", E1NOTE + " Nil error formatter (as goa example passes)."),
 "C06": (E1, E1TECH + "; recording Auther scripted by accept/reject vectors; reference evaluation 'exists requirement, all schemes accept'", "Every accept/reject vector over the schemes of the effective requirements, with credentials from class alphabets, explicit/implicit mappings, NoSecurity and inheritance; callbacks' arguments, scopes and the method's execution are judged.", E1NOTE),
 "C08": (E1, E1TECH + "; reference projection from the spec's views; response relabelling at the tap", "Per defined view the stub returns (result, view); wire members, goa-view header and the client's value are compared with the reference projection; responses relabelled with undefined views must be refused.", E1NOTE),
 "C07": (E1, "runtime monitoring of generator output against the running server: generated designs (openapi profile: multiple routes, file servers, parameters in every location, security, errors) run through the real generators; the four emitted documents are parsed (own OpenAPI-3 loader, kin-openapi for validity, swagger-2 structural checks), JSON and YAML renderings compared value by value, and the documented operations, parameters, bodies and status codes compared with the (verb, pattern) pairs the generated Mount functions register on a recording Muxer and with the spec", "Per accepted design: documents load and validate; JSON == YAML as values; every mounted (verb, path) is documented and every documented operation is served; parameters (name, location, required; deepObject style of OpenAPI 3 map parameters) match the design; per-operation security requirements (alternatives, schemes per requirement, declared schemes) match the design.", E1NOTE + " OpenAPI validity is judged by the rules the lab implements plus kin-openapi's loader; vendor extensions ignored."),
 "C14": (E1, E1TECH + "; the lab's own evaluator of the OpenAPI-3 subset goa emits (oaeval/oajudge) judges every request/response of the C04 boundary workload against the documented schemas; the generated server's verdict is compared (schema accepts <=> server runs the method; response conforms to the documented response); kin-openapi's openapi3filter runs as a counted cross-check", "Boundary probes on both sides of every validation rule, removed required attributes, wrong kinds, hand-encoded requests; for each, schema verdict vs server verdict; served responses (results, declared errors) vs documented responses.", E1NOTE + " Findings are keyed by trigger class of the triaged root cause; server-side validation defects owned by C04 appear here under the same trigger names."),
 "C20": (E1, "Go race detector + runtime monitoring: the generated server built with -race is driven by 2/16/64 client goroutines (PRNG-chosen yields inside the stub); every concurrent exchange must be observationally equal to the sequential baseline of the same case; helper hammer (muxer, encoders, error encoder, pattern validator, samplers, request-ID and trace middlewares) with per-operation expected results; race log parsed", "Mixed valid/invalid/error cases against one mounted server per design, 3 rounds per concurrency level, overlap measured (max in flight, overlapping class pairs); race reports de-duplicated by function pair.", "A clean race-detector run means no race on the schedules exercised. " + E1NOTE),
})

CHECKS.update({
 "C01": (E1, "runtime monitoring of the generation pipeline: generated designs (all steering profiles, naming-hostile alphabets, recursive/viewed/aliased types, gRPC and HTTP mappings, streaming, multipart, unions) printed as DSL and run in ONE FRESH PROCESS each through the real eval.RunDSL and generator.Generate (gen + example); the Go type checker (go build -gcflags=-e over every written package, stand-in pb/clue packages) is the independent judge; generator errors, panics (stack captured) and normalised diagnostics per generated-file role are the recorded events",
         "Per accepted design: no generator error, no panic, no type-check diagnostic in any written package (gen/..., example mains and service skeletons). Diagnostics are normalised and keyed by file role + trigger class of the triaged root cause.",
         "'Compiles' is judged with stand-in *.pb.go (lab protoc) and goa.design/clue packages; diagnostics positioned inside a stand-in are infrastructure errors, not violations; plugins are outside the envelope."),
})

NOT_BUILT = "check not built yet in this session (planned, DESIGN.md §11); not claimed until it exists and is silent on the unchanged tree"
NA = {}
def hook_commits():
    try:
        out = subprocess.run(['git','-C','/repo','log','--format=%h %s'],capture_output=True,text=True).stdout
        return [l.split()[0] for l in out.splitlines() if l.split(' ',1)[1].startswith('verif hooks')]
    except Exception:
        return []
m = {
 "version": 1,
 "setup_cmd": "./setup.sh",
 "hooks": {
  "guard": "verif",
  "enable": "go build -tags verif (every check builds its monitors from /verif/lab, whose go.mod has replace goa.design/goa/v3 => /repo)",
  "baseline_off_cmd": "cd /repo && GOFLAGS=-mod=mod GOPROXY=off GOSUMDB=off GOTOOLCHAIN=local go test -json -vet=off -count=1 -timeout 25m ./...",
  "source_commits": hook_commits(),
  "add_only": True
 },
 "engines": [
  {"name": E1, "path": "lab/cmd/lab", "serves_properties": [c for c in CHECKS if CHECKS[c][0]==E1], "kind_free_text": "spec IR -> printed DSL -> real eval.RunDSL + generator.Generate in a fresh process per design -> go build -> AST-derived stubs + reflection driver over generated client/server with taps -> JSONL events -> offline oracles"},
  {"name": E2, "path": "lab/cmd/mon-*", "serves_properties": [c for c in CHECKS if CHECKS[c][0]==E2], "kind_free_text": "generator + independent reference model + recorder + oracle over the real runtime packages, -race where schedules matter"},
  {"name": E3, "path": "lab/cmd/lab (cli flows)", "serves_properties": [c for c in CHECKS if CHECKS[c][0]==E3], "kind_free_text": "the real cmd/goa binary built from /repo run over scratch modules (gen/example histories)"},
 ],
 "checks": [],
 "not_applicable": [],
 "notes": "All checks: ./check <Cxx> --tier quick|thorough [--replay file]; exit 0 held / 1 VIOLATION / 2 inconclusive-infrastructure. Known findings: /verif/known_findings.json (open entries suppress only their exact key; fixed entries suppress nothing)."
}
for p in props:
    i = p['id']
    if i in CHECKS:
        eng, tech, text, note = CHECKS[i]
        m['checks'].append({"property_id": i, "quick_cmd": f"./check {i} --tier quick", "thorough_cmd": f"./check {i} --tier thorough",
          "evidence_file": f"evidence/{i}.json", "replay_cmd_template": f"./check {i} --replay {{path}}", "engine": eng,
          "level_claimed": {"category": "exploration", "text": text + " Held on the executions observed; nothing is claimed beyond them.", "design_ref": f"DESIGN.md §7.{i}"},
          "level_note": note, "technique": tech})
    else:
        m['not_applicable'].append({"property_id": i, "reason": NA.get(i, NOT_BUILT)})
json.dump(m, open(os.path.join(ROOT,'MANIFEST.json'),'w'), indent=1, ensure_ascii=False)
print("checks:", [c['property_id'] for c in m['checks']])
