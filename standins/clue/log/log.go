// Package log is a stand-in for goa.design/clue/log exposing exactly the
// identifiers the goa example templates use, with the signatures of the real
// clue API. It exists only so that `goa example` output type-checks offline.
package log

import (
	"context"
	"net/http"

	goa "goa.design/goa/v3/pkg"
	"google.golang.org/grpc"
)

type (
	// KV is a key/value pair.
	KV struct {
		K string
		V any
	}
	// Fielder is implemented by KV and friends.
	Fielder interface{ LogFields() []KV }
	// FormatFunc formats a log entry.
	FormatFunc func(e *Entry) []byte
	// Entry is a log entry.
	Entry struct{ KeyVals []KV }
	// LogOption configures the logger.
	LogOption func(*options)
	// HTTPLogOption configures the HTTP middleware.
	HTTPLogOption func(*httpOptions)
	// GRPCLogOption configures the gRPC interceptors.
	GRPCLogOption func(*grpcOptions)
	options       struct{}
	httpOptions   struct{}
	grpcOptions   struct{}
)

func (kv KV) LogFields() []KV { return []KV{kv} }

func FormatJSON(e *Entry) []byte     { return nil }
func FormatTerminal(e *Entry) []byte { return nil }
func FormatText(e *Entry) []byte     { return nil }
func IsTerminal() bool               { return false }

func Context(ctx context.Context, opts ...LogOption) context.Context { return ctx }
func WithFormat(fn FormatFunc) LogOption                             { return func(*options) {} }
func WithDebug() LogOption                                           { return func(*options) {} }

func Print(ctx context.Context, keyvals ...Fielder)                  {}
func Printf(ctx context.Context, format string, v ...any)            {}
func Debug(ctx context.Context, keyvals ...Fielder)                  {}
func Debugf(ctx context.Context, format string, v ...any)            {}
func Info(ctx context.Context, keyvals ...Fielder)                   {}
func Infof(ctx context.Context, format string, v ...any)             {}
func Error(ctx context.Context, err error, keyvals ...Fielder)       {}
func Errorf(ctx context.Context, err error, format string, v ...any) {}
func Fatal(ctx context.Context, err error, keyvals ...Fielder)       {}
func Fatalf(ctx context.Context, err error, format string, v ...any) {}

// Endpoint is a goa endpoint middleware.
func Endpoint(e goa.Endpoint) goa.Endpoint { return e }

// HTTP returns a HTTP middleware.
func HTTP(logCtx context.Context, opts ...HTTPLogOption) func(http.Handler) http.Handler {
	return func(h http.Handler) http.Handler { return h }
}

func UnaryServerInterceptor(logCtx context.Context, opts ...GRPCLogOption) grpc.UnaryServerInterceptor {
	return func(ctx context.Context, req any, _ *grpc.UnaryServerInfo, handler grpc.UnaryHandler) (any, error) {
		return handler(ctx, req)
	}
}

func StreamServerInterceptor(logCtx context.Context, opts ...GRPCLogOption) grpc.StreamServerInterceptor {
	return func(srv any, ss grpc.ServerStream, _ *grpc.StreamServerInfo, handler grpc.StreamHandler) error {
		return handler(srv, ss)
	}
}
