// Package debug is a stand-in for goa.design/clue/debug (see ../log).
package debug

import (
	"context"
	"net/http"

	goa "goa.design/goa/v3/pkg"
	"google.golang.org/grpc"
)

type (
	// Muxer is the interface used to mount the debug handlers.
	Muxer interface {
		Handle(pattern string, handler http.Handler)
		HandleFunc(pattern string, handler func(http.ResponseWriter, *http.Request))
	}
	goaMuxer interface {
		Handle(method, pattern string, handler http.HandlerFunc)
	}
	adapted struct{ m goaMuxer }
	// LogPayloadsOption configures LogPayloads.
	LogPayloadsOption func(*struct{})
	// DebugLogEnablerOption configures MountDebugLogEnabler.
	DebugLogEnablerOption func(*struct{})
	// PprofOption configures MountPprofHandlers.
	PprofOption func(*struct{})
	// HTTPOption configures HTTP.
	HTTPOption func(*struct{})
)

func (a adapted) Handle(pattern string, handler http.Handler) {}
func (a adapted) HandleFunc(pattern string, handler func(http.ResponseWriter, *http.Request)) {
}

// Adapt adapts a goa muxer.
func Adapt(m goaMuxer) Muxer { return adapted{m} }

func LogPayloads(opts ...LogPayloadsOption) func(goa.Endpoint) goa.Endpoint {
	return func(e goa.Endpoint) goa.Endpoint { return e }
}

func HTTP() func(http.Handler) http.Handler {
	return func(h http.Handler) http.Handler { return h }
}

func MountDebugLogEnabler(mux Muxer, opts ...DebugLogEnablerOption) {}
func MountPprofHandlers(mux Muxer, opts ...PprofOption)             {}

func UnaryServerInterceptor() grpc.UnaryServerInterceptor {
	return func(ctx context.Context, req any, _ *grpc.UnaryServerInfo, handler grpc.UnaryHandler) (any, error) {
		return handler(ctx, req)
	}
}

func StreamServerInterceptor() grpc.StreamServerInterceptor {
	return func(srv any, ss grpc.ServerStream, _ *grpc.StreamServerInfo, handler grpc.StreamHandler) error {
		return handler(srv, ss)
	}
}
