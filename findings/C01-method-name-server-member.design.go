package design

import . "goa.design/goa/v3/dsl"

// Methods whose Go name equals a member of the generated HTTP Server struct
// (field Mounts, methods Mount, Service, MethodNames).
var _ = API("clash", func() {})

var _ = Service("svc", func() {
	Method("mount", func() {
		HTTP(func() { GET("/mount") })
	})
	Method("mounts", func() {
		HTTP(func() { GET("/mounts") })
	})
	Method("service", func() {
		HTTP(func() { GET("/service") })
	})
	Method("method_names", func() {
		HTTP(func() { GET("/method_names") })
	})
})
