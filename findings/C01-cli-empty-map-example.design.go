package design

import . "goa.design/goa/v3/dsl"

// The example value of a CLI flag is an EMPTY Go map. Method "m": the body is an attribute whose
// type is recursive; the recursive occurrence yields a nil example, which Object.Example drops,
// leaving map[string]any{}. Method "n" (same panic on its own): a map parameter whose length
// validation makes expr.NewLength return 0. codegen/cli jsonExample (codegen/cli/cli.go:418)
// reads keys[0] of the map's key list without checking that the map has keys
// => "index out of range [0] with length 0". Accepted by eval.RunDSL; `goa gen` panics.
var Node = Type("Node", func() {
	Attribute("next", "Node")
})

var _ = Service("svc", func() {
	Method("m", func() {
		Payload(Node)
		HTTP(func() {
			POST("/")
			Body("next")
		})
	})
	Method("n", func() {
		Payload(func() {
			Attribute("q", MapOf(String, String), func() { MaxLength(0) })
		})
		HTTP(func() {
			POST("/n")
			Param("q")
		})
	})
})
