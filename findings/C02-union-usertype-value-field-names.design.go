package design

import . "goa.design/goa/v3/dsl"

// The value of a user type alternative of a OneOf attribute travels over HTTP as JSON text spelled with
// the GO FIELD NAMES of the service type, not with the design's attribute names.
//
// The generated client sends {"pick":{"Type":"pt","Value":"{\"XPos\":1,\"LabelText\":\"a\"}"}} and the
// generated server only understands that spelling: the request the design (and goa's own OpenAPI
// document, whose example for Value is {"label_text":...,"x_pos":...}) describes,
// {"pick":{"Type":"pt","Value":"{\"x_pos\":1,\"label_text\":\"a\"}"}}, reaches the service method as
// &Point{XPos:0, LabelText:nil}: every member whose attribute name differs from its Go field name in more
// than case is silently lost. Every other body of the same design uses the attribute names (json struct
// tags of the body types).
//
// Root cause: codegen/go_transform.go transformGoUnionToObjectTmpl marshals the SERVICE value
// (`js, _ := json.Marshal(res.Pick)`) and transformGoObjectToUnionTmpl unmarshals into the SERVICE type
// (`var val *calc.Point; json.Unmarshal([]byte(*body.Pick.Value), &val)`); service types carry no json
// tags, so encoding/json falls back to the Go field names (matched case-insensitively on the way in).
//
// Not repaired: the two template texts are pinned by codegen/go_transform_union_test.go and
// http/codegen/testdata/payload_constructor_functions.go; a repair has to go through a body type of the
// alternative. Listed: C02/C03 wire-placement:body:union:value:member-name:request|response,
// C02 trigger:union-usertype-value-design-names:mismatch (hand-encoded requests).
var _ = API("a", func() {})

var Point = Type("Point", func() {
	Attribute("x_pos", Int)
	Attribute("label_text", String)
})

var _ = Service("calc", func() {
	Method("add", func() {
		Payload(func() {
			OneOf("pick", func() {
				Attribute("pt", Point)
				Attribute("n", Int)
			})
		})
		Result(func() {
			OneOf("picked", func() {
				Attribute("pt", Point)
				Attribute("n", Int)
			})
		})
		HTTP(func() { POST("/add") })
	})
})
