package design

import . "goa.design/goa/v3/dsl"

// A custom error type with an attribute called "error" (or error_name,
// goa_error_name): field and generated method have the same name. Not repairable:
// http/codegen/testdata/result_dsls.go ValidateErrorResponseTypeDSL (test
// TestClientDecode/validate-error-response-type) is such a design and pins the output.
var _ = API("errfield", func() {})

var Folder = Type("Folder", func() {
	Attribute("error", String)
	Attribute("msg", String)
})

var _ = Service("svc", func() {
	Method("a", func() {
		Error("bad", Folder)
		HTTP(func() {
			GET("/a")
			Response("bad", StatusBadRequest)
		})
	})
})
