package design

import . "goa.design/goa/v3/dsl"

// Body("papa") where papa is an inline object that refers to a user type (so
// that the client needs a constructor for the body).
var _ = API("bodyinline", func() {})

var Cellar = Type("Cellar", func() {
	Attribute("n", Int)
})

var _ = Service("svc", func() {
	Method("add", func() {
		Payload(func() {
			Attribute("papa", func() {
				Attribute("c", Cellar)
				Attribute("d", String, func() { Default("x") })
			})
			Attribute("q", String)
		})
		HTTP(func() {
			POST("/add")
			Param("q")
			Body("papa")
		})
	})
})
