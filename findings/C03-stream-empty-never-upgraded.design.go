package design

import . "goa.design/goa/v3/dsl"

// A server (or bidirectional) streaming endpoint whose service method sends nothing:
//
//	func (s *svc) List(ctx context.Context, stream calc.ListServerStream) error { return stream.Close() }
//
// The generated server upgrades the connection lazily, inside the first Send/Recv
// (templates/partial/websocket_upgrade.go.tpl); the generated server Close returns nil when nothing was
// upgraded (`if s.conn == nil { return nil }`, templates/websocket_close.go.tpl). The handler then returns
// without having written anything, net/http answers the handshake request with "200 OK", the client's dial
// fails ("websocket: bad handshake") and the generated client endpoint decodes the empty 200 response as a
// result: the caller of a successful method gets `failed to decode response body: EOF` instead of a stream
// that ends with io.EOF. An empty result stream cannot be delivered.
//
// Proposed repair (C03-stream-empty-never-upgraded.diff): the server Close upgrades the connection when that
// has not happened yet, then closes it normally (verified with the lab: every empty stream then arrives as
// io.EOF). NOT applicable without editing the suite: the text of the generated Close is pinned by
// http/codegen/testdata/streaming_code.go (TestServerStreaming/server-websocket-close).
var _ = API("a", func() {})

var _ = Service("calc", func() {
	Method("list", func() {
		StreamingResult(String)
		HTTP(func() {
			GET("/list")
		})
	})
})
