package design

import . "goa.design/goa/v3/dsl"

// A result type (with views, so that projected <-> service type conversions are
// generated) with a OneOf attribute followed by an attribute of user type.
var _ = API("unionleak", func() {})

var Journal = Type("Journal", func() {
	Attribute("n", Int)
})

var Summary = ResultType("application/vnd.summary", func() {
	TypeName("Summary")
	Attributes(func() {
		OneOf("whiskey", func() {
			Attribute("xray", String)
			Attribute("mike", Int)
		})
		Attribute("zulu", Journal)
	})
})

var _ = Service("svc", func() {
	Method("a", func() {
		Result(Summary)
		HTTP(func() { GET("/a") })
	})
})
