package design

import . "goa.design/goa/v3/dsl"

var _ = API("metaleak", func() {})

// Two attributes of a result type use the same user type, the first one
// carries metadata (a custom field name): the projection of the result type
// gives the second attribute the metadata of the first one.
var Cellar = Type("Cellar", func() {
	Attribute("m", String)
})

var Summary = ResultType("application/vnd.summary", func() {
	TypeName("Summary")
	Attributes(func() {
		Attribute("ok", Cellar, func() {
			Meta("struct:field:name", "CustomOk")
		})
		Attribute("is_active", Cellar)
	})
})

var _ = Service("svc", func() {
	Method("a", func() {
		Result(Summary)
		HTTP(func() { GET("/a") })
	})
})
