package design

import . "goa.design/goa/v3/dsl"

// Meta("struct:field:name", ...) on an attribute that is (a) a path parameter,
// (b) the attribute given to Body, (c) the attribute given to a response Tag,
// (d) a nested result type validated by a view.
var _ = API("fieldname", func() {})

var Child = ResultType("application/vnd.child", func() {
	TypeName("Child")
	Attributes(func() {
		Attribute("n", Int, func() { Minimum(1) })
	})
})

var Holder = ResultType("application/vnd.holder", func() {
	TypeName("Holder")
	Attributes(func() {
		Attribute("juliet", Child, func() { Meta("struct:field:name", "CustomJuliet") })
	})
})

var _ = Service("svc", func() {
	Method("path", func() {
		Payload(func() {
			Attribute("pp", Int, func() { Meta("struct:field:name", "CustomPp") })
			Required("pp")
		})
		HTTP(func() { GET("/path/{pp}") })
	})
	Method("body", func() {
		Payload(func() {
			Attribute("bravo", Boolean, func() { Meta("struct:field:name", "CustomBravo") })
			Attribute("q", String)
		})
		HTTP(func() {
			POST("/body")
			Param("q")
			Body("bravo")
		})
	})
	Method("tag", func() {
		Result(func() {
			Attribute("charlie", String, func() { Meta("struct:field:name", "CustomCharlie") })
		})
		HTTP(func() {
			GET("/tag")
			Response(StatusAccepted, func() { Tag("charlie", "x") })
			Response(StatusOK)
		})
	})
	Method("view", func() {
		Result(Holder)
		HTTP(func() { GET("/view") })
	})
})
