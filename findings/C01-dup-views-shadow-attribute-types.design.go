package design

import . "goa.design/goa/v3/dsl"

// A recursive result type (Report) rendered with a view that shows an inline
// object (last_name) referring to a user type (Gadget) which itself has an
// inline object (bravo): the server marshal helper of Gadget builds
// &struct{FirstName *GadgetResponseBody; Yankee string}{} without the JSON tags
// the declared type GadgetResponseBody has.
var _ = API("inlinetags", func() {})

var Gadget = Type("Gadget", func() {
	Attribute("alpha", Int32)
	Attribute("bravo", func() {
		Attribute("first_name", "Gadget")
		Attribute("yankee", String)
		Required("yankee")
	})
	Required("alpha")
})

var Report = ResultType("application/vnd.report", func() {
	TypeName("Report")
	Attributes(func() {
		Attribute("sierra", "Report")
		Attribute("last_name", func() {
			Attribute("total_amount", Gadget)
		})
	})
	View("default", func() {
		Attribute("sierra")
	})
	View("tiny", func() {
		Attribute("sierra")
		Attribute("last_name")
	})
})

var _ = Service("storage", func() {
	Method("update", func() {
		Result(Report)
		HTTP(func() {
			POST("/update")
		})
	})
})
