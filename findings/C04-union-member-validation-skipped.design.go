package design

import . "goa.design/goa/v3/dsl"

// The validations of the alternatives of a OneOf attribute are never run over HTTP: neither by the
// generated server on a request nor by the generated client on a response.
//
// With this design `POST /add {"pick":{"Type":"name","Value":"\"x\""}}` (MinLength(3) violated),
// {"Type":"count","Value":"99"} (Maximum(10) violated) and {"Type":"pt","Value":"{}"} (required x_pos
// missing, whatever spelling is used) all reach the service method; the same values returned by the
// service are handed to the caller of the generated client. Over gRPC the same design validates the
// selected alternative (codegen/validation.go unionValT).
//
// Root cause: for HTTP a union becomes the object {Type string, Value string} (expr.UnionToObject,
// http/codegen/service_data.go makeHTTPType). The only validations attached to that object are
// Required("Type","Value") and the enumeration of the alternatives' names on Type. The generated
// constructor (codegen/go_transform.go transformGoObjectToUnionTmpl) then does
// `json.Unmarshal([]byte(*body.Pick.Value), &val)` straight into the SERVICE type of the alternative,
// for which no validation function exists (codegen/validation.go:169: "the only time we validate a union
// is when we are validating a proto-generated type or view types since the HTTP serialization
// transforms unions into objects").
//
// Not repaired: a repair needs a transport (body) type and a Validate function per alternative and a
// constructor that can report an error; the text of the union <-> object transforms is pinned by
// codegen/go_transform_union_test.go and http/codegen/testdata/payload_constructor_functions.go
// (PayloadBodyUnionConstructorCode, PayloadBodyQueryUserUnion*). Listed:
// C04 trigger:union-member-not-validated:leaked / :accepted.
var _ = API("a", func() {})

var Point = Type("Point", func() {
	Attribute("x_pos", Int, func() { Minimum(0) })
	Required("x_pos")
})

var _ = Service("calc", func() {
	Method("add", func() {
		Payload(func() {
			OneOf("pick", func() {
				Attribute("name", String, func() { MinLength(3) })
				Attribute("count", Int, func() { Maximum(10) })
				Attribute("pt", Point)
			})
		})
		Result(func() {
			OneOf("picked", func() {
				Attribute("name", String, func() { MinLength(3) })
			})
		})
		HTTP(func() { POST("/add") })
	})
})
