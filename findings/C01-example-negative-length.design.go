package design

import . "goa.design/goa/v3/dsl"

// An array attribute that only has MaxLength(n) with n < 2 (no MinLength):
// expr.NewLength (expr/example.go:106) computes n - (rand % 3), i.e. possibly a
// negative element count, and byLength (expr/example.go:173) / Array.Example
// (expr/types.go:417) call make([]any, count) => "makeslice: len out of range".
// Accepted by eval.RunDSL; `goa gen` panics.
var _ = Service("svc", func() {
	Method("m", func() {
		Payload(func() {
			Attribute("a", ArrayOf(String), func() { MaxLength(1) })
		})
		HTTP(func() { POST("/") })
	})
})
