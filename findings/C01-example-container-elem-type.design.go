package design

import . "goa.design/goa/v3/dsl"

// Enum (or Example) values given as plain Go constants on the ELEMENT or KEY of an array/map
// whose element type is not exactly the constant's Go type (UInt, Int32, Int64, UInt32, UInt64,
// Float32, Float64 with integer constants, Bytes with string constants). The values pass
// Primitive.IsCompatible at eval time, but example generation stores them with reflect into a
// strictly typed []uint / map[string]float32 (Array.MakeSlice expr/types.go:434, Map.MakeMap
// expr/types.go:603) => "reflect.Set: value of type int is not assignable to type uint".
// Accepted by eval.RunDSL; `goa gen` panics.
var _ = Service("svc", func() {
	Method("m", func() {
		Payload(func() {
			Attribute("a", ArrayOf(UInt, func() { Enum(1, 2, 3) }))
		})
		HTTP(func() { POST("/") })
	})
	Method("n", func() {
		Payload(func() {
			Attribute("b", MapOf(String, Float32, func() { Elem(func() { Enum(1.5, 2.5) }) }))
		})
		HTTP(func() { POST("/n") })
	})
})
