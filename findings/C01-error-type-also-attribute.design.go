package design

import . "goa.design/goa/v3/dsl"

// A user type that is both a custom error type and the type of an attribute
// nested in a payload/result of the same (or an earlier) method of the service.
var _ = API("errshared", func() {})

var Oops = Type("Oops", func() {
	Attribute("msg", String)
})

var _ = Service("svc", func() {
	Method("a", func() {
		Payload(func() {
			Attribute("last", Oops)
		})
		Error("oops", Oops)
		HTTP(func() {
			POST("/a")
			Response("oops", StatusBadRequest)
		})
	})
})
