package design

import . "goa.design/goa/v3/dsl"

// Body("india") where india is an inline object with a nested inline object
// that has a required primitive attribute.
var _ = API("nestedrequired", func() {})

var _ = Service("svc", func() {
	Method("query", func() {
		Payload(func() {
			Attribute("india", func() {
				Attribute("v2", func() {
					Attribute("pkg", String)
					Required("pkg")
				})
			})
			Attribute("q", String)
		})
		HTTP(func() {
			POST("/query")
			Param("q")
			Body("india")
		})
	})
})
