package design

import . "goa.design/goa/v3/dsl"

// A request whose union "Value" does not denote a value of the selected alternative reaches user code
// with a zero value instead of being answered 400:
//
//	{"pick":{"Type":"count","Value":"{not json"}}     -> service method sees PickCount(0)
//	{"pick":{"Type":"count","Value":"\"a string\""}}  -> PickCount(0)
//	{"pick":{"Type":"pt","Value":"null"}}             -> Pick holds a typed nil *Point (user code that
//	                                                     dereferences the selected alternative panics)
//
// Root cause: codegen/go_transform.go transformGoObjectToUnionTmpl drops the error of
// `json.Unmarshal([]byte(*body.Pick.Value), &val)` (the generated New<Method>Payload constructors cannot
// return one) and nothing validates the text beforehand: expr.UnionToObject only requires the two
// members and enumerates Type.
//
// Proposed repair (C04-union-malformed-value.diff, partial): give "Value" the validation
// Format(FormatJSON) in expr.UnionToObject. The generated Validate<Body> functions then reject text
// that is not JSON with invalid_format and the OpenAPI documents say `format: json`. goa's own tests
// pass with it (expr, codegen/..., http/...: nothing pins the validation or the schema of union
// bodies). JSON of the wrong kind and `null` still pass: rejecting them needs the error of
// json.Unmarshal, i.e. a change of the pinned transform template (codegen/go_transform_union_test.go,
// http/codegen/testdata/payload_constructor_functions.go). Listed:
// C04 malformed-request-reached-stub:malformed:union-value-not-json / -wrong-json-kind / -null.
var _ = API("a", func() {})

var Point = Type("Point", func() { Attribute("x", Int) })

var _ = Service("calc", func() {
	Method("add", func() {
		Payload(func() {
			OneOf("pick", func() {
				Attribute("count", Int)
				Attribute("pt", Point)
			})
		})
		HTTP(func() { POST("/add") })
	})
})
