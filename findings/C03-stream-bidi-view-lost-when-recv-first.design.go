package design

import . "goa.design/goa/v3/dsl"

// A bidirectional stream whose result is a result type with several views. The service chooses the view
// with stream.SetView("tiny") and, as bidirectional services do, reads a message before it answers:
//
//	stream.SetView("tiny"); p, _ := stream.Recv(); stream.Send(&calc.RT{...}); stream.Close()
//
// The generated server upgrades the connection inside the FIRST Send or Recv, and only the Send flavour of
// the upgrade adds the goa-view response header (templates/partial/websocket_upgrade.go.tpl:
// `{{ if and .ViewedResult (eq .Function "Send") }}`). When Recv comes first the handshake response carries
// no goa-view header, the generated client keeps view "" (= default) and decodes/validates every streamed
// result with the default view: attributes of the chosen view are lost (or the message is refused as
// lacking the default view's required attributes).
//
// Proposed repair (C03-stream-bidi-view-lost-when-recv-first.diff): the upgrade adds the goa-view header
// whenever the result has views chosen at run time, whichever call performs it (verified with the lab).
// NOT applicable without editing the suite: the generated Recv text is pinned by
// http/codegen/testdata/streaming_code.go (TestServerStreaming/bidirectional-streaming-result-with-views,
// .../streaming-payload-result-with-views and their collection variants).
var _ = API("a", func() {})

var RT = ResultType("application/vnd.rt", func() {
	TypeName("RT")
	Attributes(func() {
		Attribute("id", Int)
		Attribute("name", String)
	})
	View("default", func() {
		Attribute("id")
		Attribute("name")
	})
	View("tiny", func() {
		Attribute("id")
	})
})

var _ = Service("calc", func() {
	Method("talk", func() {
		StreamingPayload(String)
		StreamingResult(RT)
		HTTP(func() {
			GET("/talk")
		})
	})
})
