package design

import . "goa.design/goa/v3/dsl"

// A non-object payload mapped as a whole to a request header (or cookie).
var _ = API("primheader", func() {})

var _ = Service("svc", func() {
	Method("a", func() {
		Payload(Int)
		HTTP(func() {
			GET("/a")
			Header("X-Val")
		})
	})
	Method("b", func() {
		Payload(String)
		HTTP(func() {
			GET("/b")
			Cookie("c")
		})
	})
})
