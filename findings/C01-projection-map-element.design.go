package design

import . "goa.design/goa/v3/dsl"

// A result type that refers to itself through a map and whose views omit one
// of its attributes: the map elements are not projected.
var _ = API("projmap", func() {})

var Item = Type("Item", func() {
	Attribute("n", Int)
})

var Profile = ResultType("application/vnd.profile", func() {
	TypeName("Profile")
	Attributes(func() {
		Attribute("victor", Int64)
		Attribute("echo", MapOf(String, "Profile"))
		Attribute("romeo", Item)
		Required("victor")
	})
	View("default", func() {
		Attribute("victor")
		Attribute("echo")
	})
})

var _ = Service("svc", func() {
	Method("rate", func() {
		Result(Profile)
		HTTP(func() { GET("/rate") })
	})
})
