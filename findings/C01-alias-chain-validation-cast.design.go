package design

import . "goa.design/goa/v3/dsl"

// An alias of an alias whose inner alias carries a validation, used as an
// attribute of a result type (views validation code in gen/<svc>/views).
var _ = API("aliaschainval", func() {})

var Label = Type("Label", String, func() { Pattern("^(foo|bar)[0-9]?$") })
var Ident = Type("Ident", Label)

var Report = ResultType("application/vnd.report", func() {
	TypeName("Report")
	Attributes(func() {
		Attribute("alpha", Ident)
	})
})

var _ = Service("svc", func() {
	Method("a", func() {
		Result(Report)
		HTTP(func() { GET("/a") })
	})
})
