package design

import . "goa.design/goa/v3/dsl"

// A OneOf attribute inside an inline (anonymous) object nested in a payload.
var _ = API("unioninline", func() {})

var _ = Service("svc", func() {
	Method("a", func() {
		Payload(func() {
			Attribute("outer", func() {
				OneOf("choice", func() {
					Attribute("s", String)
					Attribute("i", Int)
				})
			})
		})
		HTTP(func() { POST("/a") })
	})
})
