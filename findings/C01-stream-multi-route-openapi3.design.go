package design

import . "goa.design/goa/v3/dsl"

// A streaming (websocket) endpoint with two routes. eval.RunDSL accepts it; `goa gen` panics in the
// OpenAPI 3 generator: http/codegen/openapi/v3/response.go:91 `bodies[r.StatusCode][0]` index out of
// range [0] with length 0.
//
// Root cause: http/codegen/openapi/v3/builder.go buildOperation is called once per route of an
// endpoint with the SAME *EndpointBodies. For a streaming endpoint it rewrites the success response
// to 101 by MOVING the body schemas inside that shared map (delete(ResponseBodies, 200);
// ResponseBodies[101] = b). The call for the second route finds no entry under 200 any more and
// overwrites ResponseBodies[101] with nil, which responseFromExpr then indexes.
// Repair (C01-stream-multi-route-openapi3.diff): move the schemas only when they are still filed under
// the original status code. The same design with a single route generates and compiles.
var _ = API("a", func() {})

var _ = Service("calc", func() {
	Method("add", func() {
		StreamingPayload(Int)
		Result(String)
		HTTP(func() {
			GET("/add")
			GET("/alt/add")
		})
	})
})
