package design

import . "goa.design/goa/v3/dsl"

// A RECURSIVE user type that contains a OneOf (union) attribute and is used in an HTTP body.
// The HTTP body clone of the type (EventRequestBody) keeps the type's "openapi:typename" ("Event")
// but is structurally different from the service type (unions become {Type, Value} objects in
// bodies), so the OpenAPI v3 schemafier registers it under the uniquified ref ".../Event2". When
// the recursion reaches the type again the lookup in schemafy (http/codegen/openapi/v3/types.go:230-238)
// only accepts a ref equal to ".../Event" for a named type, never finds ".../Event2", and generates
// the type again, forever => fatal "goroutine stack exceeds limit" (cannot be recovered).
// Without the recursion the same miss only produces duplicate schemas Event2, Event3, ...
// Accepted by eval.RunDSL; `goa gen` crashes.
var Event = Type("Event", func() {
	OneOf("u", func() {
		Attribute("a", String)
		Attribute("b", Int)
	})
	Attribute("next", "Event")
})

var _ = Service("svc", func() {
	Method("m", func() {
		Payload(Event)
		HTTP(func() { POST("/") })
	})
})
