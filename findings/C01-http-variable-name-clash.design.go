package design

import . "goa.design/goa/v3/dsl"

// Payload/result attributes mapped to HTTP headers, parameters or cookies whose
// Go variable name is also an identifier of the generated encoder/decoder
// (body, err, params, r, w, payload, res, resp, v, val, ctx, req, ok, u, mux).
var _ = API("varclash", func() {})

var _ = Service("svc", func() {
	Method("hdr", func() {
		Payload(func() {
			Attribute("body", Int)
			Attribute("err", Int)
			Attribute("other", String)
		})
		Result(func() {
			Attribute("res", Int)
			Attribute("other", String)
		})
		HTTP(func() {
			POST("/hdr")
			Header("body")
			Param("err")
			Response(StatusOK, func() {
				Header("res")
			})
		})
	})
	Method("path", func() {
		Payload(func() {
			Attribute("params", Int)
			Attribute("ctx", Int)
		})
		HTTP(func() {
			GET("/path/{params}/{ctx}")
		})
	})
})
