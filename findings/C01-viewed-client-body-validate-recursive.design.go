package design

import . "goa.design/goa/v3/dsl"

// The result of the method is rendered with an explicit view and the projected
// type refers to itself through another type (here its own "extended" view,
// whose "next" attribute is rendered with the default view again): the client
// validation code of the nested type calls ValidateRemoveResponseBody which is
// not generated. Same with two result types referring to each other.
var _ = API("recview", func() {})

var Listing = ResultType("application/vnd.listing", func() {
	TypeName("Listing")
	Attributes(func() {
		Attribute("papa", String)
		Attribute("xray", String)
		Attribute("next", "Listing")
		Required("xray")
	})
	View("default", func() {
		Attribute("papa")
		Attribute("next", func() { View("extended") })
	})
	View("extended", func() {
		Attribute("papa")
		Attribute("xray")
		Attribute("next")
	})
})

var _ = Service("storage", func() {
	Method("remove", func() {
		Result(Listing, func() { View("default") })
		HTTP(func() {
			PATCH("/remove")
		})
	})
})
