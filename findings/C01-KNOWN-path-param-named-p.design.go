package design

import . "goa.design/goa/v3/dsl"

// A path parameter called "p": the client request builder declares
// `var p <type>` and then `p, ok := v.(*Payload)`; this very output is pinned
// by http/codegen/testdata/client_request_build_functions.go (path-string*).
var _ = API("pathp", func() {})

var _ = Service("svc", func() {
	Method("a", func() {
		Payload(func() {
			Attribute("p", Int)
			Attribute("other", String)
		})
		HTTP(func() { POST("/a/{p}") })
	})
})
