package design

import . "goa.design/goa/v3/dsl"

// Body("w") where w is an optional primitive attribute with a default value
// (a non-pointer field of the payload struct).
var _ = API("bodyprim", func() {})

var _ = Service("svc", func() {
	Method("submit", func() {
		Payload(func() {
			Attribute("w", Int, func() { Default(-4) })
			Attribute("c", Int)
		})
		HTTP(func() {
			POST("/submit")
			Header("c")
			Body("w")
		})
	})
})
