package design

import . "goa.design/goa/v3/dsl"

// A header/param/cookie mapping "attribute:element" whose ATTRIBUTE part is empty, on a primitive
// payload (with an object payload eval reports the unknown attribute ""). Header(""), Param("") and
// Cookie("") are rejected (dsl/http.go:387,445,703) but ":val" slips through; the generators then
// use the empty attribute name as Go variable name and the generated server/client
// encode_decode.go does not parse => generator error
// "gen/http/svc/server/encode_decode.go:48:11: expected type, found newline".
// Accepted by eval.RunDSL; `goa gen` fails. (Not printed by the current /verif/lab/dslprint, which
// prints "val" for a primitive payload; an earlier printer produced it.)
var _ = Service("svc", func() {
	Method("m", func() {
		Payload(String)
		HTTP(func() {
			GET("/")
			Header(":val")
		})
	})
})
