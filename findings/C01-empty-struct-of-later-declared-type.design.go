// C01 finding (open): `type Segment struct{}` — the user type Segment, declared after the types that reach it (as a OneOf
// alternative of Cellar, inherited into Derived through Reference(Folder)), is emitted WITHOUT its attributes in gen/calc/service.go;
// the union conversion code (`&Segment{TagName: …}`) then does not compile. Reduced automatically from C01 thorough seed 3 design
// d0026 (tools: greedy deletion of services/types); the root cause is not isolated further: neither the recursion of Cellar nor
// the streaming method is needed, replacing Payload(T_Derived) by Payload(T_Folder) changes the design too much to tell.
// Present on the tree before this session's repairs (73e4bbe).
package design

import (
	. "goa.design/goa/v3/dsl"
	"goa.design/goa/v3/expr"
)

var _ = func() bool { D0026(); return true }()

func D0026() {
	var (
		T_Cellar expr.UserType
		T_Event expr.UserType
		T_Folder expr.UserType
		T_Derived expr.UserType
		T_Summary *expr.ResultTypeExpr
		T_Segment expr.UserType
		T_Segment2 expr.UserType
		T_StreamInit expr.UserType
	)
	_ = T_Cellar
	_ = T_Event
	_ = T_Folder
	_ = T_Derived
	_ = T_Summary
	_ = T_Segment
	_ = T_Segment2
	_ = T_StreamInit
	API("api1114", func() {
		Title("lab 1114")
		Version("1.0")
		HTTP(func() {
			Path("/v1")
		})
	})
	T_Cellar = Type("Cellar", func() {
		Attribute("romeo", Float32)
		Attribute("sierra", func() {
			Attribute("victor", Int)
			Attribute("total_amount", Int)
			Attribute("xray", ArrayOf(Int))
			Attribute("zip_code", ArrayOf(ArrayOf(String)))
			Attribute("juliet", UInt64)
			Attribute("papa", ArrayOf(Int))
			Required("victor", "total_amount", "juliet")
		})
		Attribute("first_name", String)
		Attribute("juliet", MapOf(Int, Int), "the juliet")
		Attribute("november", ArrayOf(MapOf(String, MapOf(String, MapOf(String, Boolean)))))
		OneOf("shape_of", func() {
			Attribute("flag", Int32, func() {
				Enum(1, 2, 3, 100, -7)
			})
			Attribute("as_text", T_Segment)
		})
		Required("sierra", "first_name", "shape_of")
	})
	T_Folder = Type("Folder", func() {
		Attribute("juliet", T_Cellar)
		Required("juliet")
	})
	T_Derived = Type("Derived", func() {
		Reference(T_Folder)
		Attribute("zip_code", Int, "the zip_code", func() {
			ExclusiveMinimum(1)
		})
		Attribute("kilo", ArrayOf(String))
		Attribute("juliet")
		Required("zip_code")
	})
	T_Summary = ResultType("application/vnd.summary", func() {
		TypeName("Summary")
		Attributes(func() {
			Attribute("charlie", ArrayOf(ArrayOf(Int32)))
			Attribute("foxtrot", func() {
				Attribute("whiskey", UInt32, "the whiskey")
				Attribute("juliet", ArrayOf(MapOf(String, T_Cellar)))
				Attribute("item_count", Float64)
				Attribute("yankee", UInt64)
				Required("item_count", "yankee")
			})
			Attribute("last_name", String, func() {
				Default("ddd")
			})
			Attribute("november", Int, func() {
				Default(3)
			})
			Attribute("echo", ArrayOf(ArrayOf(UInt64)))
			Required("foxtrot", "echo")
		})
		View("default", func() {
			Attribute("charlie")
			Attribute("last_name")
			Attribute("november")
		})
		View("tiny", func() {
			Attribute("charlie")
			Attribute("echo")
		})
		View("extended", func() {
			Attribute("charlie")
			Attribute("foxtrot")
			Attribute("last_name")
			Attribute("november")
			Attribute("echo")
		})
	})
	T_Segment = Type("Segment", func() {
		Attribute("tag_name", String)
		Required("tag_name")
	})
	T_StreamInit = Type("StreamInit", func() {
		Attribute("oscar", Int, func() {
			Enum(1, 2, 3, 100, -7)
		})
		Attribute("total_amount", Int32)
		Attribute("india", Int)
		Required("oscar", "india")
	})
	Service("calc", func() {
		HTTP(func() {
			Path("/calc")
		})
		Method("update", func() {
			Payload(T_StreamInit)
			StreamingResult(func() {
				Attribute("sierra", MapOf(UInt64, Any))
				Attribute("india", Int)
				Attribute("zulu", Int)
				Attribute("yankee", String, func() {
					Default("ddd")
				})
				Required("sierra", "india")
			})
			Error("too_many_0")
			HTTP(func() {
				GET("/update")
				Header("india:Accept-Thing")
				Cookie("oscar")
				Cookie("total_amount:c_1")
				Response("too_many_0", StatusInternalServerError, func() {
					Cookie("id:E_ID")
				})
			})
		})
		Method("show", func() {
			Payload(T_Derived)
			Result(T_Summary)
			HTTP(func() {
				PATCH("/show")
				PATCH("/alt/show")
				Param("kilo:Z")
				Header("zip_code")
				MultipartRequest()
				Response(StatusOK)
			})
		})
		Method("remove", func() {
			Result(T_Summary)
			HTTP(func() {
				PUT("/remove")
				SkipRequestBodyEncodeDecode()
				Response(StatusCreated)
			})
		})
		Method("list", func() {
			Payload(func() {
				Attribute("created_at", Float64)
				Attribute("juliet", T_Segment)
			})
			Result(T_Summary)
			Error("invalid_0")
			HTTP(func() {
				PATCH("/list")
				Response(StatusCreated)
				Response("invalid_0", StatusForbidden)
			})
		})
	})
}
