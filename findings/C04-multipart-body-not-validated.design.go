package design

import . "goa.design/goa/v3/dsl"

// The required attributes and validations of the BODY attributes of a MultipartRequest() endpoint are never
// checked by generated code: a request violating them reaches the service method.
//
// With this design the generated server decoder (gen/http/svc/server/encode_decode.go NewSvcUpDecoder) calls
// the user decoder, then decodes and VALIDATES user_id (path) and tag (header) itself and merges them into
// the payload the user decoder produced — and hands that payload to the service method as it is. A part
// holding {"alpha":"much too long","inner":{}} (MaxLength(5) violated, required first_name and nums missing)
// reaches the service method, while the same request sent to the same design without MultipartRequest() is
// answered 400 invalid_length / missing_field. goa does generate UpRequestBody, ValidateUpRequestBody,
// ValidateInnerRequestBody and NewUpPayload for the endpoint (gen/http/svc/server/types.go) — nothing calls
// them; the function `goa example` writes for the user is empty ("Add multipart request decoder logic here")
// and the DSL documentation only says the user function "is responsible for decoding the multipart content
// into the payload".
//
// Root cause: http/codegen/templates/multipart_request_decoder.go.tpl validates what the partial
// request_elements decodes (parameters, headers, cookies) and nothing else; the user decoder fills the
// SERVICE payload type, for which goa generates no validation functions (they exist for the HTTP body types
// only), so the generated code has nothing it could call after the user decoder returned.
//
// Not repaired: a repair needs validation functions for service types (or another user function signature
// that takes the generated body type), i.e. a feature, and the decoder text is pinned by
// http/codegen/testdata/multipart_code.go. Listed: C04 trigger:multipart-body-not-validated:leaked.
// (The lab's own user decoder — rt/multipart.go — decodes the part straight into the payload, like goa's
// published multipart example does.)
var _ = API("a", func() {})

var Inner = Type("Inner", func() {
	Attribute("first_name", String, func() { MinLength(2) })
	Required("first_name")
})

var _ = Service("svc", func() {
	Method("up", func() {
		Payload(func() {
			Attribute("user_id", Int, func() { Maximum(100) })
			Attribute("tag", String, func() { Enum("a", "b") })
			Attribute("alpha", String, func() { MaxLength(5) })
			Attribute("nums", ArrayOf(Int), func() { MinLength(1) })
			Attribute("inner", Inner)
			Required("user_id", "alpha", "nums")
		})
		HTTP(func() {
			POST("/up/{user_id}")
			Header("tag:X-Tag")
			MultipartRequest()
		})
	})
})
