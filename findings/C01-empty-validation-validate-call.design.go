package design

import . "goa.design/goa/v3/dsl"

// A result type (Profile) whose view omits its only required attribute is
// nested two levels deep in a viewed result: the projection of Profile keeps an
// empty validation, and the client validation code of the type in between
// (Summary) calls ValidateProfileResponseBody which is not generated because
// there is nothing to validate.
var _ = API("emptyvalidation", func() {})

var Profile = ResultType("application/vnd.profile", func() {
	TypeName("Profile")
	Attributes(func() {
		Attribute("india", UInt)
		Attribute("uniform", Int64)
		Required("uniform")
	})
	View("default", func() {
		Attribute("india")
	})
})

var Summary = ResultType("application/vnd.summary", func() {
	TypeName("Summary")
	Attributes(func() {
		Attribute("whiskey", Profile)
		Attribute("x", String)
		Required("x")
	})
})

var Root = ResultType("application/vnd.root", func() {
	TypeName("Root")
	Attributes(func() {
		Attribute("s", Summary)
	})
})

var _ = Service("tracker", func() {
	Method("update", func() {
		Result(Root, func() { View("default") })
		HTTP(func() {
			PATCH("/update")
		})
	})
})
