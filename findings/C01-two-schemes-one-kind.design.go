package design

import . "goa.design/goa/v3/dsl"

// Two security schemes of the same kind used by one service: method "a" needs
// both API keys (authAPIKeyFn redeclared in gen/svc/endpoints.go), methods "a"
// and "b" together make the service use two APIKey schemes (duplicate method
// APIKeyAuth in gen/svc/service.go, redeclared in the example svc.go).
var _ = API("twoschemes", func() {})

var KeyA = APIKeySecurity("key_a")
var KeyB = APIKeySecurity("key_b")

var _ = Service("svc", func() {
	Method("a", func() {
		Security(KeyA, KeyB)
		Payload(func() {
			APIKey("key_a", "ka", String)
			APIKey("key_b", "kb", String)
			Required("ka", "kb")
		})
		HTTP(func() {
			GET("/a")
			Header("ka:X-A")
			Header("kb:X-B")
		})
	})
	Method("b", func() {
		Security(KeyB)
		Payload(func() {
			APIKey("key_b", "kb", String)
			Required("kb")
		})
		HTTP(func() {
			GET("/b")
			Header("kb:X-B")
		})
	})
})
