package design

import . "goa.design/goa/v3/dsl"

// Primitive alias types in HTTP parameters: (a) an attribute of alias type
// that defines its own default value, (b) an alias of an alias.
var _ = API("aliasparams", func() {})

var Ident = Type("Ident", String)
var Num = Type("Num", UInt64, func() { Minimum(4) })
var Score = Type("Score", Num)

var _ = Service("svc", func() {
	Method("dflt", func() {
		Payload(func() {
			Attribute("y", Ident, func() { Default("ddd") })
		})
		HTTP(func() {
			GET("/dflt")
			Param("y")
		})
	})
	Method("chain", func() {
		Payload(func() {
			Attribute("m", Score)
			Attribute("y", Int)
		})
		HTTP(func() {
			POST("/chain")
			Param("m")
		})
	})
})
