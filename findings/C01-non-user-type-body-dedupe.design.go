package design

import . "goa.design/goa/v3/dsl"

// Two methods of a service whose request bodies are maps (or arrays) that are
// not user types, the second one needs a body constructor.
var _ = API("mappayload", func() {})

var Profile = Type("Profile", func() {
	Attribute("n", Int)
})

var _ = Service("svc", func() {
	Method("remove", func() {
		Payload(MapOf(String, UInt))
		HTTP(func() { POST("/remove") })
	})
	Method("pick", func() {
		Payload(MapOf(String, Profile))
		HTTP(func() { POST("/pick") })
	})
})
