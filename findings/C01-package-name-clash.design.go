package design

import . "goa.design/goa/v3/dsl"

// Services (and HTTP parameters) named after a package imported by the
// generated code: the service package / local variable shadows the import.
var _ = API("svcclash", func() {})

var _ = Service("goa", func() {
	Method("m", func() {
		Payload(func() {
			Attribute("a", String, func() { Pattern("a") })
		})
		HTTP(func() { POST("/goa") })
	})
})

var _ = Service("strings", func() {
	Method("m", func() {
		Payload(func() {
			Attribute("context", Int)
		})
		Result(String)
		HTTP(func() { GET("/strings/{context}") })
	})
})
