package design

import . "goa.design/goa/v3/dsl"

// Two methods of one service define the same error name with different
// non-user types: goa generates one Go type named after the error.
var _ = API("errname", func() {})

var _ = Service("svc", func() {
	Method("a", func() {
		Error("bad", Float64)
		HTTP(func() {
			GET("/a")
			Response("bad", StatusBadRequest)
		})
	})
	Method("b", func() {
		Error("bad", Boolean)
		HTTP(func() {
			GET("/b")
			Response("bad", StatusBadRequest)
		})
	})
})
