package design

import . "goa.design/goa/v3/dsl"

// Body("attr") where attr is a recursive user type whose attributes carry validations.
var _ = API("clivalidate", func() {})

var Rec = Type("Rec", func() {
	Attribute("n", Int, func() { Minimum(1) })
	Attribute("rec", "Rec")
	Required("n")
})

var _ = Service("svc", func() {
	Method("add", func() {
		Payload(func() {
			Attribute("charlie", Rec)
			Attribute("q", String)
		})
		HTTP(func() {
			POST("/c")
			Param("q")
			Body("charlie")
		})
	})
})
