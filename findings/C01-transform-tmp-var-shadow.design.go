package design

import . "goa.design/goa/v3/dsl"

// An optional attribute named like the variable that holds the transform
// target ("v" for payloads built from a body) whose type is a primitive alias.
var _ = API("tmpshadow", func() {})

var Ident = Type("Ident", UInt32)

var _ = Service("svc", func() {
	Method("a", func() {
		Payload(func() {
			Attribute("v", Ident)
		})
		HTTP(func() { POST("/a") })
	})
})
