package design

import . "goa.design/goa/v3/dsl"

// A result type is rendered with its default view in one response (nested in
// a viewed result) and without any view in another (nested in a result that is
// not a result type): both body attribute types are called LeafResponseBody.
// The explicit View("default") on the method result makes the client body
// projected as well so that the client package has the same clash.
var _ = API("nestedviews", func() {})

var Leaf = ResultType("application/vnd.leaf", func() {
	TypeName("Leaf")
	Attributes(func() {
		Attribute("ident", Int)
		Attribute("secret", String)
	})
	View("default", func() {
		Attribute("ident")
	})
})

var ParentT = ResultType("application/vnd.parent", func() {
	TypeName("Parent")
	Attributes(func() {
		Attribute("primary", Leaf)
	})
})

var _ = Service("calc", func() {
	Method("list", func() {
		Result(ParentT, func() { View("default") })
		HTTP(func() {
			POST("/list")
		})
	})
	Method("add", func() {
		Result(func() {
			Attribute("oscar", Leaf)
		})
		HTTP(func() {
			PUT("/add")
		})
	})
})
