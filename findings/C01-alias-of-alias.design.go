package design

import . "goa.design/goa/v3/dsl"

// A user type whose base is itself a primitive alias user type ("alias of an alias"). The DSL accepts
// Type("Ident", ZipCode) but no generator supports the chain:
//   - method "m": the header attribute ends up as an attribute of TYPE ZipCode carrying ZipCode's length
//     validation (codegen flattenValidations, codegen/validation.go:453-465); expr byLength switches on
//     the user type kind and panics "invalid type for length validation: ZipCode" (expr/example.go:180);
//   - method "n": codegen.validateAttribute (codegen/validation.go:229-230) recurses into the alias'
//     attribute with a nil `seen` map; that attribute's type is again a user type, so
//     recurseValidationCode writes to the nil map (codegen/validation.go:93) "assignment to entry in nil map";
//   - without validations, or in bodies, the generated code does not compile (undefined: ZipCode,
//     `body != nil` on a string type, ...).
// Accepted by eval.RunDSL; `goa gen` panics.
var ZipCode = Type("ZipCode", String, func() {
	MinLength(2)
	Pattern("^[0-9]+$")
})

var Ident = Type("Ident", ZipCode)

var RT = ResultType("application/vnd.rt", func() {
	Attributes(func() {
		Attribute("id", Ident)
	})
})

var _ = Service("svc", func() {
	Method("m", func() {
		Payload(func() {
			Attribute("id", Ident)
		})
		HTTP(func() {
			POST("/")
			Header("id")
		})
	})
})

var _ = Service("svc2", func() {
	Method("n", func() {
		Result(RT)
		HTTP(func() { GET("/n") })
	})
})
