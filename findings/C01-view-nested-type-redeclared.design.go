package design

import . "goa.design/goa/v3/dsl"

var _ = API("viewsrec", func() {})

var R = ResultType("application/vnd.r", func() {
	TypeName("R")
	Attributes(func() {
		Attribute("a", String)
		Attribute("child", "R")
		Required("a")
	})
	View("default", func() {
		Attribute("a")
		Attribute("child", func() { View("tiny") })
	})
	View("tiny", func() {
		Attribute("a")
	})
})

var _ = Service("svc", func() {
	Method("update", func() {
		Result(R)
		HTTP(func() { GET("/") })
	})
})
