package design

import . "goa.design/goa/v3/dsl"

// A result type (with views) that reaches a OneOf attribute whose PRIMITIVE alternative carries a
// validation is accepted, but gen/<svc>/views/view.go does not compile:
//
//	gen/calc/views/view.go:65: invalid operation: v != nil (mismatched types EitherCountView and untyped nil)
//	gen/calc/views/view.go:66: invalid operation: cannot indirect v (variable of type EitherCountView)
//
// Root cause: codegen/validation.go recurseValidationCode, union branch with view == true, validates the
// type-switch variable `v` with the attribute context of the enclosing view type, in which primitives
// are pointers; the alternatives of a view union are plain named types (`type EitherCountView uint32`),
// never pointers. The array branch a few lines above already clears ctx.Pointer for primitive elements.
// Repair (C01-union-view-member-validation.diff): do the same for primitive union values. goa's own
// tests pass with it (codegen, codegen/service, http/..., expr; grpc/codegen fails only its protoc
// tests, as on the unchanged tree).
var _ = API("a", func() {})

var Res = ResultType("application/vnd.res", func() {
	TypeName("Res")
	Attributes(func() {
		Attribute("id", Int)
		OneOf("either", func() {
			Attribute("count", UInt32, func() { Maximum(20) })
			Attribute("label", String)
		})
	})
	View("default", func() {
		Attribute("id")
		Attribute("either")
	})
})

var _ = Service("calc", func() {
	Method("add", func() {
		Result(Res)
		HTTP(func() { GET("/add") })
	})
})
