package design

import . "goa.design/goa/v3/dsl"

// Body("pick") naming a OneOf attribute: the design is accepted and the generated code compiles, but
// neither half moves the union between the payload and the body.
//
// Generated client: NewAddRequestBody(p) returns the empty {Type, Value} struct without looking at
// p.Pick, so every request carries {"Type":null,"Value":null} and is answered 400 missing_field
// ("Type" is missing from body; "Value" is missing from body) -- also when the payload is perfectly
// valid. Generated server: NewAddPayload(body, caption) ignores body; a hand-encoded request
// {"Type":"count","Value":"3"} is accepted and reaches the service method WITHOUT the union (Pick nil).
//
// Root cause: http/codegen/service_data.go makeHTTPTypeRecursive replaces the union attribute with
// expr.UnionToObject(att), a fresh attribute that does not carry the "origin:attribute" meta set by
// dsl Body("name") (dsl/http.go:965). buildRequestBodyType / buildPayloadData then treat the body as
// the whole payload and transform object to object by field names ("Type"/"Value" match nothing).
//
// Not repaired: carrying the meta over is not enough -- the union<->object transforms then emitted for
// the anonymous body struct do not compile (pointer Type/Value fields assigned from strings, `var v
// *calc.Pick`, value/pointer mix of the inline struct); tried in a scratch worktree. A repair has to
// teach the pinned transform templates (codegen/go_transform_union_test.go) about pointer fields, or the
// DSL validation has to reject the design. Listed: trigger:body-is-union:rejected / :misnamed /
// :mismatch (C02, C04).
var _ = API("a", func() {})

var _ = Service("calc", func() {
	Method("add", func() {
		Payload(func() {
			Attribute("caption", String)
			OneOf("pick", func() {
				Attribute("name", String)
				Attribute("count", Int)
			})
		})
		HTTP(func() {
			POST("/add")
			Header("caption")
			Body("pick")
		})
	})
})
