package design

import . "goa.design/goa/v3/dsl"

// A StreamingPayload whose type contains (a) a union attribute or (b) an attribute of a primitive alias
// type with validations. eval.RunDSL accepts both; the generated HTTP server/client packages do not compile:
//
//	(a) gen/http/calc/server/types.go: undefined: Foxtrot, undefined: FoxtrotRomeoStreamingBody,
//	    undefined: FoxtrotLastNameStreamingBody (same in client/types.go)
//	(b) gen/http/calc/server/types.go: invalid operation: body != nil (mismatched types
//	    LabelAliasStreamingBody and untyped nil); cannot indirect body
//
// The same types used as a plain Payload (request body) compile.
//
// Root cause: http/codegen/websocket.go initWebSocketData calls `makeHTTPType(e.StreamingBody)` and drops
// the result. makeHTTPType does not modify its argument (it dups it): it RETURNS the HTTP form of the
// type (aliases replaced by their base type, unions turned into {Type, Value} objects) — the request
// body path does `e.Body = makeHTTPType(e.Body)`. The streaming body therefore keeps alias user types
// and raw unions, for which the body type templates emit references to types that are never declared.
// Repair (C01-stream-body-http-type.diff): assign the result, before the body types are built.
var _ = API("a", func() {})

var Item = Type("Item", func() {
	OneOf("foxtrot", func() {
		Attribute("romeo", String)
		Attribute("last_name", Int)
	})
})

var Label = Type("LabelAlias", String, func() {
	Pattern("^[0-9]{2,4}$")
})

var _ = Service("calc", func() {
	// (a)
	Method("rate", func() {
		StreamingPayload(Item)
		HTTP(func() {
			GET("/rate")
		})
	})
	// (b)
	Method("query", func() {
		StreamingPayload(func() {
			Attribute("is_active", Label)
		})
		HTTP(func() {
			GET("/query")
		})
	})
})
