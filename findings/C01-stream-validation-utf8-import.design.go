package design

import . "goa.design/goa/v3/dsl"

// A streamed message type that is not a user type (primitive, array, map) and carries a string length
// validation. eval.RunDSL accepts it; gen/http/calc/client/websocket.go (Recv of the streaming result) and
// gen/http/calc/server/websocket.go (Recv of the streaming payload) do not compile: `undefined: utf8`.
//
// Root cause: for non user types the websocket Recv templates inline the validation code
// (`utf8.RuneCountInString(e) < 1`), but the import lists of websocketServerFile / websocketClientFile
// (http/codegen/websocket.go) lack "unicode/utf8" (the types.go / encode_decode.go headers have it).
// Unused imports are pruned when the file is finalized, so listing it is harmless.
// Repair: C01-stream-validation-utf8-import.diff.
var _ = API("a", func() {})

var _ = Service("calc", func() {
	Method("upload", func() {
		StreamingPayload(String, func() { MinLength(1) })
		StreamingResult(ArrayOf(String, func() { MinLength(1) }))
		HTTP(func() {
			GET("/upload")
		})
	})
})
