package design

import . "goa.design/goa/v3/dsl"

var _ = API("inline", func() {})

var Gadget = Type("Gadget", func() {
	Attribute("z", Int)
})

var _ = Service("svc", func() {
	Method("a", func() {
		Payload(func() {
			Attribute("outer", func() {
				Attribute("g", Gadget)
			})
		})
		HTTP(func() { POST("/a") })
	})
})
