package design

import . "goa.design/goa/v3/dsl"

// Inline (anonymous) objects nested in an HTTP body below the first level
// (service "nested") or reached through an array/map user type such as a
// result type collection (service "coll"): the struct literal built by the
// transform code lacks the field tags of the declared body type.
var _ = API("inlinetags", func() {})

var _ = Service("nested", func() {
	Method("a", func() {
		Payload(func() {
			Attribute("outer", func() {
				Attribute("inner", func() {
					Attribute("x", Int)
				})
			})
		})
		HTTP(func() { POST("/a") })
	})
})

var Report = ResultType("application/vnd.report", func() {
	TypeName("Report")
	Attributes(func() {
		Attribute("echo", func() {
			Attribute("victor", String)
		})
	})
})

var _ = Service("coll", func() {
	Method("b", func() {
		Result(CollectionOf(Report))
		HTTP(func() { GET("/b") })
	})
})
