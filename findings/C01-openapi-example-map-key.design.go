package design

import . "goa.design/goa/v3/dsl"

// Any attribute reachable from an HTTP endpoint whose type is a map with a Boolean key (same for
// Float32, Float64 and Any keys). goa supports such maps (its own tests use MapOf(Boolean, String)
// query parameters) and generates a random example map[bool]string for the OpenAPI documents; the
// OpenAPI writer then calls encoding/json on it, which cannot encode maps with bool/float/interface
// keys => generator error `json: unsupported type: map[bool]string` (http/codegen/openapi/v2/files.go:53,
// v3/files.go:51 via Schema.Example set at http/codegen/openapi/json_schema.go:487 and v3/types.go:263).
// Accepted by eval.RunDSL; `goa gen` fails.
var _ = Service("svc", func() {
	Method("m", func() {
		Payload(func() {
			Attribute("q", MapOf(Boolean, String))
		})
		HTTP(func() {
			GET("/")
			Param("q")
		})
	})
})
