package design

import . "goa.design/goa/v3/dsl"

// A string alias user type carried in a request cookie and a response cookie.
var _ = API("aliascookie", func() {})

var Ident = Type("Ident", String)

var _ = Service("svc", func() {
	Method("a", func() {
		Payload(func() {
			Attribute("c", Ident)
		})
		Result(func() {
			Attribute("s", Ident)
			Required("s")
		})
		HTTP(func() {
			GET("/a")
			Cookie("c")
			Response(StatusOK, func() {
				Cookie("s")
			})
		})
	})
})
