package design

import . "goa.design/goa/v3/dsl"

// The view validation code of Listing has something to validate (romeo) and
// then checks a required attribute of result type (first_name): both pieces of
// code are glued together ("}if result.FirstName == nil {") and gofmt rejects
// gen/catalog/views/view.go. Same between two required result type attributes
// (first_name, second_name). Note that the generator looks the requirement up
// in the NESTED type (Summary requires its own "first_name" and "second_name").
var _ = API("viewrequired", func() {})

var Summary = ResultType("application/vnd.summary", func() {
	TypeName("Summary")
	Attributes(func() {
		Attribute("first_name", Int)
		Attribute("second_name", Int)
		Required("first_name", "second_name")
	})
})

var Listing = ResultType("application/vnd.listing", func() {
	TypeName("Listing")
	Attributes(func() {
		Attribute("first_name", Summary)
		Attribute("second_name", Summary)
		Attribute("romeo", String, func() {
			MinLength(1)
		})
		Required("first_name", "second_name")
	})
})

var _ = Service("catalog", func() {
	Method("upload", func() {
		Result(Listing)
		HTTP(func() {
			GET("/upload")
		})
	})
})
