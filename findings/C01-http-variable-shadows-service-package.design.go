package design

import . "goa.design/goa/v3/dsl"

// Attributes mapped to a path or query string parameter, header or cookie
// whose Go variable name is the name of the service package (svc, type_).
var _ = API("varpkg", func() {})

var _ = Service("svc", func() {
	Method("client", func() {
		Payload(func() {
			Attribute("svc", Boolean)
			Attribute("other", String)
		})
		Result(func() {
			Attribute("svc", Int)
			Attribute("other", String)
		})
		HTTP(func() {
			PUT("/client")
			Param("svc")
			Response(StatusOK, func() {
				Header("svc")
			})
		})
	})
})

var _ = Service("type", func() {
	Method("path", func() {
		Payload(func() {
			Attribute("type", String)
			Attribute("other", String)
			Required("type")
		})
		HTTP(func() {
			POST("/path/{type}")
		})
	})
	Method("hdr", func() {
		Payload(func() {
			Attribute("type", String)
			Attribute("other", String)
		})
		HTTP(func() {
			POST("/hdr")
			Header("type")
		})
	})
	Method("cookie", func() {
		Payload(func() {
			Attribute("type", String)
			Attribute("other", String)
		})
		HTTP(func() {
			POST("/cookie")
			Cookie("type")
		})
	})
})
